#!/bin/bash
# usage: tools/mkworktree.sh <name>   -> /tmp/<name>: a git worktree of /repo at HEAD with /repo's build state copied in
set -e
d=/tmp/$1
git -C /repo worktree remove --force $d 2>/dev/null || true
rm -rf $d
git -C /repo worktree add -q --detach $d HEAD
rsync -a --exclude .git /repo/ $d/
# absolute paths of /repo inside generated Makefiles/libtool files point at the copy instead
grep -rl --include=Makefile --include=config.status --include=libtool --include='*.la' --include='*.lo' -e "/repo" $d 2>/dev/null | xargs -r sed -i "s#/repo#$d#g"
git -C $d status --short | head -3
echo $d
