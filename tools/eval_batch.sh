#!/bin/bash
# usage: tools/eval_batch.sh "<names>" [extra checks...]   -> build/seedlogs/eval.log
cd /verif
for n in $1; do
  id=${n%%-*}
  python3 tools/seeded.py evaluate-scratch $n $id ${@:2} >> build/seedlogs/eval.log 2>&1
done
echo "eval batch done: $1" >> build/seedlogs/eval.log
