#!/usr/bin/env python3
"""After a history rewrite in /repo: map the commit ids in known_findings.txt to the current ones by subject."""
import subprocess, re
log = subprocess.run(["git", "-C", "/repo", "log", "--format=%h\t%s"], capture_output=True, text=True).stdout.splitlines()
cur = {s: h for h, s in (l.split("\t", 1) for l in log)}
out = []
for line in open("/verif/known_findings.txt"):
    m = re.match(r"(fixed: property=\S+ )([0-9a-f]{7,})( .*)", line.rstrip("\n"))
    if m:
        r = subprocess.run(["git", "-C", "/repo", "log", "-1", "--format=%s", m.group(2)], capture_output=True, text=True)
        subj = r.stdout.strip()
        if subj in cur:
            line = m.group(1) + cur[subj] + m.group(3) + "\n"
        else:
            print("NOT IN HISTORY:", line.strip())
    out.append(line)
open("/verif/known_findings.txt", "w").writelines(out)
