#!/usr/bin/env python3
"""Markdown table of the seeded changes: what each breaks, which checks were run against it, which caught it."""
import glob
import json
import os

VERIF = os.path.dirname(os.path.dirname(os.path.abspath(__file__)))


def main():
    rows = []
    for d in sorted(glob.glob(os.path.join(VERIF, "seeded", "C*-*"))):
        name = os.path.basename(d)
        try:
            meta = json.load(open(os.path.join(d, "meta.json")))
        except Exception:
            meta = {}
        res = {}
        rp = os.path.join(d, "result.json")
        if os.path.exists(rp):
            res = json.load(open(rp))
        runs = res.get("runs", [])
        # the last run of each check counts (checks were strengthened between runs)
        last = {}
        for r in runs:
            last[r["check"]] = r
        caught = sorted(c for c, r in last.items() if r["exit"] == 1 and r["violations"])
        missed = sorted(c for c, r in last.items() if r["exit"] == 0)
        first_missed = sorted(set(r["check"] for r in runs if r["exit"] == 0) & set(caught))
        title = (meta.get("title") or meta.get("what_breaks") or "").replace("|", "/").replace("\n", " ")[:110]
        files = ", ".join(os.path.basename(f) for f in meta.get("files", [])[:2])
        rows.append((name, files, title, ", ".join(caught) or "—", ", ".join(missed) or "—", ", ".join(first_missed) or ""))
    print("| change | file | what it breaks | caught by (quick, seed 1) | run and not caught | caught only after strengthening |")
    print("|---|---|---|---|---|---|")
    for r in rows:
        print("| %s | %s | %s | %s | %s | %s |" % r)
    own = sum(1 for r in rows if r[0].split("-")[0] in r[3].split(", "))
    anyc = sum(1 for r in rows if r[3] != "—")
    print("\n%d changes; %d caught by the check of their own property, %d by at least one check." % (len(rows), own, anyc))


if __name__ == "__main__":
    main()
