#!/usr/bin/env python3
"""Seeded changes: confirm a sub-agent's change in a scratch worktree, keep it under /verif/seeded/, run checks against it.

  tools/seeded.py confirm <ID> <k>         /tmp/mutout-<ID>/<k>/{patch.diff,demo.sh,meta.json,...} -> /verif/seeded/<ID>-<k>/
  tools/seeded.py evaluate <name> [checks] apply /verif/seeded/<name>/patch.diff to /repo, run ./check <checks> --tier quick,
                                            undo; the result goes to /verif/seeded/<name>/result.json
"""
import json
import os
import shutil
import subprocess
import sys
import time

VERIF = os.path.dirname(os.path.dirname(os.path.abspath(__file__)))
SEEDED = os.path.join(VERIF, "seeded")


def sh(cmd, cwd=None, timeout=None, env=None):
    r = subprocess.run(cmd, shell=True, cwd=cwd, stdout=subprocess.PIPE, stderr=subprocess.STDOUT, timeout=timeout, env=env)
    return r.returncode, r.stdout.decode(errors="replace")


def test_summary(tree, log):
    """PASS/FAIL lines of a `make -k check` log -> (failed tests that pass on the pristine tree, counts)"""
    fails = sorted(set(l.split(":", 1)[1].strip() for l in log.split("\n") if l.startswith(("FAIL:", "ERROR:"))))
    passes = sum(1 for l in log.split("\n") if l.startswith("PASS:"))
    unexpected = [f for f in fails if f != "check-parsing.sh"]
    return unexpected, passes, fails


def confirm(pid, k):
    src = "/tmp/mutout-%s/%s" % (pid, k)
    name = "%s-%s" % (pid, k)
    wt = "seedchk-%s" % name
    rec = {"property": pid, "name": name, "confirmed_at": time.strftime("%Y-%m-%d %H:%M:%S")}
    rc, out = sh("%s/tools/mkworktree.sh %s" % (VERIF, wt))
    tree = "/tmp/" + wt
    try:
        rc0, o0 = sh("bash %s/demo.sh %s" % (src, tree), timeout=1800)
        rec["demo_on_pristine"] = {"exit": rc0, "tail": o0[-600:]}
        rc, o = sh("git apply %s/patch.diff" % src, cwd=tree)
        if rc != 0:
            rec["verdict"] = "patch does not apply: " + o[-300:]
            return rec
        rc, o = sh("make -j8", cwd=tree, timeout=1800)
        if rc != 0:
            rec["verdict"] = "does not build: " + o[-600:]
            return rec
        rc1, o1 = sh("bash %s/demo.sh %s" % (src, tree), timeout=1800)
        rec["demo_on_patched"] = {"exit": rc1, "tail": o1[-900:]}
        t0 = time.time()
        rc, log = sh("make -k -j8 check", cwd=tree, timeout=7200)
        unexpected, passes, fails = test_summary(tree, log)
        rec["tests"] = {"cmd": "make -k -j8 check", "passes": passes, "fails": fails, "seconds": int(time.time() - t0)}
        ok = rc0 == 0 and rc1 == 1 and not unexpected and passes >= 82
        rec["verdict"] = "kept" if ok else "rejected: demo pristine=%s patched=%s unexpected test failures=%s passes=%d" % (
            rc0, rc1, unexpected, passes)
        if ok:
            dst = os.path.join(SEEDED, name)
            shutil.rmtree(dst, ignore_errors=True)
            shutil.copytree(src, dst)
            meta_p = os.path.join(dst, "meta.json")
            try:
                meta = json.load(open(meta_p))
            except Exception:
                meta = {}
            meta["confirmation"] = rec
            json.dump(meta, open(meta_p, "w"), indent=1)
        return rec
    finally:
        sh("git -C /repo worktree remove --force %s" % tree)
        shutil.rmtree(tree, ignore_errors=True)


def evaluate_scratch(name, checks, seeds=("1",)):
    """Same as evaluate() but on a scratch worktree given to the checks through VERIF_REPO (safe to run while
    other jobs read /repo)."""
    d = os.path.join(SEEDED, name)
    patch = os.path.join(d, "patch.diff")
    wt = "seedeval-%s" % name
    tree = "/tmp/" + wt
    sh("git -C /repo worktree remove --force %s" % tree)
    shutil.rmtree(tree, ignore_errors=True)
    rc, o = sh("git -C /repo worktree add -q --detach %s HEAD && rsync -a --exclude .git --exclude '*.o' --exclude '*.lo' "
               "--exclude '.libs' --exclude 'tests/' /repo/ %s/" % (tree, tree))
    res = {"name": name, "runs": []}
    try:
        rc, o = sh("git apply %s" % patch, cwd=tree)
        if rc != 0:
            rc, o = sh("git apply --3way %s" % patch, cwd=tree)
            if rc != 0:
                raise SystemExit("patch does not apply: " + o[-400:])
        for c in checks:
            for s in seeds:
                env = dict(os.environ, VERIF_SEED=s, VERIF_REPO=tree, VERIF_EVIDENCE_DIR=os.path.join(VERIF, "build", "seedlogs", "ev-" + name))
                t0 = time.time()
                rc, out = sh("./check %s --tier quick" % c, cwd=VERIF, timeout=3600, env=env)
                viol = [l for l in out.split("\n") if l.startswith("VIOLATION")]
                first = ""
                if viol:
                    i = out.find(viol[0])
                    first = out[i:i + 900]
                res["runs"].append({"check": c, "seed": s, "exit": rc, "violations": len(viol), "seconds": int(time.time() - t0),
                                    "first": first, "summary": [l for l in out.split("\n") if l.startswith(c + " ")][-1:],
                                    "mode": "scratch worktree via VERIF_REPO"})
                print("%s %s seed=%s exit=%d violations=%d %ds" % (name, c, s, rc, len(viol), time.time() - t0), flush=True)
    finally:
        sh("git -C /repo worktree remove --force %s" % tree)
        shutil.rmtree(tree, ignore_errors=True)
    return _store(d, res)


def _store(d, res):
    prev = {}
    rp = os.path.join(d, "result.json")
    if os.path.exists(rp):
        prev = json.load(open(rp))
    prev.setdefault("runs", [])
    prev["runs"] += res["runs"]
    prev["caught_by"] = sorted(set(r["check"] for r in prev["runs"] if r["exit"] == 1 and r["violations"]))
    prev["missed_by"] = sorted(set(r["check"] for r in prev["runs"] if r["exit"] == 0) - set(prev["caught_by"]))
    json.dump(prev, open(rp, "w"), indent=1)
    return prev


def evaluate(name, checks, seeds=("1",)):
    d = os.path.join(SEEDED, name)
    patch = os.path.join(d, "patch.diff")
    rc, o = sh("git -C /repo status --porcelain --untracked-files=no")
    if o.strip():
        raise SystemExit("/repo has local modifications, refusing: " + o[:300])
    res = {"name": name, "runs": []}
    rc, o = sh("git -C /repo apply %s" % patch)
    if rc != 0:
        raise SystemExit("patch does not apply to /repo: " + o[-400:])
    try:
        for c in checks:
            for s in seeds:
                env = dict(os.environ, VERIF_SEED=s)
                t0 = time.time()
                rc, out = sh("./check %s --tier quick" % c, cwd=VERIF, timeout=3600, env=env)
                viol = [l for l in out.split("\n") if l.startswith("VIOLATION")]
                first = ""
                if viol:
                    i = out.find(viol[0])
                    first = out[i:i + 900]
                res["runs"].append({"check": c, "seed": s, "exit": rc, "violations": len(viol), "seconds": int(time.time() - t0),
                                    "first": first, "summary": [l for l in out.split("\n") if l.startswith(c + " ")][-1:]})
                print("%s %s seed=%s exit=%d violations=%d %ds" % (name, c, s, rc, len(viol), time.time() - t0), flush=True)
    finally:
        sh("git -C /repo checkout -- .")
        # evidence/replays produced while /repo was modified do not describe the real tree
        sh("git checkout -- evidence", cwd=VERIF)
        for c in checks:
            shutil.rmtree(os.path.join(VERIF, "replays", c, "found"), ignore_errors=True)
    return _store(d, res)


if __name__ == "__main__":
    if sys.argv[1] == "confirm":
        r = confirm(sys.argv[2], sys.argv[3])
        print(json.dumps(r, indent=1)[:3000])
    elif sys.argv[1] == "evaluate-scratch":
        name = sys.argv[2]
        checks = sys.argv[3:] or [name.split("-")[0]]
        r = evaluate_scratch(name, checks)
        print(json.dumps({"caught_by": r["caught_by"], "missed_by": r["missed_by"]}))
    elif sys.argv[1] == "evaluate":
        name = sys.argv[2]
        checks = sys.argv[3:] or [name.split("-")[0]]
        r = evaluate(name, checks)
        print(json.dumps({"caught_by": r["caught_by"]}))
