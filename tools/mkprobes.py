#!/usr/bin/env python3
"""Writes the probe files replays/<ID>/known/<class>.json for every (property, class) in known_findings.txt
that has a recipe below and no probe yet."""
import json, os, re, sys
sys.path.insert(0, os.path.dirname(os.path.dirname(os.path.abspath(__file__))))
from vf.model import *
from vf import ref_ber

def chain4():
    return [("T0", T("ENUMERATED", named=[("e0", 5), ("e1", 6)], tag=("PRIVATE", 2, "EXPLICIT"))),
            ("T3", T("REF", ref="T0", tag=("APPLICATION", 1, "EXPLICIT"))),
            ("R", T("REF", ref="T3", tag=("CONTEXT", 29, "EXPLICIT")))]

RECIPES = {
    "bitstring.trailing-zero-bits.uper": ([("R", T("BITSTRING"))], (b"\x00", 1), "uper"),
    "int.ub-above-int64.uper": ([("R", T("INTEGER", cons=Cons("value", [(0, (1 << 64) - 1)])))], 5, "uper"),
    "from.sparse-above-255.uper": ([("R", T("UniversalString", alpha=Cons("from", [(0x41, 0x41), (0x100, 0x100), (0x10000, 0x10000)])))], "A\u0100\U00010000", "uper"),
    "set.no-oer-uper": ([("R", T("SEQUENCE", members=[Member("s", T("SET", members=[Member("a", T("INTEGER"))]))]))], {"s": {"a": 5}}, "uper"),
    "time.named-type.uper": ([("R", T("UTCTime"))], "700101000000Z", "uper"),
    "size.ext-root-above-64K.uper": ([("R", T("OCTETSTRING", size=Cons("size", [(65536, 65536)], True)))], b"", "uper"),
    "kmstring.size-extension.alphabet-dropped.uper": ([("R", T("NumericString", size=Cons("size", [(2, 2)], True)))], "8", "uper"),
    "int.beyond-long.xer": ([("R", T("INTEGER", cons=Cons("value", [(1, None)])))], (1 << 64) - 2, "xer"),
    "real.basic-xer-precision": ([("R", T("REAL"))], 1e-30, "xer"),
    "tagchain.four-or-more.der": (chain4(), 5, "der"),
    "zero-width-elements.over-200.per-oer": ([("R", T("SEQOF", elem=T("NULL")))], [None] * 255, "uper"),
}

def main():
    root = os.path.dirname(os.path.dirname(os.path.abspath(__file__)))
    for line in open(os.path.join(root, "known_findings.txt")):
        if not line.startswith("known:"):
            continue
        pid = re.search(r"property=(\S+)", line).group(1)
        cls = re.search(r"class=(\S+)", line).group(1)
        path = os.path.join(root, "replays", pid, "known", cls + ".json")
        if os.path.exists(path) or cls not in RECIPES or pid not in ("C01", "C02", "C03", "C05", "C06", "C13"):
            continue
        types, v, syn = RECIPES[cls]
        m = Module("M", "AUTOMATIC", types)
        t = m.lookup("R")
        case = {"module": m.to_json(), "type": "R", "probe": True}
        if pid == "C01":
            case.update({"value": val_to_json(v), "chain": ["der", syn] if syn != "der" else ["der"],
                         "refder": ref_ber.encode(m, t, v).hex()})
        elif pid == "C02":
            case["x"] = val_to_json(v)
        elif pid == "C03":
            case["x"] = {"value": val_to_json(v), "syntax": syn if syn != "der" else "ber", "decisions": []}
        else:
            continue
        os.makedirs(os.path.dirname(path), exist_ok=True)
        json.dump({"property": pid, "summary": "probe of known finding " + cls, "case": case}, open(path, "w"), indent=1)
        print("wrote", path)

main()
