#!/bin/bash
# usage: tools/sweep.sh "<seeds>" "<ids>" [tier]  -> build/sweep/<id>.<seed>.<tier>.log ; summary lines on stdout
cd /verif
tier=${3:-quick}
for s in $1; do for id in $2; do
  log=build/sweep/$id.$s.$tier.log
  VERIF_SEED=$s timeout 3600 ./check $id --tier $tier > $log 2>&1
  echo "rc=$? $(grep -E "^$id (OK|VIOLATED|ERROR)" $log | tail -1)"
done; done
