#!/bin/bash
# usage: tools/confirm_batch.sh "C01 C02 ..."   (three parallel streams)
cd /verif
run() { for id in $1; do for k in 1 2; do [ -d /tmp/mutout-$id/$k ] && python3 tools/seeded.py confirm $id $k > build/seedlogs/confirm-$id-$k.log 2>&1; done; done; }
ids=($1)
n=${#ids[@]}
a=""; b=""; c=""
for i in "${!ids[@]}"; do case $((i % 3)) in 0) a="$a ${ids[$i]}";; 1) b="$b ${ids[$i]}";; 2) c="$c ${ids[$i]}";; esac; done
run "$a" & run "$b" & run "$c" & wait
echo batch done
