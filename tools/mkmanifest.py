#!/usr/bin/env python3
"""Regenerates /verif/MANIFEST.json from the table below (one place to keep it current)."""
import json
import os

HERE = os.path.dirname(os.path.dirname(os.path.abspath(__file__)))

CHECKS = {
    "C01": dict(
        level="exploration", design="DESIGN.md §4 C01",
        technique="property-based testing: Hypothesis-generated ASN.1 modules and values, round-trip / transcoding-chain oracle against the compiled codecs, reference DER as injection path, type-level shrinking",
        text="Generated modules (Hypothesis) are compiled with the asn1c built from /repo; generated values are injected as "
             "reference DER and sent through chains of DER/OER/UPER/BASIC-XER/CANONICAL-XER under ASan+UBSan; every step must "
             "encode, decode RC_OK, consume exactly what was produced, compare equal and keep the DER.  A sample of an infinite "
             "space: absence is not established, the boundary-biased generators and the class histogram in the evidence say what was reached.",
        note="trusts clang sanitizers, Hypothesis, and vf/ref_ber.py (independent DER encoder used to inject values); "
             "classes listed in known_findings.txt are excluded by construction and counted"),
}

NOT_YET = {
}

NOT_APPLICABLE = []


def main():
    checks = []
    for pid in sorted(CHECKS):
        c = CHECKS[pid]
        checks.append({
            "property_id": pid,
            "quick_cmd": "./check %s --tier quick" % pid,
            "thorough_cmd": "./check %s --tier thorough" % pid,
            "evidence_file": "/verif/evidence/%s.json" % pid,
            "replay_cmd_template": "./check %s --replay {path}" % pid,
            "engine": c.get("engine", "vf-hypothesis"),
            "level_claimed": {"category": c["level"], "text": c["text"], "design_ref": c["design"]},
            "level_note": c["note"],
            "technique": c["technique"],
        })
    na = list(NOT_APPLICABLE)
    for pid, why in sorted(NOT_YET.items()):
        na.append({"property_id": pid, "reason": why})
    props = [json.loads(l)["id"] for l in open(os.path.join(HERE, "properties.jsonl"))]
    for pid in props:
        if pid not in CHECKS and not any(x["property_id"] == pid for x in na):
            na.append({"property_id": pid, "reason": "check not built yet in this session (work in progress; the design in DESIGN.md §4 applies)"})
    m = {
        "version": 1,
        "setup_cmd": "./setup.sh",
        "hooks": {
            "guard": "ASN1C_VERIF_HOOKS",
            "enable": "no source hooks exist; checks build /repo's sources themselves (vf/build.py) with -DASN1C_VERIF_HOOKS, "
                      "sanitizers and -Wl,--wrap=malloc... for allocation faults",
            "baseline_off_cmd": "cd /repo && make -j8 && make -k -j8 check",
            "source_commits": [],
            "add_only": True,
        },
        "engines": [
            {"name": "vf-hypothesis", "path": "/verif/vf", "serves_properties": sorted(CHECKS),
             "kind_free_text": "Python/Hypothesis generators + independent reference codecs driving C drivers linked with the code asn1c generates"},
        ],
        "checks": checks,
        "not_applicable": na,
        "notes": "All checks rebuild the compiler and the skeleton library from /repo's working tree into /verif/build/<source hash>/. "
                 "known_findings.txt lists repaired (fixed:) and recorded (known:) defects.",
    }
    with open(os.path.join(HERE, "MANIFEST.json"), "w") as f:
        json.dump(m, f, indent=1)
        f.write("\n")


if __name__ == "__main__":
    main()
