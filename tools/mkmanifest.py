#!/usr/bin/env python3
"""Regenerates /verif/MANIFEST.json from the table below (one place to keep it current)."""
import json
import os

HERE = os.path.dirname(os.path.dirname(os.path.abspath(__file__)))

CHECKS = {
    "C01": dict(
        level="exploration", design="DESIGN.md §4 C01",
        technique="property-based testing: Hypothesis-generated ASN.1 modules and values, round-trip / transcoding-chain oracle against the compiled codecs, reference DER as injection path, type-level shrinking",
        text="Generated modules (Hypothesis) are compiled with the asn1c built from /repo; generated values are injected as "
             "reference DER and sent through chains of DER/OER/UPER/BASIC-XER/CANONICAL-XER under ASan+UBSan; every step must "
             "encode, decode RC_OK, consume exactly what was produced, compare equal and keep the DER.  A sample of an infinite "
             "space: absence is not established, the boundary-biased generators and the class histogram in the evidence say what was reached.",
        note="trusts clang sanitizers, Hypothesis, and vf/ref_ber.py (independent DER encoder used to inject values); "
             "classes listed in known_findings.txt are excluded by construction and counted"),
}

CHECKS["C02"] = dict(
    level="exploration", design="DESIGN.md §4 C02, appendix A",
    technique="property-based differential testing against independent reference encoders (DER, canonical UPER, canonical OER) over Hypothesis-generated modules plus a systematic boundary catalogue",
    text="Every generated value is encoded by the library in DER, UPER and OER and compared byte for byte with reference "
         "encoders written from X.690/X.691/X.696 that share nothing with asn1c, so symmetric encoder/decoder errors become "
         "visible.  The catalogue walks integer width boundaries, tag number boundaries, SIZE/FROM boundaries, 16K/64K "
         "fragmentation, >127 enumerations and >63 extension additions systematically; random modules compose features.",
    note="the reference encoders are the trusted base (self-tested against hand-derived vectors in vf/ref_selftest.py); "
         "constructs they refuse to judge are counted as ref-excluded, known findings are excluded by construction and counted")
CHECKS["C03"] = dict(
    level="exploration", design="DESIGN.md §4 C03",
    technique="property-based testing with an encoding-variant generator (decision lists drawn and shrunk by Hypothesis) over reference BER/PER/OER encoders and XER layout variants; oracle: decode gives RC_OK, full consumption and the reference DER",
    text="For each generated value a family of alternative valid encodings is produced (indefinite/long/padded lengths, "
         "constructed and nested strings, permuted SET/SET OF, DEFAULT present, unknown extension additions in BER, UPER, OER "
         "and XER, REAL forms, BASIC-PER/BASIC-OER options, XER white space/comments/empty-element forms); the library must "
         "accept each and yield the same value.  Decision lists shrink to the single offending choice; catalogue types get "
         "every boundary value under every forced variant.",
    note="only decisions the standards allow are generated; XER element naming is taken from the library's own "
         "CANONICAL-XER output (layout only is varied); sample of an infinite family")
CHECKS["C05"] = dict(
    level="exploration", design="DESIGN.md §4 C05",
    technique="property-based differential testing of restartable decoding: exhaustive 2-chunk split enumeration plus one-byte feeding plus Hypothesis-drawn k-chunk schedules, each compared with one-shot decoding; prefix => RC_WMORE oracle",
    text="For generated values in DER, BER variants (incl. indefinite lengths), OER, BASIC- and CANONICAL-XER the driver "
         "decodes one-shot and then with EVERY 2-chunk split point (exhaustive up to 1500 octets, sampled beyond), one byte "
         "at a time, and with a drawn schedule, following the manual's restart protocol; rc, total consumed and the DER of "
         "the result must be identical, and every proper prefix must give RC_WMORE with consumed <= prefix.",
    note="PER excluded (documented as not restartable); split enumeration is exhaustive per encoding, encodings are a sample")

CHECKS["C06"] = dict(
    level="exploration", design="DESIGN.md §4 C06",
    technique="metamorphic property-based testing: value-preserving representation mutations (walker over the type descriptors) and decode-from-BER-variant, canonical encoders must give byte-identical output",
    text="S is decoded from the reference DER, S' from a drawn alternative BER encoding of the same value and then mutated in "
         "memory (SET OF order, redundant INTEGER octets under -fwide-types, DEFAULT members materialised/removed, noise in "
         "unused BIT STRING bits); DER, CANONICAL-XER, canonical UPER and OER of S and S' must be identical.",
    note="mutations are limited to those that provably keep the abstract value; half the modules are built with -fwide-types")
CHECKS["C07"] = dict(
    level="fault_enumeration", design="DESIGN.md §4 C07",
    technique="fault enumeration over generated structures: every output buffer size, every callback-failure index, structure-breaking walker, constraint-violating values; invariants on sizes, bytes, errno and the allocation ledger under ASan/UBSan",
    text="For generated valid, constraint-violating and deliberately broken structures each of the five encoders is run with "
         "every buffer size 0..n+1 (exact-size heap buffers), through asn_encode_to_new_buffer, and with the output callback "
         "failing at every call index; the reported size must equal the bytes delivered, be the same for every buffer size, "
         "failures must be -1 with errno (EIO for callback failure), nothing may leak, abort or hang.",
    note="buffer sizes exhaustive to 600 octets then every 97th; callback indices exhaustive to 400 calls then every 53rd; "
         "structures are a sample")
CHECKS["C14"] = dict(
    level="fault_enumeration", design="DESIGN.md §4 C14",
    technique="stateful property-based testing (Hypothesis-drawn API histories on one structure pointer) plus exhaustive k-th-allocation-failure injection through a wrapped allocator with a live-block ledger; ASan for double/invalid free, LSan at exit",
    text="Histories of decode-prefix/rest/garbage/valid, encode, check, print, RESET, FREE_CONTENTS_ONLY, re-decode-after-reset "
         "(compared with a fresh decode) and FREE are executed legally (the driver frees before an illegal continuation) and "
         "the allocation ledger must return to its start; every decoder and encoder is re-run with the k-th allocation failing "
         "for every k, releasing whatever was built.",
    note="allocation faults are injected via -Wl,--wrap on everything linked into the driver; PER is treated as not "
         "restartable (structure released after RC_WMORE)")

CHECKS["C04"] = dict(
    level="exploration", design="DESIGN.md §4 C04",
    technique="fuzzing: structure-aware mutation of reference encodings (Hypothesis-drawn mutation lists over DER/BER/OER/UPER/XER of generated values) plus coverage-guided libFuzzer campaigns on a generic in-process target; oracle: sanitizers, rc in the documented set, consumed <= size, ledger balance, and accepted => re-encodable and stable",
    text="G1: every reference encoding of a generated value is damaged by drawn mutations (bit flips, length edits, truncation, "
         "splices, tag edits, damaged end-of-contents octets, XML tag and lexical-form edits) and decoded under ASan/UBSan "
         "with the allocation ledger; G2: libFuzzer drives "
         "c/fuzz_decode.c (last two input octets select the type and the syntax) over modules drawn from the same generator, "
         "seeded with valid encodings.  Whatever the decoder accepts must re-encode, decode again to the same DER, and leave "
         "nothing allocated; rejection must be RC_FAIL/RC_WMORE with consumed within the buffer.",
    note="a time-bounded search; crash-/leak- artefacts are replayed three times before they count; "
         "libFuzzer campaigns are pinned only approximately by -seed, the saved input is the reproducible unit")
CHECKS["C08"] = dict(
    level="exploration", design="DESIGN.md §4 C08",
    technique="property-based differential testing of the generated constraint checkers against an independent reference predicate (vf/ref_sem.py) over Hypothesis-generated types with valid and deliberately violating values",
    text="Values are drawn inside and just outside every SIZE, value-range, FROM and nested member constraint (one violation "
         "at a time, at every depth), injected as DER and checked with asn_check_constraints(); the verdict must equal the "
         "reference predicate's and a failure must name a non-empty error text; decoders must still accept what they are "
         "documented to accept (constraints are not enforced on decode for BER/XER).",
    note="extensible constraints are left out of the violating set (anything is allowed there); the reference predicate is the trusted base")
CHECKS["C09"] = dict(
    level="exploration", design="DESIGN.md §4 C09",
    technique="property-based differential testing of constraint-expression evaluation: Hypothesis-generated constraint trees (union, intersection, EXCEPT, ALL EXCEPT, extension markers, serial constraints, MIN/MAX) evaluated by set algebra in Python and compared with the checker and the PER/OER encodings asn1c generates",
    text="For each generated constraint tree the reference computes the permitted set, the PER-visible root range and the OER "
         "width class; the generated checker must accept exactly the permitted values at every range boundary, UPER must use "
         "the root range (bit-exact against the reference encoder) and OER the right width.",
    note="integers restricted to the native 64-bit range; sets are represented by interval lists, so the comparison is exact at every boundary of the tree")
CHECKS["C13"] = dict(
    level="exploration", design="DESIGN.md §4 C13",
    technique="metamorphic property-based testing across code-generation options: the same generated module compiled under different option sets must give byte-identical encodings and identical decode results for the same values",
    text="Each generated module is built with the default options and with -fcompound-names, -findirect-choice, -fwide-types, "
         "-fno-constraints, -fincludes-quoted, -no-gen-PER/-no-gen-OER in drawn combinations; every value's DER/XER/UPER/OER "
         "bytes (for the codecs left enabled), the bytes after a transcoding chain DER->UPER->OER->XER->UPER, and what each "
         "build decodes from the baseline's bytes must not depend on the options.",
    note="codecs removed by an option are not compared; option sets are a drawn sample of the 2^7 combinations")
CHECKS["C16"] = dict(
    engine="vf-rapidcheck", level="exploration", design="DESIGN.md §4 C16",
    technique="property-based testing with rapidcheck: INTEGER/REAL/numeral conversion helpers against exact reference arithmetic (128-bit integers, long double / exact binary fractions)",
    text="asn_INTEGER2long/ulong/imax/umax, asn_*2INTEGER, asn_strto*_lim, asn_REAL2double/asn_double2REAL and the XER text "
         "forms are driven with boundary-biased values; results, errno and the returned status must equal the reference; "
         "conversions that the header documents as range errors must report them.",
    note="rapidcheck seeds from VERIF_SEED via RC_PARAMS; shrunk counterexamples are written as replay files and re-run without the library")
CHECKS["C17"] = dict(
    engine="vf-rapidcheck", level="exploration", design="DESIGN.md §4 C17",
    technique="property-based testing with rapidcheck: OBJECT IDENTIFIER / RELATIVE-OID arc API round trips and text parsing against a reference base-128 codec",
    text="OBJECT_IDENTIFIER_set_arcs/get_arcs, get_single_arc, parse_arcs and print are driven with arcs at the 7-bit group "
         "boundaries and the 32/64-bit limits; the content octets must equal the reference, the round trip must be the "
         "identity, and out-of-range arcs must fail with ERANGE rather than truncate.",
    note="same harness conventions as C16")
CHECKS["C20"] = dict(
    level="exploration", design="DESIGN.md §4 C20",
    technique="property-based testing (Hypothesis-built TLV trees and reference-encoder BER variants) with a byte-exact unber -p | enber round trip and a field-by-field comparison with a reference TLV parser, plus mutation, random-byte and libFuzzer (unber_stream) safety search under ASan/UBSan",
    text="Well-formed documents (any class, tag numbers to 2^30-1, definite/indefinite/padded lengths, nesting to depth 40, "
         "all content octets) must survive unber -p | enber unchanged and every O/T/TL/V/L field printed must agree with the "
         "reference parse; damaged, truncated and random inputs and a libFuzzer campaign must end in exit 0 or 65 without a "
         "sanitizer report, signal or hang.",
    note="unber bounds nesting at 2048 levels (diagnosed), so the round-trip domain is nesting <= 2048; enber on damaged text is exercised but gives notes only")

CHECKS["C10"] = dict(
    level="exploration", design="DESIGN.md §4 C10",
    technique="property-based testing over generated module texts (Hypothesis: shared module generator + fragments + single injected semantic faults) x drawn option subsets; oracle: asn1c ends by exit, exit 0 => the emitted file set compiles as C99, links, headers parse as C++, descriptor self-check passes; exit != 0 => diagnostic; failing modules are reduced by dropping assignments and options",
    text="Every case runs the asn1c built from /repo, then compiles exactly the files named in the generated makefiles with "
         "clang -std=c99, links them all (the documented 'cc *.c' flow), links c/selfcheck.c against them to walk every "
         "descriptor reachable from asn_pdu_collection[] (sorted tag maps, run offsets, presence/oms tables, canonical "
         "order permutations, enumeration maps, PER range bits, OER widths, offsets inside the structure), and parses the "
         "headers as C++.  A signal, hang, silent rejection, compile or link error or inconsistent table is a violation.",
    note="a sample of an infinite space; classes listed in known_findings.txt are excluded by a text-level trigger and counted")
CHECKS["C11"] = dict(
    level="exploration", design="DESIGN.md §4 C11",
    technique="property-based differential testing of asn1c's accept/reject verdict against an independent implementation of the X.680 distinctness rules (vf/ref_tags.py) over constructively generated modules with single-fault injection at Hypothesis-drawn positions",
    text="Modules with manual and automatic tagging, reference chains and nested untagged CHOICEs are built unambiguous; then at "
         "most one fault (tag collision through eight carriers, duplicated identifier, duplicated enumeration name/value, "
         "dangling reference, one written tag that switches automatic tagging off, an added OPTIONAL) is injected.  asn1c "
         "must exit 0 iff the reference accepts; a rejection must be an exit with a diagnostic and an empty output directory.",
    note="situations the statement does not cover (collisions among extension additions only, runs across the extension marker) get the reference verdict 'outside' and are never judged")
CHECKS["C12"] = dict(
    level="exploration", design="DESIGN.md §4 C12",
    technique="metamorphic property-based testing: repeated runs under perturbed environment, permutations of the module file list, and the asn1c -E print/parse cycle (fixpoint and same-generated-code) over generated single/multi-file modules and the shipped corpus",
    text="R1 two runs (ASLR on, different MALLOC_PERTURB_, working directory and environment size) give identical files; R2 "
         "every order of up to three module files gives identical per-type .c/.h; R3 the -E output is accepted and printing it "
         "again gives the same text; R4 for generated non-parameterized modules the printed text compiles to the same files.",
    note="generated makefiles and pdu_collection.c (which follow the command line) are not compared in R2; header comment lines naming the command line or source file are normalised")
CHECKS["C15"] = dict(
    level="fault_enumeration", design="DESIGN.md §4 C15",
    technique="adversarial-input generation (nesting bombs, length/count bombs, fragmented PER lengths, mutated valid encodings) per syntax over Hypothesis-parameterised recursive modules; oracle: decode in a forked child on guarded stacks ends in RC_OK/WMORE/FAIL (never a fault in the guard page), and peak live heap / largest request <= A + B*n computed from the descriptors; libFuzzer backstop with malloc limit in the thorough tier",
    text="Each module holds recursion through SEQUENCE, CHOICE, SET, SEQUENCE/SET OF, EXPLICIT tag chains and extension additions "
         "plus strings and collections; inputs nest to depth 10^5, claim up to 2^64-1 octets or 2^63 elements with <= 64 octets "
         "behind them; the decoder runs on the default context and on caller-supplied max_stack_size with 8 MiB, 1 MiB and "
         "256 KiB stacks; the heap bound is type-derived and loose (honest values reach 6% of it, bombs exceed it by orders).",
    note="a timed-out child is inconclusive (termination is C04); the bound definitions are in vf/c15.py and the evidence")

CHECKS["C18"] = dict(
    level="exploration", design="DESIGN.md §4 C18",
    technique="property-based testing over Hypothesis-generated CLASS/object-set/frame modules: reference frame encoders (DER/UPER/OER built on the independent reference codecs) for round trip and transcoding, identifier/content mismatch cases judged differentially against the row type decoded alone, C04-style mutation, libFuzzer stage in the thorough tier; ASan/UBSan and the allocation ledger",
    text="Modules draw the identifier kind (INTEGER, constrained INTEGER, OBJECT IDENTIFIER), 1..12 named row types, WITH SYNTAX "
         "shapes, extensible and non-extensible sets, @id/@.id relations, OPTIONAL open type, nesting in SEQUENCE / SEQUENCE OF "
         "and parameterization.  For (row i, value) the reference DER/UPER/OER must decode to the paired type and re-encode "
         "byte-identically; an identifier without a row, a wrong closing XER wrapper, or content that the row type alone "
         "rejects must fail cleanly with the ledger balanced.",
    note="rows asn1c refuses on its own (no WITH SYNTAX, duplicate row types, built-in rows) are counted as generator restrictions; OER is decode-only because OPEN_TYPE_oer.c has no encoder")
CHECKS["C19"] = dict(
    level="exploration", design="DESIGN.md §4 C19",
    technique="randomised concurrent execution of Hypothesis-drawn per-thread scripts (decode/encode in five syntaxes, check, print, compare, copy, free) over generated modules built with ThreadSanitizer; oracle 1: every call's result equals the result of the same script run alone; oracle 2: no TSan report in library or generated code",
    text="N in {2,4,8,16} threads run deterministic scripts concurrently first (fresh process every six script sets so that "
         "one-time initialisation races are seen), then alone; return codes, consumed/encoded counts, errno and output hashes "
         "must agree; ThreadSanitizer halts on the first report.  Option sets default, -fwide-types, -findirect-choice rotate.",
    note="the harness does not own the scheduler: a race that needs one interleaving and is invisible to TSan (inside uninstrumented libc, behind a libc lock) can be missed; asn_random_fill is excluded from oracle 1 (libc random() is global state by nature)")

NOT_YET = {
}

NOT_APPLICABLE = []


def main():
    checks = []
    for pid in sorted(CHECKS):
        c = CHECKS[pid]
        checks.append({
            "property_id": pid,
            "quick_cmd": "./check %s --tier quick" % pid,
            "thorough_cmd": "./check %s --tier thorough" % pid,
            "evidence_file": "/verif/evidence/%s.json" % pid,
            "replay_cmd_template": "./check %s --replay {path}" % pid,
            "engine": c.get("engine", "vf-hypothesis"),
            "level_claimed": {"category": c["level"], "text": c["text"], "design_ref": c["design"]},
            "level_note": c["note"],
            "technique": c["technique"],
        })
    na = list(NOT_APPLICABLE)
    for pid, why in sorted(NOT_YET.items()):
        na.append({"property_id": pid, "reason": why})
    props = [json.loads(l)["id"] for l in open(os.path.join(HERE, "properties.jsonl"))]
    for pid in props:
        if pid not in CHECKS and not any(x["property_id"] == pid for x in na):
            na.append({"property_id": pid, "reason": "check not built yet in this session (work in progress; the design in DESIGN.md §4 applies)"})
    m = {
        "version": 1,
        "setup_cmd": "./setup.sh",
        "hooks": {
            "guard": "ASN1C_VERIF_HOOKS",
            "enable": "no source hooks exist; checks build /repo's sources themselves (vf/build.py) with -DASN1C_VERIF_HOOKS, "
                      "sanitizers and -Wl,--wrap=malloc... for allocation faults",
            "baseline_off_cmd": "cd /repo && make -j8 && make -k -j8 check",
            "source_commits": [],
            "add_only": True,
        },
        "engines": [
            {"name": "vf-hypothesis", "path": "/verif/vf",
             "serves_properties": sorted(p for p in CHECKS if CHECKS[p].get("engine", "vf-hypothesis") == "vf-hypothesis"),
             "kind_free_text": "Python/Hypothesis generators + independent reference codecs driving C drivers linked with the code asn1c generates"},
            {"name": "vf-rapidcheck", "path": "/verif/c",
             "serves_properties": sorted(p for p in CHECKS if CHECKS[p].get("engine") == "vf-rapidcheck"),
             "kind_free_text": "rapidcheck properties (c/c16.cpp, c/c17.cpp) linked with the skeleton library, driven by vf/c16.py, vf/c17.py"},
        ],
        "checks": checks,
        "not_applicable": na,
        "notes": "All checks rebuild the compiler and the skeleton library from /repo's working tree into /verif/build/<source hash>/. "
                 "known_findings.txt lists repaired (fixed:) and recorded (known:) defects.",
    }
    with open(os.path.join(HERE, "MANIFEST.json"), "w") as f:
        json.dump(m, f, indent=1)
        f.write("\n")


if __name__ == "__main__":
    main()
