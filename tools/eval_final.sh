#!/bin/bash
# final pass: every seeded change applied to /repo itself (git apply), the catching checks run, /repo restored
cd /verif
declare -A extra=( [C01-1]="C02" [C01-2]="C03" [C09-2]="C02" )
for d in seeded/C*-*; do
  n=$(basename $d); id=${n%%-*}
  python3 tools/seeded.py evaluate $n $id ${extra[$n]} >> build/seedlogs/eval_final.log 2>&1
  git -C /repo status --porcelain --untracked-files=no | grep -q . && { echo "REPO DIRTY after $n" >> build/seedlogs/eval_final.log; git -C /repo checkout -- .; }
done
echo "final pass done" >> build/seedlogs/eval_final.log
