"""C03 — decoders accept every valid encoding of a value, not only the library's own."""
import sys

from hypothesis import strategies as st

from . import gen, drv, ref_ber, ref_per, ref_oer, ref_xer, pipeline, valcheck, runner
from .common import h, KNOWN
from .model import val_to_json, val_from_json, val_repr

PID = "C03"
RULE = ("per value a family of alternative valid encodings is produced by the reference encoders driven by a "
        "Hypothesis-drawn decision list: BER (indefinite/long/padded lengths, constructed and nested strings, permuted "
        "SET/SET OF, DEFAULT present, unknown extension additions, BOOLEAN any non-zero, REAL base/scale forms), "
        "BASIC-PER (DEFAULT present, SET OF order), BASIC-OER (non-minimal length determinants, BOOLEAN non-FF, DEFAULT "
        "present), XER (white space/comments between elements, empty-element forms); the decoder must return RC_OK, "
        "consume everything and give the reference DER; non-trivial = at least one non-canonical decision was taken; "
        "distinct by (type, value, syntax, decisions)")
SYN = ["ber", "ber", "ber", "uper", "oer", "xer"]
XER_ENABLED = {"xer-ws", "xer-ws-empty", "xer-selfclose", "xer-unknown-ext", "xer-unknown-ext-form"}

KNOWN_CLASSES = {
    # der_encoder.c: ASN1_DER_MAX_TAGS_COUNT 4 ("System limit on tags count")
    "tagchain.four-or-more.der": lambda f, s, used: "tagchain>=4" in f,
    # by-design guard against compression bombs: > 200 zero-width elements are refused by the PER/OER decoders
    "zero-width-elements.over-200.per-oer": lambda f, s, used: s in ("uper", "oer") and "zero-width>200" in f,
    "set.no-oer-uper": lambda f, s, used: s in ("oer", "uper") and "SET" in f,
    "bitstring.trailing-zero-bits.uper": lambda f, s, used: s == "uper" and "bits.trailing0" in f,
    "int.ub-above-int64.uper": lambda f, s, used: s == "uper" and "int.ub>int64" in f,
    "from.sparse-above-255.uper": lambda f, s, used: s == "uper" and "from.sparse>255" in f,
    "time.named-type.uper": lambda f, s, used: s == "uper" and "time.named" in f,
    "size.ext-root-above-64K.uper": lambda f, s, used: s == "uper" and "size.ext.ub>=64K" in f,
    "kmstring.size-extension.alphabet-dropped.uper": lambda f, s, used: s == "uper" and "kmstr.size-ext-outside" in f,
    "int.beyond-long.xer": lambda f, s, used: s == "xer" and "int.beyond-long" in f,
    "real.basic-xer-precision": lambda f, s, used: False,
    "enum.addition-below-root.uper": lambda f, s, used: s == "uper" and "enum.addition-below-root" in f,
    "int.ext-root-nonnegative.negative-value": lambda f, s, used: "int.negative-vs-unsigned-ext-root" in f,
}


def known_skip(feats, syn, used):
    for cls, pred in KNOWN_CLASSES.items():
        if KNOWN.is_known(PID, cls) and pred(feats, syn, used):
            return cls
    return None


def strategy(mod, t, cfg, feats):
    return st.tuples(gen.values(mod, t, cfg), st.sampled_from(SYN),
                     st.lists(st.integers(0, 1 << 16), min_size=0, max_size=60))


def boundary_cases(mod, t):
    """catalogue types: every boundary value in the canonical form of every syntax, and with one non-canonical draw"""
    out = []
    forced = {"ber": ["indef-chain", "unknown-ext", "default-present", "longlen", "set-permute"],
              "uper": ["per-unknown-ext", "default-present"],
              "oer": ["oer-unknown-ext", "default-present"],
              "xer": ["xer-unknown-ext", "xer-unknown-ext=1,xer-unknown-ext-form=1", "xer-unknown-ext=1,xer-unknown-ext-form=2",
                      "xer-selfclose"]}
    for v in gen.boundary_values(mod, t):
        for syn in sorted(set(SYN)):
            out.append((v, syn, []))
            for f in forced[syn]:
                out.append((v, syn, ["force:" + (x if "=" in x else x + "=1") for x in f.split(",")]))
        out.append((v, "ber", [1, 0, 1, 1, 0, 2, 1]))
    return out


def value_of(x):
    return x[0]


def with_value(x, v2, mod, tname):
    return (v2, x[1], x[2]) + tuple(x[3:])


def make_replay(mod, tname, t, x):
    r = {"module": mod.subset([tname]).to_json(), "type": tname,
         "x": {"value": val_to_json(x[0]), "syntax": x[1], "decisions": list(x[2])}}
    if len(x) > 3:
        r["x"]["raw"] = x[3].hex()
    return r


def case_from_replay(mod, case):
    x = case["x"]
    if "raw" in x:      # a fixed encoding (probe of a known finding): no generator involved
        return (val_from_json(x["value"]), x["syntax"], list(x["decisions"]), bytes.fromhex(x["raw"]))
    return (val_from_json(x["value"]), x["syntax"], list(x["decisions"]))


class ListChooser(ref_ber.Chooser):
    def __init__(self, decisions, enabled=None):
        # integers are consumed one per drawn decision; "force:<label>=<n>" entries pin one kind of decision
        # (used by the systematic catalogue cases)
        self.it = iter([d for d in decisions if not isinstance(d, str)])
        ref_ber.Chooser.__init__(self, self._draw, enabled)
        for d in decisions:
            if isinstance(d, str) and d.startswith("force:"):
                label, _, val = d[6:].partition("=")
                self.force[label] = int(val or 1)

    def _draw(self, n):
        try:
            return next(self.it) % n
        except StopIteration:
            return 0


def run_case(sess, mod, tname, t, x, feats, acc):
    v, syn, decisions = x[:3]
    raw = x[3] if len(x) > 3 else None
    vfeats = feats | pipeline.value_features(mod, t, v)
    refder = ref_ber.encode(mod, t, v)
    replay = make_replay(mod, tname, t, x)
    if len(refder) > 12000 and raw is None and not getattr(acc, "probe", False):
        # the reference encoders work bit by bit in Python: tens of kilobytes cost seconds per case and add nothing
        # that smaller values of the same type do not show (sizes at the 16K/64K fragmentation points are C02's catalogue)
        acc.excluded["value too large for the variant generators (> 12000 octets of DER)"] += 1
        return None
    ch = ListChooser(decisions, XER_ENABLED if syn == "xer" else None)
    if KNOWN.is_known(PID, "ber.tagchain.mixed-definite-indefinite") and not getattr(acc, "probe", False):
        ch.no_mixed_chain = True
    k = known_skip(vfeats, syn, ch.used) if raw is None and not getattr(acc, "probe", False) else None
    if k:
        acc.excluded["known:" + k] += 1
        return None
    try:
        if raw is not None:
            enc = raw
            ch.used["fixed-encoding"] = 1
        elif syn == "ber":
            enc = ref_ber.encode(mod, t, v, ch)
        elif syn == "uper":
            enc = ref_per.encode(mod, t, v, ch)
        elif syn == "oer":
            enc = ref_oer.encode(mod, t, v, ch)
        else:
            r = sess.cmd("enc %s %s cxer" % (tname, drv.hexs(refder)))
            if "inject" in r or r.get("cxer") in (None, "fail", "nocodec"):
                acc.excluded["no-cxer-from-library"] += 1
                return None
            enc = ref_xer.variant(mod, t, drv.unhex(r["cxer"]), ch)
    except ref_per.RefExcluded as e:
        acc.excluded["ref-excluded:%s:%s" % (syn, str(e)[:40])] += 1
        return None
    if ch.suppressed:
        acc.excluded["known:ber.tagchain.mixed-definite-indefinite(decisions forced definite)"] += ch.suppressed
    reply = sess.cmd("dec %s %s %s" % (tname, syn if syn != "oer" else "boer", drv.hexs(enc)))
    classes = ["syn." + syn] + ["var." + u for u in ch.used] + list(feats)
    if reply["_status"] == "nocodec":
        acc.excluded["nocodec." + syn] += 1
        return None
    nt = h(t.render(), val_to_json(v), syn, sorted(ch.used.items()), enc) if ch.used else None
    probs = []
    rc, consumed = int(reply["rc"]), int(reply["consumed"])
    used = ",".join("%s x%d" % kv for kv in sorted(ch.used.items())) or "none (canonical)"
    shown = enc.hex() if syn != "xer" else repr(enc)
    if len(shown) > 600:
        shown = shown[:600] + "..."
    if rc != 0:
        probs.append(("rejected.%s" % syn, "%s decoder returned rc=%d consumed=%d/%d for a valid encoding (non-canonical "
                      "choices: %s)\n  encoding: %s\n  DER of the value: %s" % (syn, rc, consumed, len(enc), used, shown, refder.hex()[:300])))
    else:
        if consumed != len(enc):
            probs.append(("consumed.%s" % syn, "%s decoder consumed %d of %d octets (choices: %s)\n  encoding: %s" % (
                syn, consumed, len(enc), used, shown)))
        der = reply.get("der")
        if der == "fail" or drv.unhex(der) != refder:
            probs.append(("value.%s" % syn, "%s decoder accepted the encoding but yields another value (choices: %s)\n"
                          "  encoding: %s\n  DER of the result: %s\n  DER of the value : %s" % (
                              syn, used, shown, der, refder.hex()[:300])))
    return probs, classes, nt, replay


def main(argv):
    return runner.run_module_check(
        PID, "exploration", RULE, valcheck.worker, lambda case: valcheck.replay_case(sys.modules[__name__], case), argv,
        n_modules=(40, 400), n_values=(50, 150), extra_worker_args=("vf.c03",),
        extra_modules=[m for m in gen.catalogue() if m.name in ("CatBig", "CatChoice", "CatChoiceI")],
        assumptions=["the variant generators only take decisions the standards allow (X.690 8.x, X.691 19.5/22, X.696 "
                     "BASIC-OER, X.693 white space between elements); XER element naming is taken from the library's "
                     "own CANONICAL-XER output and only the layout is varied"])


if __name__ == "__main__":
    sys.exit(main(sys.argv[1:]))
