"""Reference predicates written from X.680: does a value satisfy the constraints in the ASN.1 source?"""
from .model import (KM_STRINGS, STR_KINDS, OPAQUE_KINDS, TIME_KINDS, NUMERIC_ALPHA, PRINTABLE_ALPHA)


def in_cons(cons, x):
    if cons is None:
        return True
    if cons.contains_root(x):
        return True
    return False


def builtin_ok(kind, s):
    if kind == "NumericString":
        return all(c in NUMERIC_ALPHA for c in s)
    if kind == "PrintableString":
        return all(c in PRINTABLE_ALPHA for c in s)
    if kind == "IA5String":
        return all(ord(c) < 128 for c in s)
    if kind in ("VisibleString", "ISO646String"):
        return all(32 <= ord(c) <= 126 for c in s)
    if kind == "BMPString":
        return all(ord(c) < 0xfffe for c in s)
    return True


def violations(mod, t, v, path="", out=None, named=True):
    """List of (path, what) constraint violations of v with respect to t (non-extensible constraints).
    named: t is the body of a module-level type (or a reference to one) rather than an inline type."""
    out = out if out is not None else []
    rt = mod.resolve(t)
    named = named or t.kind == "REF"
    k = rt.kind
    if k == "INTEGER":
        if rt.cons is not None and not rt.cons.ext and not rt.cons.contains_root(v):
            out.append((path, "value %d outside %s" % (v, rt.cons.render())))
    elif k in ("BITSTRING", "OCTETSTRING") or k in STR_KINDS:
        n = v[1] if k == "BITSTRING" else len(v)
        if rt.size is not None and not rt.size.ext and not rt.size.contains_root(n):
            out.append((path, "size %d outside %s" % (n, rt.size.render())))
        if k in STR_KINDS:
            if not builtin_ok(k, v):
                out.append((path, "character outside the %s alphabet" % k))
            elif rt.alpha is not None and not rt.alpha.ext and not all(rt.alpha.contains_root(ord(c)) for c in v):
                out.append((path, "character outside %s" % rt.alpha.render()))
    elif k in ("SEQUENCE", "SET"):
        for m in rt.members:
            if m.name in v:
                violations(mod, m.type, v[m.name], path + "/" + m.name, out, False)
    elif k == "CHOICE":
        for m in rt.members:
            if m.name == v[0]:
                violations(mod, m.type, v[1], path + "/" + m.name, out, False)
    elif k in ("SEQOF", "SETOF"):
        if rt.size is not None and not rt.size.ext and not rt.size.contains_root(len(v)):
            out.append((path, "count %d outside %s%s" % (len(v), rt.size.render(),
                                                         " [SIZE of a named collection type]" if named else "")))
        for i, x in enumerate(v):
            violations(mod, rt.elem, x, "%s[%d]" % (path, i), out, False)
    return out


def satisfies(mod, t, v):
    return not violations(mod, t, v)
