"""C16 — INTEGER and REAL helpers are exact and canonical.

The work is done by c/c16.cpp (rapidcheck + a deterministic boundary-exhaustive sweep, ASan/UBSan build, linked against
the skeleton library built from the current working tree).  This module builds it, fans the sweep and the rapidcheck
runs out over processes, merges the counters and turns failures into violations / replay files."""
import json
import os
import shutil
import subprocess
import sys
import tempfile
import time
from concurrent.futures import ThreadPoolExecutor

from . import build, runner
from .common import Check, KNOWN

PID = "C16"
RULE = ("six sub-properties, each with a deterministic boundary-exhaustive sweep and a rapidcheck property (c/c16.cpp): "
        "i2l = asn_{long,ulong,imax,umax}2INTEGER of 0, +-1, +-2^k, +-2^k+-1/2 (every k), type min/max, every value in "
        "-70000..70000 and random 64-bit patterns: stored octets equal the minimal two's-complement form computed in __int128, "
        "asn_INTEGER2{long,ulong,imax,umax} return the value on the own type and 0 / -1+ERANGE on the other three exactly as "
        "the value fits; oct = every INTEGER octet string of 0..2 octets, every boundary value of an 80-bit span in every "
        "length from its minimal form to 10 octets, leading-octet patterns and random strings of 0..10 octets: the four "
        "asn_INTEGER2* succeed with the mathematical value iff it fits the target; dbl = exponent field 0..2047 x mantissa "
        "{0, 1, all-ones, a single bit / a single hole / a run of trailing zeros at each of the 52 positions, random} x both "
        "signs, small integers, decimal fractions, powers of ten and random bit patterns: asn_double2REAL octets equal the "
        "X.690 8.5/11.3 form computed by bit manipulation (special values 40/41/42/43, +0 empty, base 2, odd mantissa, fewest "
        "exponent and mantissa octets), asn_REAL2double of them and of the reference octets is bit-identical (NaN to NaN); "
        "str = asn_strto{l,ul,imax,umax}_lim on numerals around 0, 2^31, 2^32, LONG_MAX/10, LONG_MAX+-12, 2^63, 2^64, "
        "10^17..10^24 with sign, 0..21 leading zeros, trailing garbage and a shortened *end: code, value and *end equal a "
        "big-integer parse; nint/nreal = the same values through the NativeInteger (signed/unsigned) and NativeReal DER "
        "encoder and BER decoder; non-trivial = |v| >= 128 / double other than +-0, +-1 / numeral >= 128 or not OK; distinct "
        "= occupancy of a hash bitmap merged over all processes (a lower bound)")
ASSUMPTIONS = [
    "LP64: long and intmax_t (unsigned long and uintmax_t) are both 64 bit wide, so the four widths share their bounds",
    "an empty INTEGER buffer (not an X.690 encoding) is only required not to crash and, when accepted, to read as 0",
    "NaN payloads and the NaN sign need not survive (statement: NaN to NaN)",
    "asn_strto*_lim: *end is checked for OK / EXTRA_DATA / EXPECT_MORE (header comment: position after the last parsed "
    "character) and for ERROR_RANGE (the first digit that leaves the range, pinned by tests/tests-skeletons/check-INTEGER.c); "
    "the output value is not inspected on error codes; '-0' given to an unsigned parser is not asserted either way",
    "distinct_nontrivial is the number of set bits of a 2^26 (quick) / 2^27 (thorough) entry hash bitmap: collisions only lower it",
]

# input classes the binary can leave out by construction (c16.cpp --exclude); used only for classes listed in
# known_findings.txt, and - after the class has been reported as a violation - to keep looking for other failures
CLASSES = {
    "int2u.negative-accepted": "asn_INTEGER2ulong/asn_INTEGER2umax return 0 for an INTEGER holding a negative number "
                               "(octets 80 give 128) instead of -1/ERANGE",
    "strtox.no-digits-accepted": "asn_strto*_lim return ASN_STRTOX_EXTRA_DATA with value 0 for a text without any digit "
                                 "(\"+-\", \"x\") although INTEGER.h documents ASN_STRTOX_ERROR_INVAL",
}
SUBS = ["i2l", "oct", "dbl", "str", "nint", "nreal"]
# rapidcheck cases per sub-property: (quick, thorough)
RANDOM_CASES = {"i2l": (1000000, 10000000), "oct": (1000000, 12000000), "dbl": (1500000, 20000000),
                "str": (750000, 9000000), "nint": (250000, 4000000), "nreal": (500000, 6000000)}
CHUNK = (250000, 1000000)

SAN_ENV = {
    # a short malloc context and a small quarantine make the rapidcheck loop five times faster; confirmations and
    # --replay run with the full context
    "ASAN_OPTIONS": "detect_leaks=1:quarantine_size_mb=16:malloc_context_size=4:detect_stack_use_after_return=0",
    "UBSAN_OPTIONS": "print_stacktrace=1:halt_on_error=1",
    "LSAN_OPTIONS": "exitcode=23",
}
REPLAY_ENV = dict(SAN_ENV, ASAN_OPTIONS="detect_leaks=1:malloc_context_size=16:detect_stack_use_after_return=0")


def binary():
    """c16 linked against the working tree's skeleton library; cached on the source hash and the skeleton hash."""
    lib = build.skel_lib("asan")
    obj = build.helper_obj("c16.cpp", "asan", cxx=True)
    exe = obj[:-2] + ".exe"
    if os.path.exists(exe):
        return exe
    with build.Lock("c16"):
        if os.path.exists(exe):
            return exe
        tmp = exe + ".tmp%d" % os.getpid()
        build._run([build.CLANGXX] + build.VARIANT_FLAGS["asan"] + [obj, lib, "-lrapidcheck", "-lm", "-o", tmp], what="link c16")
        os.rename(tmp, exe)
    return exe


def _run(exe, args, env_extra, timeout, san_env=SAN_ENV):
    env = dict(os.environ)
    env.update(san_env)
    env.pop("RC_PARAMS", None)
    env.update(env_extra)
    t0 = time.time()
    try:
        r = subprocess.run([exe] + args, stdout=subprocess.PIPE, stderr=subprocess.PIPE, env=env, timeout=timeout)
        rc, out, err = r.returncode, r.stdout.decode(errors="replace"), r.stderr.decode(errors="replace")
    except subprocess.TimeoutExpired as e:
        rc, out, err = -999, (e.stdout or b"").decode(errors="replace"), (e.stderr or b"").decode(errors="replace") + "\nTIMEOUT"
    js = None
    for line in out.splitlines():
        if line.startswith("C16JSON "):
            try:
                js = json.loads(line[8:])
            except ValueError:
                js = None
    return rc, out, err, js, time.time() - t0


def _report(err, limit=2600):
    """The informative part of a sanitizer / assert report: from the ERROR line on, without the shadow-memory dump."""
    i = max(err.find("ERROR: "), err.find("runtime error:"))
    i = err.rfind("\n", 0, i) + 1 if i >= 0 else max(0, len(err) - limit)
    txt = err[i:]
    j = txt.find("Shadow bytes around")
    if j >= 0:
        txt = txt[:j]
    if len(txt) > limit:
        k = txt.find("SUMMARY:")
        txt = txt[:limit - 300] + "\n...\n" + (txt[k:k + 280] if k >= 0 else txt[-280:])
    return txt.strip()


def run_job(exe, job, workdir, exclude, timeout):
    """job: dict(mode, sub, seed, cases, idx).  Returns dict(job, rc, json, err, wall, bitmap)."""
    tag = "%s-%s-%d" % (job["mode"], job["sub"], job["idx"])
    bitmap = os.path.join(workdir, tag + ".bits")
    failout = os.path.join(workdir, tag + ".fail")
    args = ["--mode", job["mode"], "--sub", job["sub"], "--seed", str(job["seed"]), "--cases", str(job["cases"]),
            "--bitmap-out", bitmap, "--bitmap-bits", str(job["bits"]), "--fail-out", failout]
    if exclude:
        args += ["--exclude", ",".join(sorted(exclude))]
    env = {}
    if job["mode"] == "random":
        env["RC_PARAMS"] = "seed=%d max_success=%d max_size=100" % (job["seed"], job["cases"])
    rc, out, err, js, wall = _run(exe, args, env, timeout)
    crash = None
    if js is None:
        for line in err.splitlines():
            if line.startswith("C16CRASH "):
                crash = line[9:].strip()
    return {"job": job, "rc": rc, "json": js, "err": err, "out": out, "wall": wall, "bitmap": bitmap, "crash": crash,
            "exclude": sorted(exclude)}


def replay_case(case):
    """(violated, text) for a replay dict: {'line': <case line>} or {'job': {...}, 'exclude': [...]}."""
    exe = binary()
    if "line" in case:
        rc, out, err, js, _ = _run(exe, ["--mode", "replay", "--case", case["line"]], {}, 300, REPLAY_ENV)
        if rc == 2 or rc == -999:
            raise RuntimeError("c16 replay could not run (%d): %s" % (rc, (out + err)[-1500:]))
        text = "\n".join(l for l in out.splitlines() if not l.startswith("C16JSON"))
        if rc not in (0, 1) or js is None:
            text += "\n[exit code %d]\n%s" % (rc, _report(err))
        return rc != 0, text.strip()
    job = dict(case["job"])
    work = tempfile.mkdtemp(prefix="c16r-", dir=_work_root())
    try:
        r = run_job(exe, job, work, set(case.get("exclude", ())), 3600)
    finally:
        shutil.rmtree(work, ignore_errors=True)
    if r["rc"] in (2, -999):
        raise RuntimeError("c16 job replay could not run (%d): %s" % (r["rc"], r["err"][-1500:]))
    return r["rc"] != 0, "job %r: exit code %d\n%s" % (job, r["rc"], _report(r["err"]))


def _work_root():
    d = os.path.join(build.BUILD_ROOT, "work")
    os.makedirs(d, exist_ok=True)
    return d


class _BitmapCount(set):
    """chk.acc.nontrivial when the number of distinct non-trivial cases (counted by the binaries' merged hash
    bitmaps) is too large to materialise as keys: len() reports that count."""

    def __init__(self, n):
        set.__init__(self)
        self.n = n

    def __len__(self):
        return self.n


def _absorb(chk, res, merged_bits, per_sub, fails):
    js = res["json"]
    job = res["job"]
    if js is not None:
        for sub, st in js["subs"].items():
            chk.acc.evaluations += st["cases"]
            ps = per_sub.setdefault(sub, {"sweep": 0, "random": 0, "nontrivial": 0, "excluded": 0, "cpu_s": 0.0})
            ps[job["mode"]] += st["cases"]
            ps["nontrivial"] += st["nontrivial"]
            ps["excluded"] += st["excluded"]
            ps["cpu_s"] = round(ps["cpu_s"] + res["wall"], 1)
            if st["excluded"]:
                for c in res["exclude"]:
                    if (c.startswith("int2u") and sub in ("i2l", "oct")) or (c.startswith("strtox") and sub == "str"):
                        chk.acc.excluded[("known:" if KNOWN.is_known(PID, c) else "reported-then-excluded:") + c] += st["excluded"]
        for k, v in js["classes"].items():
            chk.acc.classes[k] += v
        for s in js["samples"][-3:] if job["mode"] == "sweep" else js["samples"][-1:]:
            chk.acc.sample("[%s %s] %s" % (job["mode"], job["sub"], s), limit=24)
        for f in js["failures"]:
            fails.append((f, res))
    try:
        with open(res["bitmap"], "rb") as f:
            b = int.from_bytes(f.read(), "little")
        merged_bits[0] |= b
        os.unlink(res["bitmap"])
    except OSError:
        pass
    if js is None:
        if res["crash"]:
            fails.append(({"sub": job["sub"], "label": "crash", "case": res["crash"],
                           "detail": "the process died (exit code %d) while evaluating this case:\n%s" % (res["rc"], _report(res["err"]))}, res))
        else:
            chk.error("c16 %s/%s (seed %d) produced no result, exit code %d: %s" % (
                job["mode"], job["sub"], job["seed"], res["rc"], (res["out"] + res["err"])[-2000:]))
    elif res["rc"] not in (0, 1):
        # counters were printed, then the process failed: a leak report (LSan, exit code 23) or an abort at exit
        fails.append(({"sub": job["sub"], "label": "leak-or-exit-failure", "case": None,
                       "detail": "job %s/%s seed %d finished its cases and then exited with code %d:\n%s" % (
                           job["mode"], job["sub"], job["seed"], res["rc"], _report(res["err"]))}, res))


def _to_violations(chk, fails):
    """Group candidate failures; returns the set of exclusion classes they name."""
    classes = set()
    best = {}
    for f, res in fails:
        label = f["label"]
        if label in CLASSES:
            key = label
            classes.add(label)
        elif f["case"] is None:
            key = "%s:%s:%s:%d" % (f["sub"], label, res["job"]["mode"], res["job"]["seed"])
        else:
            key = "%s:%s" % (f["sub"], label)
        cur = best.get(key)
        rank = (len(f["case"] or ""), f["case"] or "")
        if cur is None or rank < cur[0]:
            best[key] = (rank, f, res)
    for key, (_, f, res) in sorted(best.items()):
        if f["case"] is None:
            replay = {"job": res["job"], "exclude": res["exclude"]}
        else:
            replay = {"line": f["case"]}
        head = "%s [%s] case: %s" % (f["label"], f["sub"], f["case"] or "(whole job)")
        if key in CLASSES:
            head = "class=%s (%s)\n%s" % (key, CLASSES[key], head)
        chk.acc.violation(key, "%s\n%s\nfound by %s/%s seed %d" % (head, f["detail"], res["job"]["mode"], res["job"]["sub"],
                                                                   res["job"]["seed"]), replay)
    return classes


def main(argv):
    a = runner.parse_args(argv)
    if a.replay:
        binary()
        return runner.do_replay(PID, replay_case, a.replay)
    chk = Check(PID, "exploration", RULE, ASSUMPTIONS)
    t0 = time.time()
    try:
        exe = binary()
    except build.BuildError as e:
        chk.error("build failed: %s" % e)
        return chk.finish()
    chk.extra_coverage["build_s"] = round(time.time() - t0, 1)
    chk.extra_coverage["repo"] = build.REPO
    t1 = time.time()
    runner.regression_and_probes(chk, replay_case)
    chk.extra_coverage["replays_and_probes_s"] = round(time.time() - t1, 1)

    known = set(c for c in CLASSES if KNOWN.is_known(PID, c))
    bits = chk.pick(26, 27)
    workers = a.workers or min(build.NCPU, 12)
    timeout = chk.pick(600, 3600)
    work = tempfile.mkdtemp(prefix="c16-", dir=_work_root())
    merged_bits = [0]
    per_sub = {}
    fails = []
    try:
        # 1. the deterministic sweep: it does not stop at a failure, every failure label is reported once
        t1 = time.time()
        jobs = [{"mode": "sweep", "sub": s, "seed": chk.seed, "cases": 0, "idx": i, "bits": bits} for i, s in enumerate(SUBS)]
        with ThreadPoolExecutor(max_workers=workers) as ex:
            for res in ex.map(lambda j: run_job(exe, j, work, known, timeout), jobs):
                _absorb(chk, res, merged_bits, per_sub, fails)
        chk.extra_coverage["sweep_s"] = round(time.time() - t1, 1)
        reported = _to_violations(chk, fails)
        # 2. rapidcheck: classes that were just reported are left out so that they cannot mask anything else
        t1 = time.time()
        exclude = known | reported
        chunk = chk.pick(*CHUNK)
        jobs = []
        for si, s in enumerate(SUBS):
            total = a.values or chk.pick(*RANDOM_CASES[s])
            n = max(1, (total + chunk - 1) // chunk)
            for k in range(n):
                jobs.append({"mode": "random", "sub": s, "idx": k, "bits": bits, "cases": (total + n - 1) // n,
                             "seed": (chk.seed * 1000003 + si * 7919 + k * 104729 + 17) & 0x7fffffffffffffff})
        jobs.sort(key=lambda j: j["idx"])   # interleave the sub-properties
        for rnd in range(3):
            fails2 = []
            with ThreadPoolExecutor(max_workers=workers) as ex:
                for res in ex.map(lambda j: run_job(exe, j, work, exclude, timeout), jobs):
                    _absorb(chk, res, merged_bits, per_sub, fails2)
            more = _to_violations(chk, fails2) - exclude
            if not more:
                break
            # a new excludable class stopped some rapidcheck runs early: report it, leave it out, run those again
            exclude |= more
            jobs = [res["job"] for f, res in fails2 if f["label"] in more]
            jobs = list({(j["sub"], j["idx"]): j for j in jobs}.values())
        chk.extra_coverage["random_s"] = round(time.time() - t1, 1)
    finally:
        shutil.rmtree(work, ignore_errors=True)

    distinct = bin(merged_bits[0]).count("1")
    if distinct <= 300000:
        chk.acc.nontrivial = set(range(distinct))
    else:
        chk.acc.nontrivial = _BitmapCount(distinct)
    chk.acc.extra["nontrivial_cases_not_deduplicated"] = sum(p["nontrivial"] for p in per_sub.values())
    chk.extra_coverage["per_sub_property"] = per_sub
    chk.extra_coverage["excluded_classes"] = {"known": sorted(known), "reported_then_excluded": sorted(exclude - known)}
    chk.extra_coverage["workers"] = workers
    t1 = time.time()
    runner.confirm(chk, replay_case)
    chk.extra_coverage["confirm_s"] = round(time.time() - t1, 1)
    return chk.finish(chk.pick(300000, 10000000), chk.pick(100000, 3000000))


if __name__ == "__main__":
    sys.exit(main(sys.argv[1:]))
