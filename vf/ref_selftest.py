"""Self checks of the reference codecs against vectors derived by hand from the standards' clauses."""
import sys

from .model import T, Member, Module, Cons
from . import ref_ber


def check(name, got, want):
    if got != want:
        print("ref_selftest FAILED: %s: got %s want %s" % (name, got.hex() if isinstance(got, bytes) else got,
                                                            want.hex() if isinstance(want, bytes) else want))
        return 1
    return 0


def main():
    bad = 0
    m = Module("M", "EXPLICIT", [])
    e = lambda t, v, mod=m: ref_ber.encode(mod, t, v)
    # X.690 8.2, 8.3, 8.8 examples
    bad += check("BOOLEAN TRUE", e(T("BOOLEAN"), True), bytes.fromhex("0101ff"))
    bad += check("INTEGER 128", e(T("INTEGER"), 128), bytes.fromhex("02020080"))
    bad += check("INTEGER -129", e(T("INTEGER"), -129), bytes.fromhex("0202ff7f"))
    bad += check("NULL", e(T("NULL"), None), bytes.fromhex("0500"))
    # X.690 8.6.4.2 example: BIT STRING '0A3B5F291CD'H
    bad += check("BIT STRING", e(T("BITSTRING"), (bytes.fromhex("0a3b5f291cd0"), 44)), bytes.fromhex("0307040a3b5f291cd0"))
    # X.690 8.19.5 example: OID {2 100 3}
    bad += check("OID", e(T("OID"), (2, 100, 3)), bytes.fromhex("0603813403"))
    # X.690 8.9.3-like example: SEQUENCE {name IA5String, ok BOOLEAN}
    seq = T("SEQUENCE", members=[Member("name", T("IA5String")), Member("ok", T("BOOLEAN"))])
    bad += check("SEQUENCE", e(seq, {"name": "Smith", "ok": True}), bytes.fromhex("300a1605536d6974680101ff"))
    # X.690 8.14 example: Type3 ::= [2] Type2, Type2 ::= [APPLICATION 3] IMPLICIT Type1, Type1 ::= VisibleString
    mm = Module("M", "EXPLICIT", [("Type1", T("VisibleString")),
                                  ("Type2", T("REF", ref="Type1", tag=("APPLICATION", 3, "IMPLICIT"))),
                                  ("Type3", T("REF", ref="Type2", tag=("CONTEXT", 2, None))),
                                  ("Type5", T("REF", ref="Type2", tag=("CONTEXT", 2, "IMPLICIT")))])
    bad += check("Type2", e(mm.lookup("Type2"), "Jones", mm), bytes.fromhex("43054a6f6e6573"))
    bad += check("Type3", e(mm.lookup("Type3"), "Jones", mm), bytes.fromhex("a20743054a6f6e6573"))
    bad += check("Type5", e(mm.lookup("Type5"), "Jones", mm), bytes.fromhex("82054a6f6e6573"))
    # REAL: 8.5 binary encoding, DER: 1.0 = 1 x 2^0; 0.5 = 1 x 2^-1; 10.0 = 5 x 2^1
    bad += check("REAL 1.0", e(T("REAL"), 1.0), bytes.fromhex("0903800001"))
    bad += check("REAL 0.5", e(T("REAL"), 0.5), bytes.fromhex("090380ff01"))
    bad += check("REAL -10", e(T("REAL"), -10.0), bytes.fromhex("0903c00105"))
    bad += check("REAL 0", e(T("REAL"), 0.0), bytes.fromhex("0900"))
    bad += check("REAL -0", e(T("REAL"), -0.0), bytes.fromhex("090143"))
    bad += check("REAL inf", e(T("REAL"), float("inf")), bytes.fromhex("090140"))
    # tag number 31 and 128 (8.1.2.4), length 128 and 256 (8.1.3.5)
    bad += check("tag31", e(T("NULL", tag=("CONTEXT", 31, "IMPLICIT")), None), bytes.fromhex("9f1f00"))
    bad += check("tag128", e(T("NULL", tag=("PRIVATE", 128, "IMPLICIT")), None), bytes.fromhex("df810000"))
    bad += check("len128", e(T("OCTETSTRING"), b"\x00" * 128)[:4], bytes.fromhex("04818000"))
    bad += check("len256", e(T("OCTETSTRING"), b"\x00" * 256)[:5], bytes.fromhex("0482010000"))
    # SET OF ordering (11.6) and DEFAULT omission (11.5)
    bad += check("SET OF order", e(T("SETOF", elem=T("INTEGER")), [300, 5, -1]), bytes.fromhex("310a020105 0201ff 0202012c".replace(" ", "")))
    sd = T("SEQUENCE", members=[Member("a", T("INTEGER"), has_default=True, default=5), Member("b", T("BOOLEAN"))])
    bad += check("DEFAULT omitted", e(sd, {"a": 5, "b": False}), bytes.fromhex("3003010100"))
    # AUTOMATIC tagging (X.680 25.7.3 / 29.x): context tags 0.., CHOICE member explicit
    am = Module("M", "AUTOMATIC", [])
    at = T("SEQUENCE", members=[Member("a", T("INTEGER")), Member("c", T("CHOICE", members=[Member("x", T("NULL"))]))])
    bad += check("AUTOMATIC", e(at, {"a": 1, "c": ("x", None)}, am), bytes.fromhex("3007800101a1028000"))
    for sub in SELFTESTS:
        bad += sub(check)
    if bad:
        print("ref_selftest: %d failures" % bad)
        return 1
    print("ref_selftest ok")
    return 0


SELFTESTS = []

if __name__ == "__main__":
    sys.exit(main())
