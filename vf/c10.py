"""C10 — every accepted specification yields C code that builds; the compiler never dies.

Cases are (module text, option set).  The text comes from the shared module generator, extended with
fragments for constructs the value-level model does not carry (parameterized types, value assignments,
COMPONENTS OF, information object classes, odd string types ...) and, for a share of the cases, ONE
injected semantic fault (the text stays syntactically valid).  The oracle is the statement itself:

  * asn1c ends by exit(), never by a signal (a failed assertion is SIGABRT) and never hangs;
  * exit 0  => every file named in the generated Makefile.am.libasncodec/converter-example.mk compiles as
               C99 and links (exactly the emitted file set: a file asn1c forgot to copy is an unresolved
               symbol), every generated header parses as C++, and c/selfcheck.c - linked in place of
               converter-example.c - finds every descriptor reachable from asn_pdu_collection[] consistent;
  * exit !=0 => a diagnostic was printed.
"""
import hashlib
import json
import os
import re
import shutil
import subprocess
import sys
import time

from hypothesis import strategies as st

from . import build, drv, gen, pipeline, runner
from .common import Check, Acc, KNOWN, NCPU, h, run_pool
from .pipeline import Fail

PID = "C10"
OPTIONS = ["-fcompound-names", "-fwide-types", "-findirect-choice", "-fno-constraints", "-no-gen-PER", "-no-gen-OER",
           "-fincludes-quoted"]
RULE = ("cases = (module text, subset of the 7 documented code-generation options); text = Hypothesis-generated module "
        "(vf/gen.py, all kinds, tags, constraints, extensions, defaults, recursion) + drawn fragments (parameterized types, "
        "value assignments, COMPONENTS OF, WITH COMPONENTS, classes/object sets, rarely used string and useful types, "
        "identifiers that are C keywords, two modules with IMPORTS) + for ~40% of the cases one injected semantic fault "
        "(dangling reference, duplicated identifier/type, SIZE on INTEGER, range on BOOLEAN, reversed bounds, DEFAULT of "
        "the wrong type, mandatory self-recursion, empty SET/SEQUENCE, bounds and tag numbers beyond 64 bits, duplicated "
        "enumeration value); non-trivial = at least 5 assignments and something beyond flat primitives (a constructed "
        "type, constraint, fragment or fault); distinct by hash(text, options)")
ASSUME = ["clang 14 -std=c99 -Werror=implicit-function-declaration stands for 'compiles as C99'; clang++ -std=c++11 "
          "-fsyntax-only over all emitted headers stands for 'C++-compatible headers'",
          "descriptor consistency = the invariants in c/selfcheck.c, each read off the runtime code that consumes the table"]

CACHE = os.path.join(build.BUILD_ROOT, "c10-cache")


# ------------------------------------------------------------------ fragments (valid ASN.1 appended to the module)
def _n(draw, *cands):
    return draw(st.sampled_from(list(cands)))


PRIMS = ["BOOLEAN", "INTEGER", "NULL", "REAL", "OCTET STRING", "BIT STRING", "IA5String", "UTF8String", "OBJECT IDENTIFIER",
         "RELATIVE-OID", "ENUMERATED { a, b }", "INTEGER (0..255)", "GeneralizedTime", "UTCTime", "NumericString",
         "PrintableString", "VisibleString", "BMPString", "UniversalString"]


def f_param_type(draw, i):
    p = _n(draw, *PRIMS)
    n = _n(draw, 1, 7, 255, 256, 65535, 65536, 4294967295)
    return ("FP%dBox{ElemT} ::= SEQUENCE { item ElemT, count INTEGER (0..%d) OPTIONAL }\n"
            "FP%dUse ::= FP%dBox{ %s }\n" % (i, n, i, i, p)), "param.type"


def f_param_value(draw, i):
    n = _n(draw, 1, 2, 127, 128, 255, 256, 65535, 65536)
    base = _n(draw, "IA5String", "OCTET STRING", "BIT STRING", "UTF8String", "SEQUENCE OF BOOLEAN")
    return ("FV%dStr{INTEGER:maxLen} ::= %s (SIZE(1..maxLen))\nFV%dUse ::= FV%dStr{ %d }\n" % (i, base, i, i, n)), "param.value"


def f_values(draw, i):
    n = _n(draw, 0, 1, 127, 128, 255, 32767, 65536, 2147483647, 4294967295, 9223372036854775807)
    return ("fv%dMax INTEGER ::= %d\nFVal%dRange ::= INTEGER (0..fv%dMax)\n"
            "fv%dFlag BOOLEAN ::= TRUE\nfv%dOid OBJECT IDENTIFIER ::= { 1 2 %d }\n"
            "FVal%dDef ::= SEQUENCE { a INTEGER DEFAULT fv%dMax, b BOOLEAN DEFAULT fv%dFlag }\n"
            % (i, n, i, i, i, i, min(n, 4294967295), i, i, i)), "values"


def f_named(draw, i):
    n = _n(draw, 2, 7, 8, 31, 32, 63, 64, 127)
    m = _n(draw, 5, 255, 65535, 2147483647)
    return ("FNInt%d ::= INTEGER { one(1), big(%d) } (0..%d)\n"
            "FNBits%d ::= BIT STRING { first(0), last(%d) }\n"
            "FNSeq%d ::= SEQUENCE { i FNInt%d DEFAULT one, b FNBits%d DEFAULT { first }, e ENUMERATED { x(-%d), y(0), ..., z(%d) } DEFAULT y }\n"
            % (i, m, m, i, n, i, i, i, n, m)), "named-numbers"


def f_nested_anon(draw, i):
    n = _n(draw, 1, 3, 255, 65535)
    return ("FDeep%d ::= SEQUENCE OF SET OF SEQUENCE { x SEQUENCE OF INTEGER (0..%d), y SET OF SET OF BOOLEAN OPTIONAL }\n"
            "FCons%d ::= SEQUENCE (SIZE(1..%d)) OF SEQUENCE (SIZE(0..3)) OF SET (SIZE(2)) OF NULL\n"
            "FChoIn%d ::= SEQUENCE OF CHOICE { a SEQUENCE OF CHOICE { p NULL, q INTEGER }, b SET { m BOOLEAN } }\n"
            % (i, n, i, n, i)), "nested-anonymous"


def f_neg_default(draw, i):
    n = _n(draw, 1, 128, 129, 32768, 2147483648, 9223372036854775807)
    m = draw(st.integers(1, n))
    return ("FNeg%d ::= SEQUENCE { a INTEGER (-%d..-1) DEFAULT -%d, b INTEGER (0..4294967295) DEFAULT 4294967295,\n"
            "    c SET OF INTEGER (0..4294967295), d SEQUENCE OF INTEGER (0..18446744073709551615) OPTIONAL,\n"
            "    e INTEGER (-%d..%d) DEFAULT 0, f REAL DEFAULT 0, g INTEGER (0..18446744073709551615) DEFAULT 1 }\n"
            % (i, n, m, n, n)), "negative-default.unsigned-members"


def f_components_of(draw, i):
    return ("FBase%d ::= SEQUENCE { a INTEGER, b BOOLEAN OPTIONAL, c IA5String DEFAULT \"x\" }\n"
            "FExt%d ::= SEQUENCE { COMPONENTS OF FBase%d, d NULL }\n"
            "FWc%d ::= FBase%d (WITH COMPONENTS { ..., a (0..5), b ABSENT })\n"
            "FWc2%d ::= SEQUENCE OF FBase%d (WITH COMPONENTS { a (1..2) })\n" % (i, i, i, i, i, i, i)), "components-of"


def f_class(draw, i):
    idt = _n(draw, "INTEGER", "OBJECT IDENTIFIER")
    rows = draw(st.integers(1, 4))
    ext = _n(draw, "", ", ...")
    prims = ["FCRowA%d" % i, "FCRowB%d" % i, "BOOLEAN", "IA5String"]
    out = ["FCRowA%d ::= SEQUENCE { a INTEGER }" % i, "FCRowB%d ::= CHOICE { p NULL, q BOOLEAN }" % i,
           "FC%d-CLASS ::= CLASS { &id %s UNIQUE, &Type } WITH SYNTAX { &Type IDENTIFIED BY &id }" % (i, idt)]
    names = []
    for r in range(rows):
        rt = prims[r] if r < 2 else draw(st.sampled_from(prims))
        idv = str(r + 1) if idt == "INTEGER" else "{ 1 3 %d }" % (r + 1)
        out.append("fc%dRow%d FC%d-CLASS ::= { %s IDENTIFIED BY %s }" % (i, r, i, rt, idv))
        names.append("fc%dRow%d" % (i, r))
    out.append("FC%dSet FC%d-CLASS ::= { %s%s }" % (i, i, " | ".join(names), ext))
    out.append("FC%dFrame ::= SEQUENCE { id FC%d-CLASS.&id({FC%dSet}), value FC%d-CLASS.&Type({FC%dSet}{@id}) }"
               % (i, i, i, i, i))
    cls = "class.builtin-row" if any(not n.startswith("FCRow") for n in out[3:3 + rows] for n in [n.split("{ ")[1]]) else "class"
    return "\n".join(out) + "\n", cls


def f_strings(draw, i):
    kinds = ["ISO646String", "T61String", "TeletexString", "VideotexString", "GraphicString", "GeneralString",
             "ObjectDescriptor", "UTCTime", "GeneralizedTime", "CHARACTER STRING", "EMBEDDED PDV", "EXTERNAL", "ANY",
             "NumericString", "PrintableString", "VisibleString", "BMPString", "UniversalString", "UTF8String", "IA5String"]
    ks = draw(st.lists(st.sampled_from(kinds), min_size=2, max_size=5))
    out = []
    for j, k in enumerate(ks):
        c = ""
        if k not in ("CHARACTER STRING", "EMBEDDED PDV", "EXTERNAL", "ANY", "UTCTime", "GeneralizedTime") and draw(st.booleans()):
            c = " (SIZE(%d..%d))" % (_n(draw, 0, 1), _n(draw, 1, 5, 300))
        out.append("FS%d-%d ::= %s%s" % (i, j, k, c))
    out.append("FS%dAll ::= SEQUENCE { %s }" % (i, ", ".join("m%d FS%d-%d OPTIONAL" % (j, i, j) for j in range(len(ks)))))
    return "\n".join(out) + "\n", "rare-types." + ".".join(sorted(set(k.split()[0] for k in ks)))[:60]


def f_keywords(draw, i):
    kws = draw(st.lists(st.sampled_from(["int", "long", "class", "register", "struct", "union", "default", "void", "char",
                                         "new", "delete", "template", "this", "bool", "true", "errno", "main", "free",
                                         "asn-DEF", "td", "st", "choice", "present", "list", "array", "count", "size"]),
                        min_size=2, max_size=5, unique=True))
    kind = _n(draw, "SEQUENCE", "SET", "CHOICE")
    return ("FKw%d ::= %s { %s }\n" % (i, kind, ", ".join("%s %s" % (k, _n(draw, "INTEGER", "BOOLEAN", "NULL", "SEQUENCE OF INTEGER",
                                                                          "ENUMERATED { int, long }"))
                                                          for k in kws))), "c-keyword-identifiers"


def f_selection(draw, i):
    return ("FSelCh%d ::= CHOICE { a INTEGER, b BOOLEAN, c SEQUENCE { x NULL } }\n"
            "FSelUse%d ::= SEQUENCE { p a < FSelCh%d, q c < FSelCh%d OPTIONAL }\n" % (i, i, i, i)), "selection-type"


def f_alias_recursion(draw, i):
    tag1 = _n(draw, "", "[APPLICATION %d] EXPLICIT " % (i + 1), "[%d] " % (i + 3))
    tag2 = _n(draw, "", "[APPLICATION %d] EXPLICIT " % (i + 11), "[%d] IMPLICIT " % (i + 5))
    hops = draw(st.integers(1, 2))
    kind = _n(draw, "SEQUENCE { next FAr%d OPTIONAL }", "CHOICE { leaf NULL, node FAr%d }", "SEQUENCE { kids SEQUENCE OF FAr%d }")
    if hops == 1:
        return ("FAr%d ::= %sFAr%dx\nFAr%dx ::= %s\n" % (i, tag1, i, i, kind % i)), "recursion-through-alias.1"
    return ("FAr%d ::= %sFAr%dx\nFAr%dx ::= %sFAr%dy\nFAr%dy ::= %s\n" % (i, tag1, i, i, tag2, i, i, kind % i)), \
        "recursion-through-alias.2"


def f_alphabet_edge(draw, i):
    """permitted alphabets whose largest character sits at the edge of the generated lookup tables"""
    top = _n(draw, 127, 128, 254, 255, 256, 257, 65534, 65535)
    kind = _n(draw, "BMPString", "UniversalString", "BMPString") if top > 255 else _n(draw, "IA5String", "VisibleString", "BMPString",
                                                                                      "UniversalString", "PrintableString")
    if kind in ("IA5String", "VisibleString", "PrintableString") and top > 126:
        top = 122
    def ch(c):
        return '"%s"' % chr(c) if 32 < c < 127 and chr(c) not in "\"'" else "{0, 0, %d, %d}" % (c >> 8, c & 255)
    parts = _n(draw, ['"A".."Z"', '"a".."z"'], ['"0".."9"'], ['"A".."F"', '"0".."9"', '"x"'])
    alpha = " | ".join(parts + [ch(top)]) if draw(st.booleans()) else " | ".join(parts + ["%s..%s" % (ch(max(top - 5, 123)), ch(top))]
                                                                                  if top > 130 else parts + [ch(top)])
    size = _n(draw, "", " (SIZE(1..8))", " (SIZE(4))")
    return ("FAl%d ::= %s (FROM (%s))%s\nFAlS%d ::= SEQUENCE { a FAl%d, b %s (FROM (%s)) OPTIONAL }\n"
            % (i, kind, alpha, size, i, i, kind, alpha)), "alphabet-edge.%d" % top


FRAGMENTS = [f_alphabet_edge, f_alias_recursion, f_param_type, f_param_value, f_values, f_named, f_nested_anon, f_neg_default, f_components_of, f_class,
             f_strings, f_keywords, f_selection]


# ------------------------------------------------------------------ faults (syntactically valid, semantically wrong)
def _nth(draw, items):
    return items[draw(st.integers(0, len(items) - 1))]


def fault_dangling(draw, text):
    refs = [m for m in re.finditer(r"(?<![\w-])T\d+(?![\w-])(?!\s*::=)", text)]
    if not refs:
        return None
    m = _nth(draw, refs)
    return text[:m.start()] + "NoSuchType9" + text[m.end():]


def fault_dup_member(draw, text):
    lines = text.split("\n")
    idx = [i for i, l in enumerate(lines) if re.match(r"^    [a-z][\w-]* \S", l) and l.rstrip().endswith(",")]
    if not idx:
        return None
    i = _nth(draw, idx)
    lines.insert(i + 1, lines[i])
    return "\n".join(lines)


def fault_dup_type(draw, text):
    ms = list(re.finditer(r"^(T\d+) ::= ", text, re.M))
    if not ms:
        return None
    m = _nth(draw, ms)
    return text.replace("\nEND", "\n%s ::= %s\n\nEND" % (m.group(1), _n(draw, "INTEGER", "BOOLEAN", "SEQUENCE { a NULL }")), 1)


def _replace_nth(draw, text, pattern, repl):
    ms = list(re.finditer(pattern, text))
    if not ms:
        return None
    m = _nth(draw, ms)
    return text[:m.start()] + (repl(m) if callable(repl) else repl) + text[m.end():]


def fault_size_on_int(draw, text):
    return _replace_nth(draw, text, r"(?<![\w-])INTEGER(?![\w-])(?!\s*[({])", "INTEGER (SIZE(1..2))")


def fault_range_on_bool(draw, text):
    return _replace_nth(draw, text, r"(?<![\w-])BOOLEAN(?![\w-])(?!\s*\()", "BOOLEAN (0..1)")


def fault_reversed_bounds(draw, text):
    def rev(m):
        return "(%s..%s)" % (m.group(2), m.group(1))
    ms = [m for m in re.finditer(r"\((-?\d+)\.\.(-?\d+)\)", text) if int(m.group(1)) < int(m.group(2))]
    if not ms:
        return None
    m = _nth(draw, ms)
    return text[:m.start()] + rev(m) + text[m.end():]


def fault_bad_default(draw, text):
    return _replace_nth(draw, text, r"DEFAULT -?\d+", _n(draw, 'DEFAULT "text"', "DEFAULT TRUE", "DEFAULT { 1 2 }", "DEFAULT noSuchValue"))


def fault_mandatory_recursion(draw, text):
    return text.replace("\nEND", "\nFRec ::= SEQUENCE { a INTEGER, next FRec }\nFRec2 ::= CHOICE { x FRec2 }\n\nEND", 1)


def fault_empty(draw, text):
    body = _n(draw, "FEmpty ::= SET { }", "FEmpty ::= SEQUENCE { }", "FEmpty ::= SEQUENCE { a SET { } OPTIONAL, b SEQUENCE { } }",
              "FEmpty ::= SET OF SET { }", "FEmpty ::= CHOICE { a SET { }, b SEQUENCE { } }", "FEmpty ::= SET { ... }",
              "FEmpty ::= ENUMERATED { a }", "FEmpty ::= SEQUENCE { a SET { ... } }")
    return text.replace("\nEND", "\n%s\n\nEND" % body, 1)


def fault_huge(draw, text):
    big = _n(draw, "18446744073709551616", "340282366920938463463374607431768211456",
             "99999999999999999999999999999999999999999999", "-170141183460469231731687303715884105729")
    kind = _n(draw, "bound", "tag", "enum", "default", "size", "namednum")
    body = {"bound": "FHuge ::= INTEGER (0..%s)" % big.lstrip("-"),
            "tag": "FHuge ::= [%s] INTEGER" % big.lstrip("-"),
            "enum": "FHuge ::= ENUMERATED { a(%s), b(0) }" % big,
            "default": "FHuge ::= SEQUENCE { a INTEGER DEFAULT %s }" % big,
            "size": "FHuge ::= OCTET STRING (SIZE(0..%s))" % big.lstrip("-"),
            "namednum": "FHuge ::= INTEGER { n(%s) }" % big}[kind]
    return text.replace("\nEND", "\n%s\n\nEND" % body, 1)


def fault_dup_enum(draw, text):
    body = _n(draw, "FDupE ::= ENUMERATED { a(1), b(1) }", "FDupE ::= ENUMERATED { a, b, a }",
              "FDupE ::= ENUMERATED { red, green, ..., blue, blue }", "FDupE ::= ENUMERATED { red, ..., blue(5), sky(5) }",
              "FDupE ::= SEQUENCE { id INTEGER, ..., note UTF8String OPTIONAL, note BOOLEAN OPTIONAL }",
              "FDupE ::= CHOICE { id INTEGER, ..., note UTF8String, note BOOLEAN }",
              "FDupE ::= SET { id [0] INTEGER, ..., note [1] UTF8String OPTIONAL, note [2] BOOLEAN OPTIONAL }",
              "FDupE ::= SEQUENCE { id INTEGER, note NULL, ..., note BOOLEAN OPTIONAL }",
              "FDupE ::= ENUMERATED { a(0), b, c(1) }", "FDupE ::= INTEGER { a(1), a(2) }",
              "FDupE ::= BIT STRING { a(1), b(1) }", "FDupE ::= ENUMERATED { a, ..., b(0) }")
    return text.replace("\nEND", "\n%s\n\nEND" % body, 1)


def fault_misc(draw, text):
    body = _n(draw,
              "FMisc ::= SEQUENCE { a INTEGER (1..5) DEFAULT 9 }",
              "FMisc ::= IA5String (FROM (\"a\"..\"z\")) (SIZE(3)) (SIZE(4))",
              "FMisc ::= INTEGER (1..5)(7..9)",
              "FMisc ::= OCTET STRING (FROM (\"a\"))",
              "FMisc ::= SEQUENCE { a [0] INTEGER OPTIONAL, b [0] INTEGER }",
              "FMisc ::= SEQUENCE OF FMisc",
              "FMisc ::= FMisc2\nFMisc2 ::= FMisc",
              "FMisc ::= SET (SIZE(1)) OF SET (SIZE(MAX)) OF NULL",
              "FMisc ::= REAL (0..1)",
              "FMisc ::= NULL (NULL)",
              "FMisc ::= BIT STRING (SIZE(0))",
              "FMisc ::= SEQUENCE { a BOOLEAN DEFAULT 5 }",
              "FMisc ::= UTF8String (\"é\")",
              "FMisc ::= INTEGER (MIN..MAX, ...)",
              "FMisc ::= INTEGER (ALL EXCEPT 5)",
              "FMisc ::= ENUMERATED { a } (a)",
              "fMiscV FMiscT ::= { a 1 }\nFMiscT ::= SEQUENCE { a INTEGER }",
              )
    return text.replace("\nEND", "\n%s\n\nEND" % body, 1)


FAULTS = [fault_dangling, fault_dup_member, fault_dup_type, fault_size_on_int, fault_range_on_bool, fault_reversed_bounds,
          fault_bad_default, fault_mandatory_recursion, fault_empty, fault_huge, fault_dup_enum, fault_misc]


@st.composite
def case_strategy(draw):
    cfg = gen.Cfg(max_types=draw(st.sampled_from([6, 10, 16])), min_types=4, wide_ints=True, big_sizes=draw(st.booleans()),
                  max_depth=draw(st.sampled_from([2, 3, 4])))
    mod = draw(gen.module(cfg))
    classes = ["tags." + mod.tagdefault]
    frags = []
    for i in range(draw(st.sampled_from([0, 1, 1, 2, 3]))):
        f = draw(st.sampled_from(FRAGMENTS))
        t, c = f(draw, i)
        frags.append(t)
        classes.append("frag." + c)
    mod.extra_text = (mod.extra_text + "\n" if mod.extra_text else "") + "\n".join(frags)
    text = mod.render()
    if draw(st.integers(0, 9)) == 0:      # a second module in the same file, imported from
        text = text.replace("::= BEGIN\n", "::= BEGIN\nIMPORTS XImp, XImpSeq FROM XOther;\nFImpUse ::= SEQUENCE { a XImp, b XImpSeq OPTIONAL }\n", 1)
        text += ("\nXOther DEFINITIONS %s TAGS ::= BEGIN\nEXPORTS ALL;\nXImp ::= INTEGER (0..%d)\n"
                 "XImpSeq ::= SEQUENCE { a XImp, b T0x OPTIONAL }\nT0x ::= SET OF XImp\nEND\n"
                 % (_n(draw, "EXPLICIT", "IMPLICIT", "AUTOMATIC"), _n(draw, 1, 255, 65536)))
        classes.append("frag.imports")
    if draw(st.integers(0, 9)) < 4:
        f = draw(st.sampled_from(FAULTS))
        t2 = f(draw, text)
        if t2 is not None and t2 != text:
            text = t2
            classes.append("fault." + f.__name__[6:])
    opts = [o for o in OPTIONS if draw(st.integers(0, 3)) == 0]
    if "-no-gen-PER" in opts and "-no-gen-OER" in opts and draw(st.booleans()):
        opts.remove(_n(draw, "-no-gen-PER", "-no-gen-OER"))
    return {"text": text, "flags": opts, "classes": classes}


# ------------------------------------------------------------------ the oracle
def _mk_list(text, var):
    """Words of every `VAR=`, `VAR?=`, `VAR+=` assignment (with backslash continuations) in a generated makefile."""
    out = []
    lines = text.split("\n")
    i = 0
    while i < len(lines):
        m = re.match(r"^%s\s*[?+]?=(.*)$" % re.escape(var), lines[i])
        if m:
            cur = m.group(1)
            while cur.rstrip().endswith("\\") and i + 1 < len(lines):
                i += 1
                cur = cur.rstrip()[:-1] + " " + lines[i]
            out += cur.split()
        i += 1
    return [os.path.basename(w) if w.endswith((".c", ".h")) else w for w in out]   # with -D the names carry the directory


def _first_error(out):
    for l in out.split("\n"):
        if " error: " in l or "undefined reference" in l or "undefined symbol" in l or "multiple definition" in l \
                or "duplicate symbol" in l:
            return l.strip()
    return (out.strip().split("\n") or [""])[-1]


def _norm(msg):
    msg = re.sub(r"^\S*?([\w.-]+\.[ch](?:c)?):\d+:\d+:", r"\1:", msg)
    msg = re.sub(r"'[^']*'", "'_'", msg)
    msg = re.sub(r"\d+", "N", msg)
    return msg[:160]


def _cc_cached(src, cflags, skel_names, skh):
    """Compile one emitted file; copies of skeleton sources are cached by content and flags."""
    base = os.path.basename(src)
    obj = src[:-2] + ".o"
    key = None
    if base in skel_names:
        with open(src, "rb") as f:
            key = hashlib.sha256(f.read() + b"\0" + " ".join(cflags[:-1]).encode() + skh.encode()).hexdigest()[:32]
        cobj = os.path.join(CACHE, skh[:12], key + ".o")
        if os.path.exists(cobj):
            return cobj, 0, ""
    r = subprocess.run([build.CLANG] + cflags + ["-c", src, "-o", obj], stdout=subprocess.PIPE, stderr=subprocess.STDOUT)
    out = r.stdout.decode(errors="replace")
    if r.returncode == 0 and key:
        os.makedirs(os.path.dirname(cobj), exist_ok=True)
        tmp = cobj + ".%d" % os.getpid()
        shutil.copy(obj, tmp)
        os.replace(tmp, cobj)
    return obj, r.returncode, out


def evaluate(text, flags, keep=False):
    """Returns (signature or None, detail, info).  signature None = the property holds on this case."""
    info = {}
    work = drv.mkwork("c10")
    try:
        t0 = time.time()
        rc, out = drv.run_asn1c(text, work, flags=tuple(flags), timeout=60, exe=build.asn1c_binary("plain"))
        info["asn1c_s"] = time.time() - t0
        if rc == -999:
            return "asn1c:hang", "asn1c did not finish within 60 s", info
        if rc < 0:
            tail = [l for l in out.strip().split("\n") if l.strip()][-3:]
            ass = [l for l in out.split("\n") if "Assertion" in l or "assert" in l.lower()]
            return "asn1c:signal%d:%s" % (-rc, _norm(ass[0] if ass else (tail[-1] if tail else ""))), \
                "asn1c was killed by signal %d\n%s" % (-rc, "\n".join(tail)), info
        if rc != 0:
            info["outcome"] = "rejected"
            if not out.strip():
                return "asn1c:silent-reject", "asn1c exited with status %d without any diagnostic" % rc, info
            return None, "rejected with a diagnostic", info
        info["outcome"] = "accepted"
        gen_dir = os.path.join(work, "gen")
        mk1 = open(os.path.join(gen_dir, "Makefile.am.libasncodec")).read()
        mk2p = os.path.join(gen_dir, "converter-example.mk")
        mk2 = open(mk2p).read() if os.path.exists(mk2p) else ""
        srcs = [s for s in _mk_list(mk1, "ASN_MODULE_SRCS") if s.endswith(".c")]
        hdrs = [s for s in _mk_list(mk1, "ASN_MODULE_HDRS") if s.endswith(".h")]
        mcflags = _mk_list(mk1, "ASN_MODULE_CFLAGS")
        psrcs = [s for s in _mk_list(mk2, "ASN_PROGRAM_SRCS") if s.endswith(".c")] or ["converter-example.c", "pdu_collection.c"]
        psrcs = [s for s in psrcs if s not in srcs]
        missing = [s for s in srcs + hdrs + psrcs if not os.path.exists(os.path.join(gen_dir, s))]
        if missing:
            return "files:listed-but-missing:" + _norm(missing[0]), "the generated makefile names files that were not written: %s" % missing[:5], info
        skel_names = set(os.listdir(os.path.join(build.REPO, "skeletons")))
        skh = build.skel_hash()
        cflags = ["-std=c99", "-O0", "-w", "-Werror=implicit-function-declaration", "-Werror=incompatible-pointer-types",
                  "-Werror=int-conversion", "-Werror=return-type"] + mcflags + ["-DASN_PDU_COLLECTION", "-I" + gen_dir]
        info["files"] = len(srcs)
        objs = {}
        t0 = time.time()
        for s in srcs + psrcs:
            o, crc, cout = _cc_cached(os.path.join(gen_dir, s), cflags, skel_names, skh)
            if crc != 0:
                e = _first_error(cout)
                return "cc:" + _norm(e), "%s does not compile as C99:\n%s" % (s, cout[:1500]), info
            objs[s] = o
        exe = os.path.join(work, "conv")
        r = subprocess.run([build.CLANG] + [objs[s] for s in srcs + psrcs] + ["-lm", "-o", exe], stdout=subprocess.PIPE,
                           stderr=subprocess.STDOUT)
        if r.returncode != 0:
            lo = r.stdout.decode(errors="replace")
            return "link:" + _norm(_first_error(lo)), "the emitted file set does not link:\n%s" % lo[:1500], info
        info["cc_s"] = time.time() - t0
        # descriptor consistency
        defs = ["-DSC_HAVE_" + hname[:-2] for hname in os.listdir(gen_dir)
                if hname.endswith(".h") and hname[:-2] in ("constr_SEQUENCE", "constr_SET", "constr_CHOICE", "constr_SET_OF",
                                                            "constr_SEQUENCE_OF", "INTEGER", "NativeInteger",
                                                            "NativeEnumerated", "ENUMERATED")]
        sc = os.path.join(work, "selfcheck")
        r = subprocess.run([build.CLANG, "-std=gnu99", "-O0", "-w"] + mcflags + defs + ["-I" + gen_dir,
                           os.path.join(build.VERIF, "c", "selfcheck.c")] +
                           [objs[s] for s in srcs + psrcs if s != "converter-example.c"] + ["-lm", "-o", sc],
                           stdout=subprocess.PIPE, stderr=subprocess.STDOUT)
        if r.returncode != 0:
            raise RuntimeError("selfcheck.c does not build: " + r.stdout.decode(errors="replace")[:2000])
        r = subprocess.run([sc], stdout=subprocess.PIPE, stderr=subprocess.STDOUT, timeout=60)
        so = r.stdout.decode(errors="replace")
        m = re.search(r"SELFCHECK pdus=(\d+) types=(\d+) bad=(\d+)", so)
        if r.returncode < 0 or not m:
            return "selfcheck:crash", "walking the descriptors crashed (rc=%d):\n%s" % (r.returncode, so[-1500:]), info
        info["descriptors"] = int(m.group(2))
        if int(m.group(3)):
            bad = [l for l in so.split("\n") if l.startswith("BAD ")]
            return "selfcheck:" + _norm(bad[0].split(": ", 1)[1]), "inconsistent type descriptors:\n%s" % "\n".join(bad[:10]), info
        # C++-compatible headers
        cxx = os.path.join(work, "all.cc")
        with open(cxx, "w") as f:
            for hname in hdrs:
                f.write('#include "%s"\n' % hname)
            f.write("int main() { return 0; }\n")
        r = subprocess.run([build.CLANGXX, "-std=c++11", "-fsyntax-only",
                            "-w"] + mcflags + ["-I" + gen_dir, cxx], stdout=subprocess.PIPE, stderr=subprocess.STDOUT)
        if r.returncode != 0:
            # all headers in one translation unit failed: the statement asks for C++-compatible headers, not for
            # clash-free names across unrelated types, so the verdict is taken header by header
            info["cxx_all_in_one_failed"] = 1
            for hname in hdrs:
                if hname in skel_names:
                    continue
                with open(cxx, "w") as f:
                    f.write('#include "%s"\nint main() { return 0; }\n' % hname)
                r = subprocess.run([build.CLANGXX, "-std=c++11", "-fsyntax-only", "-w"] + mcflags + ["-I" + gen_dir, cxx],
                                   stdout=subprocess.PIPE, stderr=subprocess.STDOUT)
                if r.returncode != 0:
                    co = r.stdout.decode(errors="replace")
                    return "cxx:" + _norm(_first_error(co)), "%s does not parse as C++:\n%s" % (hname, co[:1500]), info
        return None, "accepted; %d files build and link; %d descriptors consistent; headers parse as C++" % (
            len(srcs), info["descriptors"]), info
    finally:
        if not keep:
            shutil.rmtree(work, ignore_errors=True)


# ------------------------------------------------------------------ minimisation: drop assignments/options while the signature stays
def _blocks(text):
    parts = re.split(r"(?m)^(?=[A-Za-z][\w-]*(?:\{[^}]*\})?\s+(?:[\w.-]+\s+)?::=)", text)
    return parts


def minimise(text, flags, sig, budget=45):
    parts = _blocks(text)
    used = 0
    flags = list(flags)
    for o in list(flags):
        if used >= budget:
            break
        f2 = [x for x in flags if x != o]
        used += 1
        if evaluate(text, f2)[0] == sig:
            flags = f2
    chunk = max(1, (len(parts) - 1) // 2)
    while chunk >= 1 and used < budget:
        i = 1
        progressed = False
        while i < len(parts) and used < budget:
            cand = parts[:i] + parts[i + chunk:]
            t2 = "".join(cand)
            if "END" not in t2:
                i += chunk
                continue
            used += 1
            if evaluate(t2, flags)[0] == sig:
                parts = cand
                progressed = True
            else:
                i += chunk
        if chunk == 1 and not progressed:
            break
        chunk = max(1, chunk // 2) if chunk > 1 else (1 if progressed else 0)
    return "".join(parts), flags


# ------------------------------------------------------------------ text-level shape analysis (for known-finding triggers)
_TOK = re.compile(r"::=|\.\.\.|\.\.|[{}()\[\],<|^]|\"[^\"]*\"|'[^']*'[BH]?|[^\s{}()\[\],<|^\"']+")


def _skip_balanced(t, i, op, cl):
    depth = 0
    while i < len(t):
        if t[i] == op:
            depth += 1
        elif t[i] == cl:
            depth -= 1
            if depth == 0:
                return i + 1
        i += 1
    return i


def _parse_type(t, i, found):
    """Parses one type starting at t[i]; returns (next index, inline constructed?, subtree has an inline constructed
    collection element?).  found collects 'nested' when an inline constructed collection element itself contains one."""
    while i < len(t) and (t[i] == "[" or t[i] in ("IMPLICIT", "EXPLICIT")):
        i = _skip_balanced(t, i, "[", "]") if t[i] == "[" else i + 1
    if i >= len(t):
        return i, False, False
    w = t[i]
    if w in ("SEQUENCE", "SET", "CHOICE"):
        i += 1
        while i < len(t) and (t[i] == "(" or t[i] == "SIZE"):
            i = _skip_balanced(t, i, "(", ")") if t[i] == "(" else i + 1
        if i < len(t) and t[i] == "OF":
            i, cons, has = _parse_type(t, i + 1, found)
            if cons and has:
                found.append("nested")
            i = _skip_constraints(t, i)
            return i, True, has or cons
        if i < len(t) and t[i] == "{":
            i += 1
            has = False
            while i < len(t) and t[i] != "}":
                if t[i] in (",", "...") or t[i] == "!":
                    i += 1
                    continue
                if t[i] == "COMPONENTS":
                    i += 2
                    i, _, _ = _parse_type(t, i, found)
                    continue
                if t[i] == "[" and i + 1 < len(t) and t[i + 1] == "[":      # version brackets
                    i += 2
                    continue
                if t[i] == "]":
                    i += 1
                    continue
                i += 1                                   # the identifier
                i, _, h2 = _parse_type(t, i, found)
                has = has or h2
                while i < len(t) and t[i] not in (",", "}"):
                    if t[i] == "{":
                        i = _skip_balanced(t, i, "{", "}")
                    elif t[i] == "(":
                        i = _skip_balanced(t, i, "(", ")")
                    else:
                        i += 1
            return _skip_constraints(t, i + 1), True, has
        return i, False, False
    # anything else: a primitive, a reference, ENUMERATED/INTEGER/BIT STRING with a brace list, a parameterized reference
    i += 1
    while i < len(t) and t[i] not in (",", "}", "OPTIONAL", "DEFAULT", "::=") and not (
            re.match(r"^[A-Za-z]", t[i]) and i + 1 < len(t) and t[i + 1] == "::="):
        if t[i] == "{":
            i = _skip_balanced(t, i, "{", "}")
        elif t[i] == "(":
            i = _skip_balanced(t, i, "(", ")")
        elif re.match(r"^[a-z]", t[i]) and t[i - 1] not in ("BIT", "OCTET", "OBJECT", "CHARACTER", "EMBEDDED", "<"):
            break
        else:
            i += 1
    return i, False, False


def _skip_constraints(t, i):
    while i < len(t) and t[i] == "(":
        i = _skip_balanced(t, i, "(", ")")
    return i


def nested_anonymous_elements(text):
    """True when some inline constructed element of a collection contains another inline constructed collection element,
    e.g. SEQUENCE OF SEQUENCE OF SEQUENCE {..} or SET OF SEQUENCE { y SEQUENCE OF CHOICE {..} }."""
    t = _TOK.findall(re.sub(r"--.*", "", text))
    found = []
    i = 0
    while i < len(t):
        if t[i] == "::=" and i + 1 < len(t) and t[i + 1] != "BEGIN":
            try:
                _parse_type(t, i + 1, found)
            except (IndexError, RecursionError):
                pass
        i += 1
    return bool(found)


# ------------------------------------------------------------------ known classes (active only when listed in known_findings.txt)
def _dup_rows(text):
    """an object set in which two objects carry the same &Type"""
    rows = {}
    for m in re.finditer(r"^\s*[a-z][\w-]*\s+([A-Z][\w-]*)\s*::=\s*\{\s*([A-Z][\w-]*|[A-Z][A-Z ]+?)\s+IDENTIFIED BY", text, re.M):
        rows.setdefault(m.group(1), []).append(m.group(2))
    return any(len(v) != len(set(v)) for v in rows.values())


K_NESTED = "anonymous.nested-collection-element.uncompilable"
K_DUPROW = "ioc.same-type-in-two-rows.uncompilable"
K_PNULL = "param.actual-parameter-NULL.assert"
K_HUGE = "number-beyond-64-bits.emitted-literally"
K_ALIASREC = "recursion.through-reference-alias.uncompilable"


def _alias_in_cycle(text):
    """a type that is only an (optionally tagged) reference to another type and lies on a reference cycle"""
    t = re.sub(r"--.*", "", text)
    rhs = {}
    for m in re.finditer(r"(?m)^\s*([A-Z][\w-]*)\s*::=(.*?)(?=^\s*[A-Za-z][\w-]*(?:\s*\{[^}]*\})?\s+(?:[\w.-]+\s+)?::=|^\s*END\b)", t, re.S):
        rhs[m.group(1)] = m.group(2)
    refs = {n: set(r for r in re.findall(r"(?<![\w&.-])[A-Z][\w-]*", b) if r in rhs) for n, b in rhs.items()}
    alias = [n for n, b in rhs.items()
             if re.fullmatch(r"\s*(?:\[[^\]]*\]\s*(?:IMPLICIT|EXPLICIT)?\s*)*[A-Z][\w-]*\s*", b) and refs[n]]
    for a in alias:
        if not (refs[a] & set(alias)):      # one alias hop compiles; two consecutive hops on a cycle do not
            continue
        seen, todo = set(), list(refs[a])
        while todo:
            x = todo.pop()
            if x == a:
                return True
            if x not in seen:
                seen.add(x)
                todo += list(refs.get(x, ()))
    return False


def _huge_literal(text):
    for m in re.finditer(r"(?<![\w])-?\d{19,}", re.sub(r"--.*", "", text)):
        v = int(m.group(0))
        if v > (1 << 64) - 1 or v < -(1 << 63):
            return True
    return False
KNOWN_CLASSES = {
    K_NESTED: lambda sig, text, flags: ("storage class" in sig or "must use '_' tag" in sig) and " OF" in text,
    K_DUPROW: lambda sig, text, flags: "redefinition of enumerator" in sig and _dup_rows(text),
    K_HUGE: lambda sig, text, flags: sig.startswith("cc:") and ("too large" in sig or "literal" in sig) and _huge_literal(text),
    K_ALIASREC: lambda sig, text, flags: sig.startswith("cc:") and ("unknown type name" in sig or "incomplete type" in sig
                                                                      or "must use '_' tag" in sig) and _alias_in_cycle(text),
    K_PNULL: lambda sig, text, flags: sig.startswith("asn1c:signal6") and "find_terminal_thing" in sig
    and re.search(r"\{\s*NULL\s*\}", text) is not None,
}


def known_class(sig, text, flags):
    for cls, pred in KNOWN_CLASSES.items():
        if KNOWN.is_known(PID, cls) and pred(sig, text, flags):
            return cls
    return None


def excluded_by_construction(case):
    """Classes listed as known findings are not generated: returns the class whose trigger the text contains."""
    for cls, pred in KNOWN_TRIGGERS.items():
        if KNOWN.is_known(PID, cls) and pred(case["text"], case["flags"]):
            return cls
    return None


KNOWN_TRIGGERS = {
    K_NESTED: lambda text, flags: "-fcompound-names" in flags and nested_anonymous_elements(text),
    K_DUPROW: lambda text, flags: _dup_rows(text),
    K_HUGE: lambda text, flags: _huge_literal(text),
    K_ALIASREC: lambda text, flags: _alias_in_cycle(text),
    K_PNULL: lambda text, flags: re.search(r"[\w-]\s*\{\s*NULL\s*\}", text) is not None,
}


def features(case):
    text = case["text"]
    cls = list(case["classes"])
    nassign = len(re.findall(r"(?m)^[A-Za-z][\w-]*(?:\{[^}]*\})?\s+(?:[\w.-]+\s+)?::=", text))
    for k in ("SEQUENCE OF", "SET OF", "CHOICE", "SET {", "SEQUENCE {", "ENUMERATED", "DEFAULT", "OPTIONAL", "...", "SIZE", "FROM",
              "REAL", "BIT STRING", "[APPLICATION", "[PRIVATE", "IMPLICIT", "EXPLICIT"):
        if k in text:
            cls.append("has." + k.replace(" ", "-"))
    for o in case["flags"]:
        cls.append("opt." + o)
    if not case["flags"]:
        cls.append("opt.none")
    cls.append("opts.%d" % len(case["flags"]))
    beyond = any(c.startswith(("frag.", "fault.")) for c in cls) or any(k in text for k in ("SEQUENCE", "SET", "CHOICE", "SIZE", ".."))
    return nassign >= 5 and beyond, cls


def worker(cases, budget_min):
    acc = Acc()
    t0 = time.time()
    for case in cases:
        ex = excluded_by_construction(case)
        if ex:
            acc.excluded["known:" + ex] += 1
            continue
        nt, cls = features(case)
        sig, detail, info = evaluate(case["text"], case["flags"])
        cls.append("outcome." + info.get("outcome", "died"))
        acc.case(h(case["text"], case["flags"]) if nt else None, cls)
        acc.extra["files_compiled"] += info.get("files", 0)
        acc.extra["descriptors_checked"] += info.get("descriptors", 0)
        acc.extra["cxx_name_clash_across_headers(no verdict)"] += info.get("cxx_all_in_one_failed", 0)
        if nt and sig is None:
            acc.sample({"options": case["flags"], "classes": [c for c in case["classes"]], "result": detail,
                        "text_head": case["text"][:300]}, limit=5)
        if sig is None:
            continue
        kc = known_class(sig, case["text"], case["flags"])
        if kc:
            acc.excluded["known:" + kc + " (met, not excluded by its trigger)"] += 1
            continue
        text, flags = case["text"], case["flags"]
        if budget_min:
            text, flags = minimise(text, flags, sig, budget_min)
            sig2, detail2, _ = evaluate(text, flags)
            if sig2 == sig:
                detail = detail2
            else:
                text, flags = case["text"], case["flags"]
        acc.violation(h(sig), "%s\noptions: %s\nmodule:\n%s\n%s" % (sig, " ".join(flags) or "(none)", text[:3000], detail[:2500]),
                      {"text": text, "flags": flags, "signature": sig})
    acc.timing = ("chunk", round(time.time() - t0, 1))
    return acc


def replay_case(case):
    sig, detail, info = evaluate(case["text"], case["flags"])
    if case.get("probe") is None and sig is not None:
        kc = known_class(sig, case["text"], case["flags"])
        if kc:
            return False, "known finding %s: %s" % (kc, sig)
    if sig is None:
        return False, detail
    return True, "%s\n%s" % (sig, detail)


def draw_cases(seed, n):
    return pipeline.draw_modules(seed, n, None, case_strategy())


def main(argv):
    a = runner.parse_args(argv)
    build.asn1c_binary("plain")
    if a.replay:
        return runner.do_replay(PID, replay_case, a.replay)
    chk = Check(PID, "exploration", RULE, ASSUME)
    n = a.modules or chk.pick(900, 12000)
    t1 = time.time()
    runner.regression_and_probes(chk, replay_case)
    chk.extra_coverage["replays_and_probes_s"] = round(time.time() - t1, 1)
    t1 = time.time()
    W = a.workers or NCPU
    # cases are drawn in parallel slices, each slice from its own derived seed
    nslices = max(1, min(W, n // 30))
    per = -(-n // nslices)
    args = [(chk.seed * 1009 + i, per, chk.pick(30, 45)) for i in range(nslices)]
    results = run_pool(slice_worker, args, W)
    chk.extra_coverage["pool_s"] = round(time.time() - t1, 1)
    best = {}
    for kind, r in results:
        if kind != "ok":
            chk.error("worker failed: " + r[-3000:])
            continue
        for v in r.violations:      # one report per signature: keep the smallest module
            size = len(v["replay"]["text"])
            if v["key"] not in best or size < best[v["key"]][0]:
                best[v["key"]] = (size, v)
        r.violations = []
        chk.acc.merge(r)
    chk.acc.violations = [v for _, v in sorted(best.values(), key=lambda x: x[0])]
    if len(chk.acc.violations) > 12:
        chk.acc.extra["further_signatures_not_listed"] = len(chk.acc.violations) - 12
        chk.acc.violations = chk.acc.violations[:12]
    t1 = time.time()
    runner.confirm(chk, replay_case)
    chk.extra_coverage["confirm_s"] = round(time.time() - t1, 1)
    _prune_cache()
    return chk.finish(min_evaluations=int(n * 0.75), min_nontrivial=n // 3)


def slice_worker(seed, n, budget_min):
    cases = draw_cases(seed, n)
    return worker(cases, budget_min)


def _prune_cache():
    try:
        cur = build.skel_hash()[:12]
        for d in os.listdir(CACHE):
            if d != cur:
                shutil.rmtree(os.path.join(CACHE, d), ignore_errors=True)
    except OSError:
        pass


if __name__ == "__main__":
    sys.exit(main(sys.argv[1:]))
