"""Runner plumbing shared by all checks: accumulators, evidence files, VIOLATION / KNOWN-FINDING
lines, replay files, known-findings file, worker pool."""
import hashlib
import json
import os
import sys
import time
import traceback
from collections import Counter
from concurrent.futures import ProcessPoolExecutor, as_completed

VERIF = os.path.dirname(os.path.dirname(os.path.abspath(__file__)))
# VERIF_EVIDENCE_DIR: where evidence and newly found replays go when a run is NOT about the real tree
# (sensitivity experiments with VERIF_REPO); registered commands never set it.
_ALT = os.environ.get("VERIF_EVIDENCE_DIR")
EVIDENCE_DIR = _ALT or os.path.join(VERIF, "evidence")
REPLAY_DIR = os.path.join(VERIF, "replays")
KNOWN_FILE = os.path.join(VERIF, "known_findings.txt")
NCPU = max(2, os.cpu_count() or 2)


def h(*parts):
    m = hashlib.sha1()
    for p in parts:
        m.update(repr(p).encode())
        m.update(b"\x00")
    return m.hexdigest()[:16]


# ------------------------------------------------------------------ known findings
class Known:
    """known_findings.txt: 'known: property=<id> class=<key> <text>' / 'fixed: property=<id> <commit> <text>'.
    Read-only at run time."""

    def __init__(self, path=KNOWN_FILE):
        self.known = {}   # (pid, class) -> text
        self.fixed = []
        if os.path.exists(path):
            for line in open(path):
                line = line.strip()
                if not line or line.startswith("#"):
                    continue
                kind, _, rest = line.partition(":")
                toks = rest.split()
                kv = dict(t.split("=", 1) for t in toks if "=" in t and t.split("=", 1)[0] in ("property", "class", "root"))
                if kind == "known" and "property" in kv and "class" in kv:
                    self.known[(kv["property"], kv["class"])] = rest.strip()
                elif kind == "fixed":
                    self.fixed.append(rest.strip())

    def is_known(self, pid, cls):
        return (pid, cls) in self.known

    def classes(self, pid):
        return [c for (p, c) in self.known if p == pid]

    def text(self, pid, cls):
        return self.known.get((pid, cls), "")


KNOWN = Known()


# ------------------------------------------------------------------ accumulator (mergeable across workers)
class Acc:
    def __init__(self):
        self.evaluations = 0
        self.nontrivial = set()
        self.classes = Counter()
        self.excluded = Counter()     # cases skipped by construction (known classes, ref-excluded, nocodec ...)
        self.samples = []
        self.violations = []          # dicts: {"key":..., "summary":..., "replay": {...}}
        self.known_hits = Counter()   # known-finding class -> count of probe confirmations
        self.notes = []
        self.extra = Counter()

    def case(self, nontrivial_key=None, classes=()):
        self.evaluations += 1
        if nontrivial_key is not None:
            self.nontrivial.add(nontrivial_key)
        for c in classes:
            self.classes[c] += 1

    def sample(self, s, limit=12):
        if len(self.samples) < limit:
            self.samples.append(s)

    def violation(self, key, summary, replay):
        if any(v["key"] == key for v in self.violations):
            return
        self.violations.append({"key": key, "summary": summary, "replay": replay})

    def merge(self, o):
        self.evaluations += o.evaluations
        self.nontrivial |= o.nontrivial
        self.classes.update(o.classes)
        self.excluded.update(o.excluded)
        self.extra.update(o.extra)
        for s in o.samples:
            if len(self.samples) < 24:
                self.samples.append(s)
        for v in o.violations:
            self.violation(v["key"], v["summary"], v["replay"])
        self.known_hits.update(o.known_hits)
        self.notes += o.notes[:20]
        if getattr(o, "timing", None):
            self.timings = getattr(self, "timings", []) + [o.timing]


# ------------------------------------------------------------------ check context
class Check:
    def __init__(self, pid, level, rule, assumptions=()):
        self.pid = pid
        self.level = level
        self.rule = rule
        self.assumptions = list(assumptions)
        self.tier = os.environ.get("VERIF_TIER", "quick")
        self.seed = int(os.environ.get("VERIF_SEED", "20240928") or 0)
        self.acc = Acc()
        self.t0 = time.time()
        self.extra_coverage = {}
        self.errors = []

    @property
    def thorough(self):
        return self.tier == "thorough"

    def pick(self, quick, thorough):
        return thorough if self.thorough else quick

    def error(self, msg):
        self.errors.append(msg)

    def write_replay(self, v):
        if v.get("path"):
            return v["path"]
        d = os.path.join(_ALT, "found", self.pid) if _ALT else os.path.join(REPLAY_DIR, self.pid, "found")
        os.makedirs(d, exist_ok=True)
        path = os.path.join(d, "viol-%s.json" % h(v["key"]))
        with open(path, "w") as f:
            json.dump({"property": self.pid, "summary": v["summary"], "case": v["replay"]}, f, indent=1, sort_keys=True)
        return path

    def finish(self, min_evaluations=1, min_nontrivial=2):
        acc = self.acc
        wall = time.time() - self.t0
        cov = {
            "evaluations": acc.evaluations,
            "distinct_nontrivial": len(acc.nontrivial),
            "rule": self.rule,
            "samples": acc.samples[:24] or ["(no case was executed)"],
            "classes": dict(acc.classes.most_common(80)),
            "excluded_by_construction": dict(acc.excluded),
            "known_finding_probe_hits": dict(acc.known_hits),
        }
        if acc.extra:
            cov["counters"] = dict(acc.extra)
        if acc.notes:
            cov["notes"] = acc.notes[:40]
        if getattr(acc, "timings", None):
            cov["slowest_modules_s"] = sorted(acc.timings, key=lambda t: -t[1])[:6]
        cov.update(self.extra_coverage)
        ev = {
            "property_id": self.pid, "tier": self.tier, "seed": self.seed, "level": self.level,
            "coverage": cov, "assumptions": self.assumptions, "wall_s": round(wall, 2),
            "violations": len(acc.violations),
        }
        os.makedirs(EVIDENCE_DIR, exist_ok=True)
        tmp = os.path.join(EVIDENCE_DIR, ".%s.json.tmp" % self.pid)
        with open(tmp, "w") as f:
            json.dump(ev, f, indent=1, sort_keys=True, default=str)
        os.replace(tmp, os.path.join(EVIDENCE_DIR, "%s.json" % self.pid))
        for cls, n in sorted(acc.known_hits.items()):
            txt = KNOWN.text(self.pid, cls) or cls
            txt = " ".join(t for t in txt.split() if not t.startswith("property="))
            print("KNOWN-FINDING: property=%s %s" % (self.pid, txt))
        rc = 0
        for v in acc.violations:
            path = self.write_replay(v)
            print("VIOLATION property=%s replay=%s" % (self.pid, path))
            print("  " + v["summary"][:1500].replace("\n", "\n  "))
            rc = 1
        if rc == 0:
            if self.errors:
                for e in self.errors[:10]:
                    print("ERROR: %s" % e[:2000])
                rc = 2
            elif acc.evaluations < min_evaluations or len(acc.nontrivial) < min_nontrivial:
                print("ERROR: property=%s explored too little (evaluations=%d nontrivial=%d; minimum %d/%d): "
                      "not a verdict" % (self.pid, acc.evaluations, len(acc.nontrivial), min_evaluations, min_nontrivial))
                rc = 2
        print("%s %s tier=%s seed=%d evaluations=%d nontrivial=%d violations=%d wall=%.1fs" % (
            self.pid, "OK" if rc == 0 else ("VIOLATED" if rc == 1 else "ERROR"), self.tier, self.seed,
            acc.evaluations, len(acc.nontrivial), len(acc.violations), wall))
        sys.stdout.flush()
        return rc


# ------------------------------------------------------------------ worker pool
def _call(fn, args):
    try:
        return ("ok", fn(*args))
    except BaseException:
        return ("exc", traceback.format_exc())


def run_pool(fn, arglist, workers=None, on_result=None):
    """Run fn(*args) for every args tuple in worker processes; yields results as they finish.
    A worker exception is returned as ('exc', text)."""
    workers = workers or min(NCPU, max(1, len(arglist)))
    results = [None] * len(arglist)
    with ProcessPoolExecutor(max_workers=workers) as ex:
        futs = {ex.submit(_call, fn, a): i for i, a in enumerate(arglist)}
        for f in as_completed(futs):
            i = futs[f]
            try:
                results[i] = f.result()
            except BaseException as e:   # worker process died
                results[i] = ("exc", "worker died: %r" % (e,))
            if on_result:
                on_result(i, results[i])
    return results
