"""C02 — DER / UPER / OER bytes are exactly what X.690 / X.691 / X.696 prescribe."""
import sys

from hypothesis import strategies as st

from . import gen, drv, ref_ber, ref_per, ref_oer, pipeline, valcheck, runner
from .common import h, KNOWN
from .model import val_to_json, val_from_json, val_repr

PID = "C02"
RULE = ("one evaluation = one (value, syntax) comparison; random modules (Hypothesis) plus the systematic boundary catalogue (integer widths, tag numbers, sizes, "
        "alphabets, >127 enumerations, >63 additions); every value is encoded by the library in DER, canonical UPER "
        "and canonical OER and compared byte for byte with independent reference encoders; non-trivial = encoding "
        ">= 2 octets and type is constrained/tagged/structured; distinct by (type, value, syntax)")
SYN = ["der", "uper", "oer"]

KNOWN_CLASSES = {
    # der_encoder.c: ASN1_DER_MAX_TAGS_COUNT 4 ("System limit on tags count")
    "tagchain.four-or-more.der": lambda f, s: "tagchain>=4" in f,
    # by-design guard against compression bombs: > 200 zero-width elements are refused by the PER/OER decoders
    "zero-width-elements.over-200.per-oer": lambda f, s: s in ("uper", "oer") and "zero-width>200" in f,
    "bitstring.trailing-zero-bits.uper": lambda f, s: s == "uper" and "bits.trailing0" in f,
    "int.ub-above-int64.uper": lambda f, s: s == "uper" and "int.ub>int64" in f,
    "from.sparse-above-255.uper": lambda f, s: s == "uper" and "from.sparse>255" in f,
    # a *named* type that is UTCTime/GeneralizedTime loses the 7-bit PER constraints of the built-in type
    "time.named-type.uper": lambda f, s: s == "uper" and "time.named" in f,
    "size.ext-root-above-64K.uper": lambda f, s: s == "uper" and "size.ext.ub>=64K" in f,
    "kmstring.size-extension.alphabet-dropped.uper": lambda f, s: s == "uper" and "kmstr.size-ext-outside" in f,
    "set.no-oer-uper": lambda f, s: s in ("oer", "uper") and "SET" in f,
    # NativeEnumerated's PER codec takes "index in the value-sorted map < number of root items" for "is a root item"
    "enum.addition-below-root.uper": lambda f, s: s == "uper" and "enum.addition-below-root" in f,
}


def known_skip(feats, syn):
    for cls, pred in KNOWN_CLASSES.items():
        if KNOWN.is_known(PID, cls) and pred(feats, syn):
            return cls
    return None


def strategy(mod, t, cfg, feats):
    return gen.values(mod, t, cfg)


def boundary_cases(mod, t):
    return gen.boundary_values(mod, t)


def value_of(x):
    return x


def with_value(x, v2, mod, tname):
    return v2


def make_replay(mod, tname, t, x):
    return {"module": mod.subset([tname]).to_json(), "type": tname, "x": val_to_json(x)}


def case_from_replay(mod, case):
    return val_from_json(case["x"])


REF = {"der": ref_ber.encode, "uper": ref_per.encode, "oer": ref_oer.encode}


def run_case(sess, mod, tname, t, v, feats, acc):
    vfeats = feats | pipeline.value_features(mod, t, v)
    refder = ref_ber.encode(mod, t, v)
    want = {}
    for s in SYN:
        k = known_skip(vfeats, s) if not getattr(acc, "probe", False) else None
        if k:
            acc.excluded["known:" + k] += 1
            continue
        try:
            want[s] = REF[s](mod, t, v)
        except ref_per.RefExcluded as e:
            acc.excluded["ref-excluded:%s:%s" % (s, str(e)[:40])] += 1
    if not want:
        return None
    reply = sess.cmd("enc %s %s %s" % (tname, drv.hexs(refder), ",".join(want)))
    replay = make_replay(mod, tname, t, v)
    if "inject" in reply:
        acc.excluded["inject-failed"] += 1
        acc.notes.append("BER decoder refused reference DER %s of %s ::= %s" % (refder.hex()[:120], tname, t.render()[:200]))
        return None
    probs = []
    classes = list(feats)
    nt = None
    ttext = t.render()
    for s, w in want.items():
        got = reply.get(s)
        classes.append("syn." + s)
        if got == "nocodec":
            acc.excluded["nocodec." + s] += 1
            continue
        if got == "fail":
            probs.append(("encode-failed." + s, "%s encoder failed (errno %s, failed type %s); reference: %s" % (
                s, reply.get("errno." + s), reply.get("ftype." + s), w.hex()[:200])))
            continue
        if "sizemismatch." + s in reply:
            probs.append(("size." + s, "%s: reported/delivered %s" % (s, reply["sizemismatch." + s])))
        g = drv.unhex(got)
        if len(w) >= 2 and not pipeline.is_plain(feats):
            nt = h(ttext, val_to_json(v), s) if nt is None else nt
            acc.nontrivial.add(h(ttext, val_to_json(v), s))
        if len(w) >= 128:
            classes.append("len>=128." + s)
        if len(w) >= 16384:
            classes.append("len>=16K." + s)
        if g != w:
            i = next((j for j in range(min(len(g), len(w))) if g[j] != w[j]), min(len(g), len(w)))
            probs.append(("bytes." + s, "%s bytes differ at offset %d (lengths %d/%d)\n  library  : %s\n  reference: %s" % (
                s, i, len(g), len(w), g.hex()[:300] + ("..." if len(g) > 150 else ""),
                w.hex()[:300] + ("..." if len(w) > 150 else ""))))
    # one evaluation = one (value, syntax) byte comparison; the generic worker counts one per value
    compared = sum(1 for s in want if reply.get(s) not in ("nocodec", None))
    acc.evaluations += max(0, compared - 1)
    return probs, classes, nt, replay


def main(argv):
    return runner.run_module_check(
        PID, "exploration", RULE, valcheck.worker, lambda case: valcheck.replay_case(sys.modules[__name__], case), argv,
        n_modules=(40, 300), n_values=(40, 120), extra_worker_args=("vf.c02",), extra_modules=gen.catalogue(),
        assumptions=["the reference encoders vf/ref_ber.py, vf/ref_per.py, vf/ref_oer.py (written from the standards, "
                     "self-tested against hand-derived vectors) are the oracle; what they refuse to judge is counted "
                     "under excluded_by_construction"])


if __name__ == "__main__":
    sys.exit(main(sys.argv[1:]))
