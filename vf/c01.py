"""C01 — encode-then-decode identity in every transfer syntax, and through chains of syntaxes."""
import json
import sys

from hypothesis import strategies as st

from . import gen, drv, ref_ber, pipeline
from .common import Check, Acc, run_pool, h, KNOWN
from .model import Module, val_to_json, val_from_json, val_repr
from .pipeline import Fail

PID = "C01"
SYN = ["der", "oer", "uper", "xer", "cxer"]
PAIRS = [[a, b] for a in SYN for b in SYN if a != b] + [[a] for a in SYN]
RULE = ("modules drawn by Hypothesis over the supported type algebra, values drawn per type (boundary biased), "
        "each value injected as reference DER and sent through a chain of 1-6 syntaxes (all 20 ordered pairs "
        "are in the draw pool); non-trivial = value is not the type's zero value and the type has a constraint, "
        "OPTIONAL/DEFAULT, extension, tag or nesting>=2; distinct by (type text, value, chain)")


def known_skip(feats, syn):
    """Known-finding classes excluded by construction: returns class name or None."""
    for cls, pred in KNOWN_CLASSES.items():
        if KNOWN.is_known(PID, cls) and pred(feats, syn):
            return cls
    return None


KNOWN_CLASSES = {
    # der_encoder.c: ASN1_DER_MAX_TAGS_COUNT 4 ("System limit on tags count")
    "tagchain.four-or-more.der": lambda feats, syn: "tagchain>=4" in feats,
    # by-design guard against compression bombs: > 200 zero-width elements are refused by the PER/OER decoders
    "zero-width-elements.over-200.per-oer": lambda feats, syn: syn in ("uper", "oer") and "zero-width>200" in feats,
    # UPER strips trailing 0 bits of every BIT STRING, also of those without a NamedBitList
    "bitstring.trailing-zero-bits.uper": lambda feats, syn: syn == "uper" and "bits.trailing0" in feats,
    # PER constraint tables keep bounds in a C long: ranges reaching above 2^63-1 cannot be encoded
    "int.ub-above-int64.uper": lambda feats, syn: syn == "uper" and "int.ub>int64" in feats,
    # no PER character map is generated for a permitted alphabet with holes that reaches above 255
    "from.sparse-above-255.uper": lambda feats, syn: syn == "uper" and "from.sparse>255" in feats,
    # BASIC-XER prints REAL with "%.15f" (pinned by the repository's own check-REAL test)
    "real.basic-xer-precision": lambda feats, syn: syn == "xer" and "real.lossy15f" in feats,
    # "We model INTEGER on long for XER" (INTEGER.c): the XER decoder refuses values outside the C long range
    "int.beyond-long.xer": lambda feats, syn: syn in ("xer", "cxer") and "int.beyond-long" in feats,
    # SET has no OER/UPER codec at all
    "set.no-oer-uper": lambda feats, syn: syn in ("oer", "uper") and "SET" in feats,
}


def check_rt(reply, chain, refder, desc):
    """Oracle over one 'rt' reply.  Returns list of (class, text) problems."""
    probs = []
    if "inject" in reply:
        return None
    if reply.get("der0") is None or reply["_status"] != "ok":
        return [("der0", "DER encoding of the injected value failed: " + reply["_raw"])]
    if drv.unhex(reply["der0"]) != refder:
        probs.append(("der0-differs", "DER re-encoding of the injected value differs from the reference DER: "
                      "got %s want %s" % (reply["der0"], refder.hex())))
    for i, syn in enumerate(chain):
        s = reply.get("s%d" % i)
        if s == "nocodec":
            continue
        if s is None:
            if probs:
                break
            probs.append(("protocol", "no result for step %d: %s" % (i, reply["_raw"])))
            break
        if s == "encfail":
            probs.append(("encode-failed." + syn, "step %d: %s encoder failed (errno %s, failed type %s)" % (
                i, syn, reply.get("errno%d" % i), reply.get("ftype%d" % i))))
            break
        if "sizemismatch%d" % i in reply:
            probs.append(("size." + syn, "step %d: %s encoder reported %s bytes (reported/delivered)" % (
                i, syn, reply["sizemismatch%d" % i])))
        b = drv.unhex(reply.get("b%d" % i))
        rc, c = int(reply["rc%d" % i]), int(reply["c%d" % i])
        if rc != 0:
            probs.append(("decode-rc." + syn, "step %d: %s decoder returned rc=%d consumed=%d on the library's own "
                          "%d-byte encoding %s" % (i, syn, rc, c, len(b), b.hex()[:400])))
            break
        want = len(b.rstrip(b" \t\r\n")) if syn == "xer" else len(b)
        if c != want:
            probs.append(("consumed." + syn, "step %d: %s decoder consumed %d of %d produced bytes" % (i, syn, c, want)))
        if reply.get("cmp%d" % i) != "0" or reply.get("rcmp%d" % i) != "0":
            probs.append(("compare." + syn, "step %d: compare_struct(before, after %s) = %s/%s" % (
                i, syn, reply.get("cmp%d" % i), reply.get("rcmp%d" % i))))
        d = reply.get("d%d" % i)
        if d != "same":
            probs.append(("value-changed." + syn, "step %d: DER after %s round trip is %s, was %s" % (
                i, syn, d, reply["der0"])))
            break
    return probs


def worker(mod_json, wseed, nvalues, cfg_kw):
    acc = Acc()
    mod = Module.from_json(mod_json)
    cfg = gen.Cfg(**cfg_kw)
    mb, mod, rejected = pipeline.compile_module(mod)
    for r in rejected:
        acc.extra["types_rejected_by_asn1c"] += 1
        acc.notes.append("rejected %s at %s rc=%s: %s" % (r["type"], r["stage"], r["rc"], r["output"][-300:]))
        acc.notes.append("rejected text: " + r["text"][:600])
    if mb is None:
        acc.extra["modules_unbuildable"] += 1
        return acc
    acc.extra["modules"] += 1
    try:
        sess = pipeline.Session(mb)
        for ti, (tname, t) in enumerate(mod.types):
            feats = pipeline.type_features(mod, t)
            plain = pipeline.is_plain(feats)
            ttext = t.render()
            strat = st.tuples(gen.values(mod, t, cfg),
                              st.sampled_from(PAIRS) | st.lists(st.sampled_from(SYN), min_size=2, max_size=6))
            acc.extra["types"] += 1

            def body(x, tname=tname, t=t, feats=feats, plain=plain, ttext=ttext):
                v, chain = x
                chain2 = []
                vfeats = feats | pipeline.value_features(mod, t, v)
                for s in chain:
                    k = known_skip(vfeats, s)
                    if k:
                        acc.excluded["known:" + k] += 1
                    else:
                        chain2.append(s)
                if not chain2:
                    return
                chain = chain2
                refder = ref_ber.encode(mod, t, v)
                replay = {"module": mod.subset([tname]).to_json(), "type": tname, "value": val_to_json(v),
                          "chain": chain, "refder": refder.hex()}
                try:
                    reply = sess.cmd("rt %s %s %s" % (tname, drv.hexs(refder), ",".join(chain)))
                except drv.DriverCrash as e:
                    raise Fail(h(ttext, "crash"), "driver crashed/hung during round trip of %s value %s chain %s: %s"
                               % (tname, val_repr(v), chain, str(e)[-1500:]), replay)
                probs = check_rt(reply, chain, refder, None)
                if probs is None:
                    acc.excluded["inject-failed"] += 1
                    acc.notes.append("BER decoder refused reference DER %s for %s ::= %s" % (refder.hex()[:200], tname, ttext[:300]))
                    return
                nocodec = sum(1 for i in range(len(chain)) if reply.get("s%d" % i) == "nocodec")
                if nocodec:
                    acc.excluded["nocodec-step"] += nocodec
                nt = None
                if not plain and not pipeline.trivial_value(v) and nocodec < len(chain):
                    nt = h(ttext, val_to_json(v), chain)
                acc.case(nt, list(feats) + ["chain.%d" % len(chain)] + ["syn." + s for s in set(chain)])
                if probs:
                    cls = probs[0][0]
                    raise Fail(h(ttext, cls), "%s ::= %s\nvalue %s chain %s\n%s" % (
                        tname, ttext, val_repr(v), ",".join(chain), "\n".join(p[1] for p in probs)), replay)
                if acc.evaluations % 97 == 1:
                    acc.sample({"type": "%s ::= %s" % (tname, ttext[:300]), "value": val_repr(v, 120), "chain": chain,
                                "der": refder.hex()[:120]})
            f = None
            if mod.name.startswith("Cat"):
                # catalogue types: every boundary value through the two longest chains before the random draws
                for bv in gen.boundary_values(mod, t):
                    for chain_ in (["uper", "oer", "xer", "der"], ["der", "cxer", "oer", "uper"]):
                        acc.extra["catalogue_boundary_cases"] += 1
                        try:
                            body((bv, chain_))
                        except Fail as e:
                            f = e
                            break
                    if f is not None:
                        break
            if f is None:
                f = pipeline.run_given(strat, body, nvalues, wseed * 1000 + ti)
            if f is not None:
                if f.key == "flaky":
                    acc.notes.append(f.summary[:500])
                else:
                    try:
                        f = minimise(f, 40 if nvalues > 60 else 14)
                    except Exception as e:
                        acc.notes.append("minimise failed: %r" % (e,))
                    acc.violation(f.key, f.summary, f.replay)
                if len(acc.violations) >= 4:
                    break
        rc, err = sess.close()
        if rc != 0 or "ERROR" in err:
            acc.notes.append("driver exit status %s: %s" % (rc, err[-800:]))
            acc.extra["driver_nonzero_exit"] += 1
    finally:
        mb.cleanup()
    return acc


def eval_case(mod, tname, v, chain):
    """Fresh build + process; returns the failure class of the case or None."""
    refder = ref_ber.encode(mod, mod.lookup(tname), v)
    with drv.ModuleBuild(mod.render()) as mb:
        d = mb.driver()
        try:
            reply = d.cmd("rt %s %s %s" % (tname, drv.hexs(refder), ",".join(chain)))
        except drv.DriverCrash:
            return "crash"
        finally:
            d.kill()
    probs = check_rt(reply, chain, refder, None)
    return probs[0][0] if probs else None


def minimise(f, budget):
    """Type-level reduction of a Hypothesis-shrunk failure; returns a new Fail."""
    from . import reduce
    case = f.replay
    mod = Module.from_json(case["module"])
    v = val_from_json(case["value"])
    chain = case["chain"]
    cls = eval_case(mod, case["type"], v, chain)
    if cls is None:
        return f
    m2, n2, v2, log = reduce.reduce_case(mod, case["type"], v,
                                         lambda m, n, x: eval_case(m, n, x, chain) == cls, budget)
    if not log:
        return f
    refder = ref_ber.encode(m2, m2.lookup(n2), v2)
    replay = {"module": m2.to_json(), "type": n2, "value": val_to_json(v2), "chain": chain, "refder": refder.hex()}
    violated, text = replay_case(replay)
    if not violated:
        return f
    return Fail(f.key, "%s ::= %s\nvalue %s chain %s\n%s\n[reduced from a larger type by: %s]" % (
        n2, m2.lookup(n2).render(), val_repr(v2), ",".join(chain), text, " ".join(log)), replay)


def replay_case(case):
    """Re-run one saved case in a fresh build/process.  Returns (violated, text)."""
    mod = Module.from_json(case["module"])
    with drv.ModuleBuild(mod.render()) as mb:
        d = mb.driver()
        try:
            reply = d.cmd("rt %s %s %s" % (case["type"], case["refder"], ",".join(case["chain"])))
        except drv.DriverCrash as e:
            return True, str(e)[-2000:]
        finally:
            d.kill()
        probs = check_rt(reply, case["chain"], bytes.fromhex(case["refder"]), None)
        if probs:
            return True, "\n".join(p[1] for p in probs)
        return False, reply["_raw"][:500]


def main(argv):
    from . import runner
    return runner.run_module_check(PID, "exploration", RULE, worker, replay_case, argv,
                                   n_modules=(16, 200), n_values=(40, 100),
                                   extra_modules=[m for m in gen.catalogue() if m.name in ("CatBig", "CatChoice", "CatOpt")],
                                   assumptions=["reference DER encoder (vf/ref_ber.py) is the value injection path",
                                                "value generators cover the documented native-type ranges only "
                                                "(64-bit INTEGER without -fwide-types)"])


if __name__ == "__main__":
    sys.exit(main(sys.argv[1:]))
