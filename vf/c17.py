"""C17 — OBJECT IDENTIFIER arc helpers and GeneralizedTime/UTCTime helpers (rapidcheck binary c/c17.cpp).

The binary is built from /verif/c/c17.cpp against the skeleton library of /repo's working tree (ASan+UBSan) and
run as independent processes: one OID sweep, several OID rapidcheck runs, and for every time zone one sweep plus
rapidcheck runs (TZ is a per-process setting).  Every case is a one-line text; a failing (shrunk) case line is the
replay unit.
"""
import hashlib
import json
import os
import re
import shutil
import subprocess
import sys
import time
from collections import Counter
from concurrent.futures import ThreadPoolExecutor

from . import build, runner
from .common import KNOWN, NCPU, Check

PID = "C17"
ZONES = ["UTC", "Asia/Kolkata", "America/St_Johns", "Australia/Lord_Howe", "America/New_York", "Pacific/Kiritimati",
         "Pacific/Niue"]
RULE = ("OID: arc vectors of length 2..20 (first arc 0..2; second arc 0..39, for first arc 2 up to 2^32-81 incl. the values "
        "where 80+b crosses 2^7/2^14/2^21/2^28/2^31/2^32-1; further arcs: the boundary set {0,1,127,128,16383,16384,2^21-1,"
        "2^21,2^28-1,2^28,2^32-1} exhaustively for 1..4 arcs and at every position of every length, plus rapidcheck-random "
        "arcs): OBJECT_IDENTIFIER_set_arcs stores exactly the octets of an independent X.690 8.19 encoder, get_arcs returns "
        "the vector and the documented count for every slot count (untouched slots beyond), parse_arcs of the dotted text "
        "(also with leading/trailing white space, explicit length on an unterminated buffer) returns it, text arcs above "
        "2^32-1 give -1, invalid first pairs give -1/ERANGE and leave the object alone; get_arcs on arbitrary contents "
        "octets (0x80-padded, > 32-bit, cut, empty) returns the reference decoding or -1 and never crashes; RELATIVE-OID "
        "likewise without the first-pair rule; set/get_single_arc against the same encoder.  Time: time_t from 0001-01-01 to "
        "9999-12-31 (boundaries 0, +-1, 2^31-1, 2^31, 2^32, leap days, 1950/2049/1960/2059 window edges, every year's first/"
        "last second, every half hour of 2023-2024) x fraction value/digits 0..9 under each TZ in %s: asn_time2GT[_frac]("
        "localtime_r(t), force_gmt=1) equals the text YYYYMMDDHHMMSS[.f]Z of an independent civil-from-days conversion and "
        "carries exactly the fraction, the same for a struct tm from gmtime_r; asn_GT2time/_frac/_prec return t (and the "
        "fraction), fill struct tm as GMT or local as documented; asn_time2UT gives YYMMDDHHMMSSZ and asn_UT2time returns t "
        "inside the implementation's 1960..2059 window.  non-trivial = >= 3 arcs with one >= 128 (or a refused/padded octet "
        "string), t outside 1970; distinct by (TZ, case line)" % ",".join(ZONES))
ASSUMPTIONS = [
    "time_t is restricted to years 1..9999 and to values where this libc's gmtime_r/timegm agree with the proleptic Gregorian "
    "civil-from-days algorithm and localtime_r's fields are consistent with its tm_gmtoff (checked per case, discards counted)",
    "non-forced-GMT output (local time with +hhmm offset) is outside the statement",
    "asn_UT2time's window is the implementation's (YY >= 60 is 19YY, else 20YY): 1950..1959 and 2050..2059 are only run, "
    "round trip is asserted for 1960..2059",
    "trailing-zero stripping of the fraction text is not asserted (the header promises no canonical fraction form), only that "
    "the text carries the same fraction value",
    "t = -1 (19691231235959Z): only the returned value is compared; the result coincides with the documented error value and "
    "the library takes its error path (errno EINVAL, struct tm and fraction not filled)",
    "a 0x80-padded (non-minimal) subidentifier may be decoded or refused; white space around the dotted text is accepted as "
    "pinned by tests/tests-skeletons/check-OIDs.c",
    "{2 b} with b > 2^32-81 is refused by set_arcs (32-bit first subidentifier): -1 or the exact X.690 octets are accepted",
]
# class name -> what is excluded by construction when known_findings.txt lists it for C17
KNOWN_CLASSES = {
    "oid.subid-overflow.silent-wrap": "contents octets with a subidentifier above 2^32-1 are not generated",
}
SAN_EXIT = 77


def derive_seed(seed, idx):
    return (seed * 1000003 + idx * 7919 + 12345) % (1 << 62)


# ------------------------------------------------------------------ build
def binary():
    obj = build.helper_obj("c17.cpp", "asan", cxx=True)
    lib = build.skel_lib("asan")
    key = hashlib.sha1((os.path.basename(obj) + "|" + lib).encode()).hexdigest()[:16]
    bdir = os.path.join(build.BUILD_ROOT, "c17-" + key)
    exe = os.path.join(bdir, "c17")
    if os.path.exists(exe):
        return exe
    with build.Lock("c17"):
        if os.path.exists(exe):
            return exe
        os.makedirs(bdir, exist_ok=True)
        tmp = exe + ".tmp%d" % os.getpid()
        build._run([build.CLANGXX] + build.VARIANT_FLAGS["asan"] + [obj, lib, "-lrapidcheck", "-lm", "-o", tmp],
                   what="link c17")
        os.rename(tmp, exe)
        build._prune(bdir)
    return exe


def run_env(tz):
    env = dict(os.environ)
    env["ASAN_OPTIONS"] = "exitcode=%d:detect_leaks=1:abort_on_error=0" % SAN_EXIT
    env["UBSAN_OPTIONS"] = "print_stacktrace=1"
    env["LSAN_OPTIONS"] = "exitcode=%d" % SAN_EXIT
    env.pop("RC_PARAMS", None)
    if tz:
        env["TZ"] = tz
    else:
        env["TZ"] = "UTC"
    return env


# ------------------------------------------------------------------ one process
def parse_output(text):
    r = {"count": Counter(), "cls": Counter(), "assume": Counter(), "samples": [], "fails": [], "crash": None,
         "eval": 0, "nt": 0, "distinct": 0, "result": None}
    for ln in text.splitlines():
        k, _, rest = ln.partition(" ")
        if k == "COUNT":
            n, v = rest.rsplit(" ", 1)
            r["count"][n] += int(v)
        elif k == "CLASS":
            n, v = rest.rsplit(" ", 1)
            r["cls"][n] += int(v)
        elif k == "ASSUME":
            n, v = rest.rsplit(" ", 1)
            r["assume"][n] += int(v)
        elif k == "SAMPLE":
            r["samples"].append(rest)
        elif k == "FAIL":
            line, _, msg = rest.partition(" :: ")
            r["fails"].append((line, msg))
        elif k == "CRASH-CASE":
            r["crash"] = rest
        elif k == "EVAL":
            r["eval"] = int(rest)
        elif k == "NT":
            r["nt"] = int(rest)
        elif k == "DISTINCT":
            r["distinct"] = int(rest)
        elif k == "RESULT":
            r["result"] = rest
    return r


def run_job(exe, job, rundir):
    """job: dict(name, part, mode, seed, cases, tz, exclude)"""
    ntfile = os.path.join(rundir, job["name"].replace("/", "_") + ".nt")
    cmd = [exe, "--part", job["part"], "--mode", job["mode"], "--seed", str(job["seed"]), "--cases", str(job["cases"]),
           "--max-size", "100", "--nt-file", ntfile]
    if job["exclude"]:
        cmd += ["--exclude", ",".join(job["exclude"])]
    env = run_env(job["tz"])
    if job["mode"] == "random":
        env["RC_PARAMS"] = "seed=%d max_success=%d max_size=100" % (job["seed"], job["cases"])
    t0 = time.time()
    try:
        p = subprocess.run(cmd, env=env, stdout=subprocess.PIPE, stderr=subprocess.PIPE, timeout=3600)
        rc, out, err = p.returncode, p.stdout.decode(errors="replace"), p.stderr.decode(errors="replace")
    except subprocess.TimeoutExpired as e:
        rc, out, err = -999, (e.stdout or b"").decode(errors="replace"), "timeout"
    r = parse_output(out)
    r.update(rc=rc, err=san_report(err), wall=time.time() - t0, job=job, ntfile=ntfile)
    return r


_SAN = re.compile(r"ERROR: AddressSanitizer|ERROR: LeakSanitizer|runtime error:|Assertion")


def san_report(err):
    """The informative part of stderr: from the sanitizer/assert headline on, else the tail."""
    m = _SAN.search(err)
    if m:
        start = err.rfind("\n", 0, m.start()) + 1
        return err[start:start + 3000]
    return err[-3000:]


def replay_case(case):
    """Re-run exactly one case line in a fresh process. Returns (violated, text)."""
    exe = binary()
    d = os.path.join(os.path.dirname(exe), "replay-%d-%d" % (os.getpid(), time.time_ns()))
    os.makedirs(d, exist_ok=True)
    try:
        f = os.path.join(d, "case.txt")
        with open(f, "w") as fh:
            fh.write(case["line"] + "\n")
        p = subprocess.run([exe, "--mode", "replay", "--file", f], env=run_env(case.get("tz")), stdout=subprocess.PIPE,
                           stderr=subprocess.PIPE, timeout=600)
    finally:
        shutil.rmtree(d, ignore_errors=True)
    out, err = p.stdout.decode(errors="replace"), p.stderr.decode(errors="replace")
    text = "TZ=%s %s\n%s" % (case.get("tz") or "UTC", case["line"], "\n".join(
        ln for ln in out.splitlines() if ln.split(" ", 1)[0] in ("FAIL", "PASS", "CRASH-CASE", "ERROR", "RESULT")))
    if p.returncode == 0:
        return False, text
    if p.returncode == 1:
        return True, text
    if p.returncode in (2, 3):
        raise RuntimeError("c17 replay could not run (exit %d): %s %s" % (p.returncode, out[-500:], err[-500:]))
    return True, text + "\nprocess died with exit code %d:\n%s" % (p.returncode, san_report(err)[:2500])


_NORM = re.compile(r"\b[0-9a-fA-F]{2,}\b|-?\d+")
_NORM2 = re.compile(r"#(?:[-.\s,/:]*#)+")


def norm(msg):
    """Message with every number / hex string / dotted vector collapsed: one violation per kind of failure."""
    return _NORM2.sub("#", _NORM.sub("#", msg))


def fail_key(line, msg):
    kind = line.split(" ", 1)[0]
    return kind + ":" + norm(msg)[:160]


class DistinctKeys(set):
    """The distinct non-trivial case hashes, held as a sorted numpy uint64 array (10^7 Python ints would cost ~1 GB);
    len() is the number of distinct keys."""

    def __init__(self, arr):
        super().__init__()
        self.arr = arr

    def __len__(self):
        return int(self.arr.size)

    def __iter__(self):
        return (int(x) for x in self.arr)

    def __bool__(self):
        return self.arr.size > 0


def distinct_keys(files):
    try:
        import numpy as np
    except ImportError:
        from array import array
        s = set()
        for f in files:
            if not os.path.exists(f):
                continue
            a = array("Q")
            with open(f, "rb") as fh:
                a.frombytes(fh.read())
            s.update(a)
        return s
    arrs = [np.fromfile(f, dtype=np.uint64) for f in files if os.path.exists(f)]
    if not arrs:
        return set()
    return DistinctKeys(np.unique(np.concatenate(arrs)))


# ------------------------------------------------------------------ main
def plan(chk, exclude):
    q = not chk.thorough
    oid_procs, oid_cases = (4, 20000) if q else (6, 120000)          # cases per sub-property (5 of them) and process
    time_procs, time_cases = (1, 60000) if q else (2, 450000)       # per zone
    # shorten/lengthen while testing the check itself
    oid_cases = int(os.environ.get("VERIF_C17_OID_CASES") or oid_cases)
    time_cases = int(os.environ.get("VERIF_C17_TIME_CASES") or time_cases)
    jobs = []

    def add(name, part, mode, cases, tz):
        jobs.append({"name": name, "part": part, "mode": mode, "cases": cases, "tz": tz, "exclude": exclude,
                     "seed": derive_seed(chk.seed, len(jobs))})
    # long jobs first
    for i in range(oid_procs):
        add("oid-random-%d" % i, "oid", "random", oid_cases, None)
    for z in ZONES:
        for i in range(time_procs):
            add("time-random-%s-%d" % (z, i), "time", "random", time_cases, z)
    for z in ZONES:
        add("time-sweep-%s" % z, "time", "sweep", 0, z)
    add("oid-sweep", "oid", "sweep", 0, None)
    return jobs


def main(argv):
    a = runner.parse_args(argv)
    try:
        t0 = time.time()
        exe = binary()
        build_s = time.time() - t0
    except build.BuildError as e:
        print("ERROR: %s" % e)
        return 2
    if a.replay:
        return runner.do_replay(PID, replay_case, a.replay)
    chk = Check(PID, "exploration", RULE, ASSUMPTIONS)
    chk.extra_coverage["build_s"] = round(build_s, 1)
    chk.extra_coverage["repo"] = build.REPO
    exclude = []
    for cls in KNOWN_CLASSES:
        if KNOWN.is_known(PID, cls):
            exclude.append(cls)
            chk.acc.excluded["known:" + cls] += 1
    t1 = time.time()
    runner.regression_and_probes(chk, replay_case)
    chk.extra_coverage["replays_and_probes_s"] = round(time.time() - t1, 1)

    rundir = os.path.join(os.path.dirname(exe), "run-%d-%d" % (os.getpid(), time.time_ns()))
    os.makedirs(rundir, exist_ok=True)
    try:
        jobs = plan(chk, exclude)
        t1 = time.time()
        with ThreadPoolExecutor(max_workers=a.workers or NCPU) as ex:
            results = list(ex.map(lambda j: run_job(exe, j, rundir), jobs))
        chk.extra_coverage["pool_s"] = round(time.time() - t1, 1)
        acc = chk.acc
        per_job = {}
        groups = {}
        samples = {}
        for r in results:
            job = r["job"]
            per_job[job["name"]] = {"cases": r["eval"], "distinct": r["distinct"], "nontrivial": r["nt"],
                                    "wall_s": round(r["wall"], 1), "seed": job["seed"], "exit": r["rc"]}
            acc.evaluations += r["eval"]
            acc.classes.update(r["cls"])
            acc.extra.update(r["count"])
            for k, v in r["assume"].items():
                acc.excluded["assume:" + k] += v
            samples.setdefault(job["part"] + ":" + (job["tz"] or ""), []).extend(r["samples"])
            if job["part"] == "time":
                acc.extra["zone.%s" % job["tz"]] += r["eval"]
            for line, msg in r["fails"]:
                k = fail_key(line, msg)
                if k not in groups or len(line) < len(groups[k][0]):
                    groups[k] = (line, msg, job)
            if r["rc"] not in (0, 1):
                if r["crash"]:
                    k = "crash:" + r["crash"].split(" ", 1)[0] + ":" + norm((re.findall(
                        r"(?:ERROR: AddressSanitizer: [^\n]*|runtime error: [^\n]*|Assertion[^\n]*)", r["err"]) or ["died"])[0])[:120]
                    if k not in groups or len(r["crash"]) < len(groups[k][0]):
                        groups[k] = (r["crash"], "process died (exit %d) while running this case:\n%s" % (r["rc"], r["err"][:1500]), job)
                else:
                    chk.error("job %s exited %d without a case: %s" % (job["name"], r["rc"], r["err"][-1500:]))
            elif r["result"] not in ("ok", "fail"):
                chk.error("job %s printed no RESULT line (exit %d): %s" % (job["name"], r["rc"], r["err"][-800:]))
            elif r["rc"] == 1 and not r["fails"]:
                chk.error("job %s failed without a FAIL line: %s" % (job["name"], r["err"][-800:]))
        # round-robin samples over the parts/zones
        pools = [sorted(v, key=lambda t: hashlib.sha1(t.encode()).hexdigest()) for _, v in sorted(samples.items())]
        i = 0
        while len(acc.samples) < 24 and any(pools):
            p = pools[i % len(pools)]
            if p:
                acc.samples.append(p.pop())
            i += 1
        acc.nontrivial = distinct_keys([r["ntfile"] for r in results])
        chk.extra_coverage["jobs"] = per_job
        for k, (line, msg, job) in sorted(groups.items()):
            tz = job["tz"] if job["part"] == "time" else None
            acc.violation(k, "%s%s\n%s" % ("TZ=%s " % tz if tz else "", line, msg), {"line": line, "tz": tz})
        t1 = time.time()
        runner.confirm(chk, replay_case)
        chk.extra_coverage["confirm_s"] = round(time.time() - t1, 1)
    finally:
        shutil.rmtree(rundir, ignore_errors=True)
    if os.environ.get("VERIF_C17_OID_CASES") or os.environ.get("VERIF_C17_TIME_CASES"):
        acc.notes.append("case counts overridden by VERIF_C17_OID_CASES/VERIF_C17_TIME_CASES (testing the check itself)")
        return chk.finish(min_evaluations=200000, min_nontrivial=100000)
    return chk.finish(min_evaluations=chk.pick(200000, 10000000), min_nontrivial=chk.pick(100000, 5000000))


if __name__ == "__main__":
    sys.exit(main(sys.argv[1:]))
