"""C11 - ambiguous or inconsistent specifications are rejected, unambiguous ones accepted.

Generator: small modules built constructively (every CHOICE / SET / OPTIONAL run gets distinct tags while it is being
built, with the tag sets computed by vf/ref_tags.py), then at most ONE fault from a catalogue applied at positions drawn by
Hypothesis.  Oracle: vf/ref_tags.analyse() says accept / reject; the asn1c built from the working tree must exit 0 iff
accept, and on reject leave by exit() with a non-zero status, say something on stderr and create no file.
"""
import json
import os
import re
import shutil
import subprocess
import sys
import time

from hypothesis import given, settings, HealthCheck, Phase, seed as hseed, strategies as st

from . import build, drv, runner, ref_tags
from .common import Check, Acc, run_pool, KNOWN, h, NCPU
from .model import T, Member, Module

PID = "C11"
RULE = ("one evaluation = one generated module text compiled by asn1c in a fresh empty directory and compared with the verdict "
        "of the independent X.680 reference (vf/ref_tags.py); a module is non-trivial when it contains at least one CHOICE, SET "
        "or OPTIONAL/DEFAULT run of a SEQUENCE with two or more components whose distinctness depends on a tag that is not "
        "literally written on the component (automatic tagging, a type reference, a nested untagged CHOICE, or the universal "
        "tag of an untagged built-in type under the module's tagging default); distinct by module text")

# ---------------------------------------------------------------------------------------------------------------------
# known findings: class -> predicate over the case descriptor (dict with 'fault', 'feats', 'expect').  A class listed in
# known_findings.txt (or named in VERIF_C11_ASSUME_KNOWN, a test-only override used to demonstrate the green path
# before the entry exists) is excluded by construction and counted.
KNOWN_CLASSES = {
    # asn1f_fix_enum() starts 'max_value_ext' at -1: an addition after "..." with a negative number is "not greater than
    # previous values (max -1)" although no addition precedes it
    "enum.addition-negative": lambda info: info["expect"] == "accept" and "enum.addition-negative" in info["feats"],
    # _asn1f_compare_tags() marks both components with TM_RECURSION before it retries with swapped arguments, and
    # asn1f_fetch_tags_impl() refuses to follow a marked type reference: 'CHOICE { a A, b C }' with A ::= INTEGER and
    # C ::= CHOICE { x INTEGER, ... } is accepted (the reverse order is rejected)
    "tag.bare-ref-vs-choice-ref": lambda info: info["expect"] == "reject" and "tag.bare-ref-vs-choice-ref" in info["feats"],
}


def _leaves(an, t, out, trail=()):
    """The components/alternatives that contribute the outermost tags of t, looking through untagged CHOICEs (inline or
    referenced): (kind of leaf, tags) with kind 'bare-ref' for an untagged type reference to something that is not an
    untagged CHOICE, else 'other'."""
    if t.tag is not None:
        out.append(("other", an.tags_of(t)))
        return
    if t.kind == "REF":
        if an.untagged_choice(t):
            target = an.defs[t.ref]
            if t.ref not in trail:
                _leaves(an, target, out, trail + (t.ref,))
        else:
            out.append(("bare-ref", an.tags_of(t)))
        return
    if t.kind == "CHOICE":
        if an.automatic(t):
            out.append(("other", an.tags_of(t)))
        else:
            for m in t.members:
                _leaves(an, m.type, out, trail)
        return
    out.append(("other", an.tags_of(t)))


def masked_by_reference_mark(mod, probs):
    """Known class tag.bare-ref-vs-choice-ref: every collision the reference reports is between an EARLIER component whose
    colliding tag comes from an untagged type reference (directly or as an alternative of an untagged CHOICE it looks
    through) and a LATER component that is an untagged type reference to an untagged CHOICE."""
    tagp = [p for p in probs if p.in_statement]
    if not tagp or any(p.data is None for p in tagp):
        return False
    an = ref_tags.Analysis(mod)
    try:
        for p in tagp:
            t, i, j, common = p.data
            tj = t.members[j].type
            if not (tj.tag is None and tj.kind == "REF" and an.untagged_choice(tj)):
                return False
            out = []
            _leaves(an, t.members[i].type, out)
            hit = [k for k, tags in out if tags & common]
            if not hit or any(k != "bare-ref" for k in hit):
                return False
    except (ref_tags.Unresolved, ref_tags.Loop):
        return False
    return True


def features(mod, probs=()):
    """Shape features of a module that known-finding predicates look at."""
    feats = set()
    if masked_by_reference_mark(mod, probs):
        feats.add("tag.bare-ref-vs-choice-ref")

    def walk(t):
        if t.kind == "ENUMERATED" and not t.flags.get("bare") and any(v < 0 for _, v in t.ext_named):
            feats.add("enum.addition-negative")
        for m in t.members:
            walk(m.type)
        if t.elem is not None:
            walk(t.elem)
    for _, t in mod.types:
        walk(t)
    return feats


def _assumed():
    return set(x for x in os.environ.get("VERIF_C11_ASSUME_KNOWN", "").split(",") if x)


def listed(cls):
    return KNOWN.is_known(PID, cls) or cls in _assumed()


def known_class_of(info):
    for cls, pred in KNOWN_CLASSES.items():
        if listed(cls) and pred(info):
            return cls
    return None


# ---------------------------------------------------------------------------------------------------------------------
# rendering (the shared model always writes '<default> TAGS'; an empty TagDefault is rendered here)
def render(mod):
    text = mod.render()
    if mod.tagdefault == "NONE":
        text = text.replace("DEFINITIONS NONE TAGS ::=", "DEFINITIONS ::=", 1)
    return text


# ---------------------------------------------------------------------------------------------------------------------
# running the compiler the way drv.run_asn1c does (same flags), but with stderr kept apart and the directories watched
TAGGISH = re.compile(r"same tag|Clash detected|collides with previous|Unknown type|tagged in IMPLICIT|extensions are tagged|"
                     r"Enumeration|not greater than|Second extension|identifier|dangerously incompatible|AUTOMATIC TAGS", re.I)


def compile_text(text, exe=None, keep=False):
    exe = exe or build.asn1c_binary()
    work = drv.mkwork("c11")
    try:
        src = os.path.join(work, "m.asn1")
        with open(src, "w") as f:
            f.write(text)
        gen = os.path.join(work, "gen")
        cwd = os.path.join(work, "cwd")
        os.mkdir(gen)
        os.mkdir(cwd)
        cmd = [exe, "-S", os.path.join(build.REPO, "skeletons"), "-D", gen, "-pdu=all"] + list(drv.DEFAULT_FLAGS) + [src]
        try:
            if not os.path.exists(exe):          # the build cache was pruned under us (the tree changed): rebuild
                exe = cmd[0] = build.asn1c_binary()
            r = subprocess.run(cmd, stdout=subprocess.PIPE, stderr=subprocess.PIPE, cwd=cwd, timeout=120)
            rc, out, err = r.returncode, r.stdout.decode(errors="replace"), r.stderr.decode(errors="replace")
        except subprocess.TimeoutExpired:
            rc, out, err = -999, "", "TIMEOUT"
        files = []
        for top in (gen, cwd):
            for dp, dn, fn in os.walk(top):
                for x in fn + dn:
                    files.append(os.path.relpath(os.path.join(dp, x), work))
        return {"rc": rc, "stdout": out, "stderr": err, "files": sorted(files),
                "cmd": "asn1c -S <repo>/skeletons -D gen -pdu=all %s m.asn1" % " ".join(drv.DEFAULT_FLAGS)}
    finally:
        if not keep:
            shutil.rmtree(work, ignore_errors=True)


def judge(expect, res):
    """-> (kind, text) ; kind None = the property holds on this module, 'generator' = unrelated rejection."""
    rc, err, files = res["rc"], res["stderr"], res["files"]
    if rc == -999:
        return "timeout", "asn1c did not finish within 120 s"
    if rc < 0:
        return "signal", "asn1c was killed by signal %d instead of leaving through exit(); stderr: %s" % (-rc, err[-600:])
    if expect == "reject":
        if rc == 0:
            return "accepted", "asn1c exit status 0 (and %d files written) for a module the reference rejects" % len(files)
        if not err.strip():
            return "no-diagnostic", "asn1c exit status %d but nothing on stderr" % rc
        if files:
            return "wrote-files", "asn1c exit status %d but it created %d files: %s" % (rc, len(files), ", ".join(files[:8]))
        return None, "rejected (status %d): %s" % (rc, err.strip().splitlines()[0][:200])
    if rc == 0:
        return None, "accepted"
    if TAGGISH.search(err):
        return "rejected", "asn1c exit status %d for a module the reference accepts: %s" % (rc, err.strip()[:800])
    return "generator", "asn1c exit status %d for a reason unrelated to the property: %s" % (rc, err.strip()[:800])


# ---------------------------------------------------------------------------------------------------------------------
# generator
LEAF_KINDS = ["BOOLEAN", "INTEGER", "NULL", "REAL", "OCTETSTRING", "BITSTRING", "OID", "RELOID", "UTF8String", "IA5String",
              "ENUMERATED", "SEQ", "SETK", "SEQOF", "SETOF", "T61String", "TeletexString", "NumericString",
              "PrintableString", "VisibleString", "UTCTime", "GeneralizedTime", "BMPString", "UniversalString",
              "GeneralString", "GraphicString", "VideotexString", "ObjectDescriptor"]
TAG_NUMS = [0, 1, 2, 3, 4, 5, 6, 7, 9, 10, 16, 17, 30, 31, 127, 128, 16383, 16384, (1 << 30) - 1]
CLASSES = ["CONTEXT", "CONTEXT", "CONTEXT", "APPLICATION", "PRIVATE"]
NAMES = list("abcdefghijklmnopqrstuvwxyz") + ["long-name", "int", "class", "a-b-c", "value", "present", "list", "id1"]
BY_UNIVERSAL = {}
for _k, _n in ref_tags.UNIVERSAL_NUMBER.items():
    if _k in LEAF_KINDS or _k in ("SEQUENCE", "SET", "SEQOF", "SETOF"):
        BY_UNIVERSAL.setdefault(_n, []).append(_k)


def leaf(kind, d=None):
    """A small type of the given 'leaf kind' (what matters to this property is only its universal tag)."""
    if kind == "SEQ":
        return T("SEQUENCE", members=[Member("x", T("INTEGER"))])
    if kind == "SETK":
        return T("SET", members=[Member("x", T("BOOLEAN"))])
    if kind == "SEQUENCE":
        return T("SEQUENCE", members=[Member("x", T("INTEGER"))])
    if kind == "SET":
        return T("SET", members=[Member("x", T("BOOLEAN"))])
    if kind == "SEQOF":
        return T("SEQOF", elem=T("INTEGER"))
    if kind == "SETOF":
        return T("SETOF", elem=T("BOOLEAN"))
    if kind == "ENUMERATED":
        return T("ENUMERATED", named=[("e0", 0), ("e1", 1)], flags={"bare": True})
    return T(kind)


def with_tag(t, tag):
    return T(t.kind, tag, t.cons, t.size, t.alpha, t.members, t.ext, t.named, t.ext_named, t.elem, t.ref, t.flags)


def strip_tag(t):
    return with_tag(t, None) if t.tag is not None else t


class Builder:
    """Constructive module builder; every decision is a Hypothesis draw."""

    def __init__(self, draw):
        self.draw = draw
        self.default = draw(st.sampled_from(["EXPLICIT", "IMPLICIT", "AUTOMATIC", "AUTOMATIC", "NONE"]))
        self.mod = Module("M", self.default, [])
        self.late = []
        self.kinds = draw(st.lists(st.sampled_from(LEAF_KINDS), min_size=2, max_size=5, unique=True))
        self.fresh = 0
        self._an = None
        self.avoided = []

    # ---- reference computations over the module built so far (plus the late types)
    def an(self):
        if self._an is None:
            self._an = ref_tags.Analysis(Module("M", self.default, self.mod.types + self.late))
        return self._an

    def define(self, name, t, late=False):
        (self.late if late else self.mod.types).append((name, t))
        self._an = None

    def tagset(self, t):
        return self.an().tags_of(t)

    def chainless(self, t):
        return self.an().untagged_choice(strip_tag(t))

    def names(self):
        return [n for n, _ in self.mod.types] + [n for n, _ in self.late]

    # ---- draws
    def i(self, lo, hi):
        return self.draw(st.integers(lo, hi))

    def pick(self, xs):
        return self.draw(st.sampled_from(xs))

    def new_tag(self, t, forbidden, prefer_number=None):
        """A written tag for t that is not in `forbidden`."""
        cls = self.pick(CLASSES)
        if prefer_number is not None and self.i(0, 1):
            num = prefer_number
        else:
            num = self.pick(TAG_NUMS) if self.i(0, 3) == 0 else self.i(0, 7)
        n = 0
        while (cls, num) in forbidden:
            num = num + 1 if num < (1 << 30) - 1 else 0
            n += 1
            if n > 64:
                cls = "PRIVATE"
                num = 1000 + self.fresh
                self.fresh += 1
        modes = [None, None, "EXPLICIT"] if self.chainless(t) else [None, None, "EXPLICIT", "IMPLICIT"]
        return (cls, num, self.pick(modes))

    def leaf_type(self):
        k = self.pick(self.kinds)
        if k == "ENUMERATED":
            return self.enumerated()
        return leaf(k)

    def enumerated(self):
        n = self.i(1, 5)
        bare = self.i(0, 1) == 0
        if bare:
            named = [("e%d" % i, i) for i in range(n)]
        else:
            vals = self.draw(st.lists(st.integers(-3, 12) | st.sampled_from([-129, 127, 128, 255, 256, 65536]),
                                      min_size=n, max_size=n, unique=True))
            named = [("e%d" % i, v) for i, v in enumerate(vals)]
        t = T("ENUMERATED", named=named, flags={"bare": True} if bare else {})
        if self.i(0, 3) == 0:
            t.ext = True
            ne = self.i(0, 3)
            if bare:
                t.ext_named = [("x%d" % i, n + i) for i in range(ne)]
            else:
                used = {v for _, v in named}
                cur = max(used) + 1 if self.i(0, 2) else min(used) - 4
                if cur < 0 and listed("enum.addition-negative"):
                    # known finding: negative numbers after "..." are refused; excluded by construction, counted
                    self.avoided.append("enum.addition-negative")
                    cur = 0
                out = []
                for i in range(ne):
                    while cur in used:
                        cur += 1
                    out.append(("x%d" % i, cur))
                    used.add(cur)
                    cur += self.i(1, 3)
                t.ext_named = out
        return t

    def any_type(self, depth, cdepth, avoid=frozenset()):
        """A type for a component.  depth: nesting of constructed types, cdepth: nesting of untagged CHOICEs."""
        opts = ["leaf", "leaf", "leaf"]
        if self.names():
            opts += ["ref", "ref"]
        if cdepth < 3 and depth < 4:
            opts += ["choice", "choice"]
        if depth < 2:
            opts += ["list", "of"]
        w = self.pick(opts)
        if w == "leaf":
            t = self.leaf_type()
        elif w == "ref":
            t = T("REF", ref=self.pick(self.names()))
        elif w == "choice":
            t = self.container("CHOICE", depth + 1, cdepth + 1, avoid)
        elif w == "list":
            t = self.container(self.pick(["SEQUENCE", "SET"]), depth + 1, 0)
        else:
            t = T(self.pick(["SEQOF", "SETOF"]), elem=self.any_type(depth + 1, 0))
            if t.elem.tag is None and self.i(0, 5) == 0:
                t.elem = with_tag(t.elem, self.new_tag(t.elem, ()))
        if self.i(0, 4) == 0:
            t = with_tag(t, self.new_tag(t, avoid))
        return t

    def container(self, kind, depth, cdepth, avoid=frozenset()):
        n = self.i(1 if kind == "CHOICE" else 0, 5)
        if kind != "SEQUENCE" and n < 2 and self.i(0, 2):
            n = 2
        names = self.draw(st.lists(st.sampled_from(NAMES), min_size=n, max_size=n, unique=True))
        ext = self.i(0, 3) == 0
        if kind == "CHOICE" and ref_tags.OPEN in avoid:
            ext = False        # a second extension insertion point next to the enclosing one would be ambiguous (X.680 52.7)
        n_ext = self.i(0, min(2, n - 1)) if ext and n >= 2 else 0
        auto_style = self.default == "AUTOMATIC" and self.i(0, 2) > 0
        mem = []
        t = T(kind, ext=ext)
        t.members = mem
        # which root component carries a written tag when automatic tagging is to be switched off
        n_root = n - n_ext
        forced = self.i(0, n_root - 1) if (self.default == "AUTOMATIC" and not auto_style and n_root > 0) else None
        if self.default == "AUTOMATIC" and n_root == 0:
            auto_style = True
        ctx_style = not auto_style and self.i(0, 4) == 0      # every component gets a literal context tag
        add_num = None
        for j, nm in enumerate(names):
            is_add = j >= n_root
            m = Member(nm, None, ext=is_add)
            if kind != "CHOICE":
                r = self.i(0, 3)
                if r <= 1 or is_add and r == 2:
                    m.optional = True
            # tags this component must avoid
            if auto_style:
                forb = frozenset()
            elif kind == "SEQUENCE":
                forb = set()
                k = j - 1
                while k >= 0 and (mem[k].optional or mem[k].has_default or mem[k].ext):
                    forb |= self.tagset(mem[k].type)
                    k -= 1
                forb = frozenset(forb)
            else:
                forb = set(avoid)
                for p in mem:
                    forb |= self.tagset(p.type)
                forb = frozenset(forb)
            if ext and not auto_style and (kind != "SEQUENCE" or m.optional or is_add):
                forb = forb | {ref_tags.OPEN}      # the container's own marker is an insertion point in this group
            mt = self.any_type(depth, cdepth if kind == "CHOICE" else 0, forb)
            if auto_style:
                mt = strip_tag(mt)
            else:
                must = ctx_style or j == forced or (kind == "CHOICE" and is_add)
                if not must and self.tagset(mt) & forb:
                    must = True
                if must:
                    base = strip_tag(mt)
                    if kind == "CHOICE" and is_add:
                        # additions of a CHOICE in ascending canonical tag order: context tags above everything before
                        top = max([x[1] for x in forb if x[0] == "CONTEXT"] + [-1])
                        top = min(top, (1 << 30) - 20)
                        add_num = max(top, -1 if add_num is None else add_num) + 1 + self.i(0, 2)
                        mode = self.pick([None, "EXPLICIT"] if self.chainless(base) else [None, "EXPLICIT", "IMPLICIT"])
                        mt = with_tag(base, ("CONTEXT", add_num, mode))
                    elif ctx_style:
                        num = j
                        while ("CONTEXT", num) in forb:
                            num += 1
                        mode = self.pick([None, "EXPLICIT"] if self.chainless(base) else [None, "EXPLICIT", "IMPLICIT"])
                        mt = with_tag(base, ("CONTEXT", num, mode))
                    else:
                        pn = None
                        if forb:
                            pn = sorted(forb)[self.i(0, len(forb) - 1)][1]       # same number in another class is fine
                        mt = with_tag(base, self.new_tag(base, forb, pn))
            m.type = mt
            if m.optional and kind != "CHOICE" and self.i(0, 2) == 0:
                self.maybe_default(m)
            mem.append(m)
        return t

    def maybe_default(self, m):
        t = m.type
        n = 0
        defs = dict(self.mod.types + self.late)
        while t.kind == "REF" and n < 50:
            t = defs[t.ref]
            n += 1
        if t.kind == "BOOLEAN":
            m.optional, m.has_default, m.default, m.default_text = False, True, True, "TRUE"
        elif t.kind == "INTEGER":
            v = self.i(-2, 9)
            m.optional, m.has_default, m.default, m.default_text = False, True, v, str(v)

    def toplevel(self):
        w = self.pick(["choice", "choice", "set", "set", "sequence", "sequence", "alias", "leaf", "of", "enum"])
        if w == "choice":
            t = self.container("CHOICE", 0, 1)
        elif w == "set":
            t = self.container("SET", 0, 0)
        elif w == "sequence":
            t = self.container("SEQUENCE", 0, 0)
        elif w == "alias" and self.names():
            t = T("REF", ref=self.pick(self.names()))
        elif w == "of":
            t = T(self.pick(["SEQOF", "SETOF"]), elem=self.any_type(1, 0))
        elif w == "enum":
            t = self.enumerated()
        else:
            t = self.leaf_type()
        if self.i(0, 3) == 0:
            t = with_tag(strip_tag(t), self.new_tag(strip_tag(t), ()))
        return t

    def build(self):
        # late types: targets of forward references, defined at the end of the module
        for i in range(self.i(0, 2)):
            w = self.i(0, 2)
            if w == 0:
                t = self.leaf_type()
            elif w == 1:
                b = self.leaf_type()
                t = with_tag(b, self.new_tag(b, ()))
            else:
                ks = self.draw(st.lists(st.sampled_from(self.kinds), min_size=2, max_size=2, unique=True))
                t = T("CHOICE", members=[Member("p", leaf(ks[0])), Member("q", leaf(ks[1]))])
                if ref_tags.UNIVERSAL_NUMBER.get(_real(ks[0])) == ref_tags.UNIVERSAL_NUMBER.get(_real(ks[1])) \
                        and self.default != "AUTOMATIC":
                    t.members[1].type = with_tag(t.members[1].type, ("CONTEXT", self.i(0, 3), None))
            self.define("L%d" % i, t, late=True)
        n = self.i(1, 7)
        for i in range(n):
            self.define("T%d" % i, self.toplevel())
        return Module("M", self.default, self.mod.types + self.late)


def _real(kind):
    return {"SEQ": "SEQUENCE", "SETK": "SET"}.get(kind, kind)


# ---------------------------------------------------------------------------------------------------------------------
# fault catalogue
def clone(mod):
    return Module.from_json(json.loads(json.dumps(mod.to_json())))


def sites(mod):
    """Every type node with its path: (path, node).  path = [type name, step, ...], step = member index or 'elem'."""
    out = []

    def walk(t, path):
        out.append((path, t))
        for i, m in enumerate(t.members):
            walk(m.type, path + [i])
        if t.elem is not None:
            walk(t.elem, path + ["elem"])
    for name, t in mod.types:
        walk(t, [name])
    return out


def node_at(mod, path):
    t = dict(mod.types)[path[0]]
    for s in path[1:]:
        t = t.elem if s == "elem" else t.members[s].type
    return t


def set_node(mod, path, new):
    if len(path) == 1:
        mod.types = [(n, new if n == path[0] else t) for n, t in mod.types]
        mod._map = None
        return
    parent = node_at(mod, path[:-1])
    if path[-1] == "elem":
        parent.elem = new
    else:
        parent.members[path[-1]].type = new


def path_str(path):
    return ".".join(str(p) for p in path)


def collision_pairs(t, an):
    """Pairs of positions whose tags the property requires to be distinct (root components; for CHOICE/SET also a root
    component against an addition)."""
    mem = t.members
    if t.kind in ("CHOICE", "SET"):
        return [(i, j) for i in range(len(mem)) for j in range(i + 1, len(mem)) if not (mem[i].ext and mem[j].ext)]
    if t.kind == "SEQUENCE":
        out = []
        for g, _ in ref_tags.Analysis.sequence_groups(mem):
            g = [i for i in g if not mem[i].ext]
            out += [(g[x], g[y]) for x in range(len(g)) for y in range(x + 1, len(g))]
        return out
    return []


FAULTS = ["coll", "coll", "coll", "coll", "auto-off", "run.add-optional", "dup.identifier", "dup.enum-name", "dup.enum-value",
          "ref.dangling"]
CARRIERS = ["retag", "literal", "universal", "ref", "tagged-ref", "nested", "nested-ref", "auto-ref"]


class Injector:
    def __init__(self, draw, base):
        self.draw = draw
        self.base = base
        self.mod = clone(base)
        self.an = ref_tags.Analysis(base)
        self.nx = 0
        self.pad = 0
        self.desc = {}

    def i(self, lo, hi):
        return self.draw(st.integers(lo, hi))

    def pick(self, xs):
        return self.draw(st.sampled_from(xs))

    def newname(self):
        self.nx += 1
        return "X%d" % self.nx

    def add_type(self, t):
        n = self.newname()
        self.mod.types.append((n, t))
        self.mod._map = None
        return n

    def pad_alt(self, name):
        self.pad += 1
        return Member(name, T("NULL", tag=("PRIVATE", 7000 + self.pad, None)))

    # ---- carriers of a given tag g
    def carry_simple(self, g, allow_universal=True):
        """literal tag or the built-in type with that universal tag"""
        cls, num = g
        if cls == "UNIVERSAL":
            kinds = BY_UNIVERSAL.get(num)
            if not kinds:
                return None
            return leaf(self.pick(sorted(kinds)))
        return with_tag(leaf(self.pick(["INTEGER", "BOOLEAN", "NULL", "OCTETSTRING", "SEQ"])),
                        (cls, num, self.pick([None, "IMPLICIT", "EXPLICIT"])))

    def carrier(self, how, g, victim):
        cls, num = g
        if how == "retag":
            if cls == "UNIVERSAL":
                return None
            base = strip_tag(victim)
            try:
                chainless = self.an.untagged_choice(base)
            except (ref_tags.Unresolved, ref_tags.Loop):
                return None
            return with_tag(base, (cls, num, self.pick([None, "EXPLICIT"] if chainless else [None, "EXPLICIT", "IMPLICIT"])))
        if how == "literal":
            return self.carry_simple(g) if cls != "UNIVERSAL" else None
        if how == "universal":
            return self.carry_simple(g) if cls == "UNIVERSAL" else None
        if how in ("ref", "tagged-ref"):
            inner = self.carry_simple(g)
            if inner is None:
                return None
            if how == "tagged-ref":
                if cls == "UNIVERSAL":
                    return None
                # the tag sits on a reference; what is behind it has another tag
                target = self.add_type(leaf(self.pick(["INTEGER", "BOOLEAN", "REAL"])))
                inner = T("REF", ref=target, tag=(cls, num, self.pick([None, "EXPLICIT", "IMPLICIT"])))
            name = self.add_type(inner)
            for _ in range(self.i(0, 2)):
                name = self.add_type(T("REF", ref=name))
            self.desc["chain"] = self.nx
            return T("REF", ref=name)
        if how in ("nested", "nested-ref"):
            depth = self.i(1, 3)
            self.desc["depth"] = depth
            cur = self.carry_simple(g)
            if cur is None:
                return None
            if self.i(0, 2) == 0:
                cur = T("REF", ref=self.add_type(cur))
            for lvl in range(depth):
                alts = [self.pad_alt("p%d" % lvl), Member("q%d" % lvl, cur)]
                if self.i(0, 1):
                    alts.reverse()
                if self.i(0, 2) == 0:
                    alts.append(self.pad_alt("r%d" % lvl))
                cur = T("CHOICE", members=alts)
                if how == "nested-ref" and (lvl == depth - 1 or self.i(0, 1)):
                    cur = T("REF", ref=self.add_type(cur))
            return cur
        if how == "auto-ref":
            if self.mod.tagdefault != "AUTOMATIC" or cls != "CONTEXT" or num > 4:
                return None
            alts = [Member("u%d" % k, leaf(self.pick(["INTEGER", "BOOLEAN", "NULL"]))) for k in range(num + 1 + self.i(0, 1))]
            name = self.add_type(T("CHOICE", members=alts))
            if self.i(0, 1):
                name = self.add_type(T("REF", ref=name))
            return T("REF", ref=name)
        return None

    # ---- faults
    def coll(self):
        cands = []
        for path, t in sites(self.base):
            if t.kind in ("CHOICE", "SET", "SEQUENCE") and not self.an.automatic(t):
                pairs = collision_pairs(t, self.an)
                if pairs:
                    cands.append((path, t, pairs))
        if not cands:
            return False
        path, t, pairs = cands[self.i(0, len(cands) - 1)]
        i, j = pairs[self.i(0, len(pairs) - 1)]
        keep, vic = (i, j) if self.i(0, 2) else (j, i)
        try:
            ks = sorted(self.an.tags_of(t.members[keep].type) - {ref_tags.OPEN}, key=lambda x: (x[0], x[1]))
        except (ref_tags.Unresolved, ref_tags.Loop):
            return False
        if not ks:
            return False
        g = ks[self.i(0, len(ks) - 1)]
        order = list(CARRIERS)
        first = self.i(0, len(order) - 1)
        order = order[first:] + order[:first]
        if self.mod.tagdefault == "AUTOMATIC" and g[0] == "CONTEXT" and g[1] <= 4 and self.i(0, 2) == 0:
            order = ["auto-ref"] + order           # a collision that exists only through automatic tags of a referenced type
        node = node_at(self.mod, path)
        for how in order:
            new = self.carrier(how, g, node.members[vic].type)
            if new is not None:
                m = node.members[vic]
                m.type = new
                if m.has_default:
                    m.has_default, m.default, m.default_text, m.optional = False, None, None, True
                self.desc.update({"fault": "coll", "carrier": how, "container": t.kind, "path": path_str(path),
                                  "pair": [i, j], "victim": vic, "tag": ref_tags.fmt_tag(g),
                                  "level": len(path) - 1})
                return True
        return False

    def auto_off(self):
        cands = [(p, t) for p, t in sites(self.base) if t.kind in ("CHOICE", "SET", "SEQUENCE") and self.an.automatic(t)
                 and len([m for m in t.members if not m.ext]) >= 2]
        if not cands:
            return False
        path, t = cands[self.i(0, len(cands) - 1)]
        node = node_at(self.mod, path)
        roots = [k for k, m in enumerate(node.members) if not m.ext]
        k = roots[self.i(0, len(roots) - 1)]
        m = node.members[k]
        try:
            chainless = self.an.untagged_choice(m.type)
        except (ref_tags.Unresolved, ref_tags.Loop):
            return False
        m.type = with_tag(m.type, (self.pick(CLASSES), self.i(0, 5), self.pick([None, "EXPLICIT"] if chainless else
                                                                                  [None, "EXPLICIT", "IMPLICIT"])))
        self.desc.update({"fault": "auto-off", "container": t.kind, "path": path_str(path), "position": k,
                          "level": len(path) - 1})
        return True

    def add_optional(self):
        cands = []
        for p, t in sites(self.base):
            if t.kind == "SEQUENCE" and not self.an.automatic(t):
                for k, m in enumerate(t.members):
                    if not (m.optional or m.has_default or m.ext):
                        cands.append((p, k))
        if not cands:
            return False
        path, k = cands[self.i(0, len(cands) - 1)]
        node_at(self.mod, path).members[k].optional = True
        self.desc.update({"fault": "run.add-optional", "container": "SEQUENCE", "path": path_str(path), "position": k,
                          "level": len(path) - 1})
        return True

    def dup_identifier(self):
        cands = [(p, t) for p, t in sites(self.base) if t.kind in ("CHOICE", "SET", "SEQUENCE") and len(t.members) >= 2]
        if not cands:
            return False
        path, t = cands[self.i(0, len(cands) - 1)]
        n = len(t.members)
        i = self.i(0, n - 2)
        j = self.i(i + 1, n - 1)
        node = node_at(self.mod, path)
        if self.i(0, 1):
            node.members[j].name = node.members[i].name
        else:
            node.members[i].name = node.members[j].name
        self.desc.update({"fault": "dup.identifier", "container": t.kind, "path": path_str(path), "pair": [i, j],
                          "across-marker": bool(t.members[i].ext != t.members[j].ext), "level": len(path) - 1})
        return True

    def dup_enum(self, what):
        cands = [(p, t) for p, t in sites(self.base) if t.kind == "ENUMERATED" and len(t.named) + len(t.ext_named) >= 2]
        if not cands:
            return False
        path, t = cands[self.i(0, len(cands) - 1)]
        node = node_at(self.mod, path)
        nr = len(node.named)
        n = nr + len(node.ext_named)
        i = self.i(0, n - 2)
        j = self.i(i + 1, n - 1)
        items = [list(x) for x in node.named + node.ext_named]
        if what == "name":
            items[j][0] = items[i][0]
        else:
            if node.flags.get("bare"):
                node.flags = {}
                for k, it in enumerate(items):
                    it[1] = k
            items[j][1] = items[i][1]
        node.named = [tuple(x) for x in items[:nr]]
        node.ext_named = [tuple(x) for x in items[nr:]]
        self.desc.update({"fault": "dup.enum-" + what, "container": "ENUMERATED", "path": path_str(path), "pair": [i, j],
                          "distance": j - i, "across-marker": i < nr <= j, "level": len(path) - 1,
                          "inline": len(path) > 1})
        return True

    def dangling(self):
        cands = [(p, t) for p, t in sites(self.base) if len(p) > 1 or t.kind == "REF"]
        cands += [(p, t) for p, t in sites(self.base) if t.kind == "REF"]        # existing references: twice the weight
        if not cands:
            # a module of top-level built-in types only: add an alias to nowhere
            self.mod.types.append(("X1", T("REF", ref="Nowhere")))
            self.desc.update({"fault": "ref.dangling", "container": "alias", "path": "X1", "level": 0, "where": "alias"})
            return True
        path, t = cands[self.i(0, len(cands) - 1)]
        name = self.pick(["Undefined", "T99", "Nowhere", "L9"]) if self.i(0, 2) else (path[0] + "x")
        new = T("REF", ref=name, tag=t.tag)
        if len(path) > 1 and path[-1] != "elem":
            par = node_at(self.mod, path[:-1])
            m = par.members[path[-1]]
            if m.has_default:
                m.has_default, m.default, m.default_text, m.optional = False, None, None, True
            where = par.kind
        elif len(path) > 1:
            where = node_at(self.mod, path[:-1]).kind
        else:
            where = "alias"
        set_node(self.mod, path, new)
        self.desc.update({"fault": "ref.dangling", "container": where, "path": path_str(path), "level": len(path) - 1,
                          "where": where, "tagged": new.tag is not None})
        return True

    def apply(self, fault):
        if fault == "coll":
            return self.coll()
        if fault == "auto-off":
            return self.auto_off()
        if fault == "run.add-optional":
            return self.add_optional()
        if fault == "dup.identifier":
            return self.dup_identifier()
        if fault == "dup.enum-name":
            return self.dup_enum("name")
        if fault == "dup.enum-value":
            return self.dup_enum("value")
        if fault == "ref.dangling":
            return self.dangling()
        return False


class Case(dict):
    def __repr__(self):
        return "<C11 case, fault %s>" % (self.get("fault") or {}).get("fault")


@st.composite
def cases(draw):
    return Case(_case(draw))


def _case(draw):
    b = Builder(draw)
    base = b.build()
    want = draw(st.sampled_from(["none", "none", "none"] + FAULTS + FAULTS))
    if want == "none":
        return {"base": base.to_json(), "mod": None, "fault": {"fault": "none"}, "avoided": b.avoided}
    order = FAULTS[FAULTS.index(want):] + FAULTS[:FAULTS.index(want)]
    seen = set()
    for f in order:
        if f in seen:
            continue
        seen.add(f)
        inj = Injector(draw, base)
        if inj.apply(f):
            return {"base": base.to_json(), "mod": inj.mod.to_json(), "fault": inj.desc, "avoided": b.avoided}
    return {"base": base.to_json(), "mod": None, "fault": {"fault": "none"}, "avoided": b.avoided}


# ---------------------------------------------------------------------------------------------------------------------
# evaluation
class Viol(Exception):
    def __init__(self, sig, summary, replay):
        Exception.__init__(self, summary)
        self.sig, self.summary, self.replay = sig, summary, replay


def shape_classes(mod, uses, fault, verdict):
    cl = ["default." + mod.tagdefault, "verdict." + verdict, "fault." + fault.get("fault", "none")]
    if fault.get("carrier"):
        cl.append("coll.carrier." + fault["carrier"])
        cl.append("coll.in." + fault["container"])
        if fault.get("depth"):
            cl.append("coll.nested-depth.%d" % fault["depth"])
    if fault.get("fault") not in (None, "none"):
        cl.append("fault-level.%d" % min(fault.get("level", 0), 3))
        cl.append("%s->%s" % (fault["fault"], verdict))
    for k, v in uses.items():
        if v:
            cl.append("computed-via." + k)
    kinds = set()
    maxc = [0]

    def walk(t, cd):
        kinds.add(t.kind)
        if t.kind == "CHOICE" and t.tag is None:
            cd += 1
            maxc[0] = max(maxc[0], cd)
        else:
            cd = 0
        if t.ext and t.kind in ("CHOICE", "SET", "SEQUENCE"):
            kinds.add("ext-marker")
            if any(m.ext for m in t.members):
                kinds.add("ext-additions")
        if t.kind == "SEQUENCE" and any(m.optional or m.has_default for m in t.members):
            kinds.add("optional-run")
        if t.tag is not None:
            kinds.add("class." + t.tag[0])
            if t.kind == "REF":
                kinds.add("tagged-reference")
        for m in t.members:
            walk(m.type, cd)
        if t.elem is not None:
            walk(t.elem, 0)
    for _, t in mod.types:
        walk(t, 0)
    an = ref_tags.Analysis(mod)

    def pairs(t):
        if t.kind in ("CHOICE", "SET", "SEQUENCE") and not an.automatic(t):
            try:
                sets = an.component_tags(t)
            except (ref_tags.Unresolved, ref_tags.Loop):
                sets = []
            flat = [x for s_ in sets for x in s_ if x != ref_tags.OPEN]
            nums = {}
            for c_, n_ in flat:
                nums.setdefault(n_, set()).add(c_)
            if any(len(v) > 1 for v in nums.values()):
                kinds.add("same-number-in-two-classes")
            if t.kind == "SEQUENCE" and len(flat) != len(set(flat)):
                kinds.add("sequence-repeats-a-tag-outside-runs")
            ut = [m.type.kind for m in t.members if m.type.tag is not None and m.type.kind not in ("REF", "CHOICE")]
            if len(ut) != len(set(ut)):
                kinds.add("same-type-under-different-tags")
        for m in t.members:
            pairs(m.type)
        if t.elem is not None:
            pairs(t.elem)
    if verdict == "accept":
        for _, t in mod.types:
            pairs(t)
    cl += ["valid-with." + k for k in sorted(kinds) if k in ("same-number-in-two-classes", "sequence-repeats-a-tag-outside-runs",
                                                             "same-type-under-different-tags")]
    cl += ["has." + k for k in sorted(kinds) if k in ("CHOICE", "SET", "SEQUENCE", "REF", "ENUMERATED", "ext-marker",
                                                    "ext-additions", "optional-run", "class.APPLICATION",
                                                    "class.PRIVATE", "tagged-reference")]
    cl.append("untagged-choice-nesting.%d" % min(maxc[0], 4))
    return cl


def evaluate_module(modj, fault, acc, role, exe=None, probe=False):
    """Evaluate one module.  Returns None or a Viol (not raised)."""
    mod = Module.from_json(modj)
    verdict, probs, uses = ref_tags.analyse(mod)
    text = render(mod)
    info = {"fault": fault, "expect": verdict, "role": role, "default": mod.tagdefault,
            "problems": [p.kind for p in probs], "feats": features(mod, probs)}
    if verdict == "outside":
        acc.excluded["outside-the-statement:" + ",".join(sorted({p.kind for p in probs if not p.in_statement}))] += 1
        return None
    if role == "base" and verdict != "accept":
        acc.excluded["generator-produced-invalid-base"] += 1
        acc.notes.append("generator bug: base module not accepted by the reference: %r\n%s" % (probs[:3], text))
        return None
    if not probe:
        k = known_class_of(info)
        if k:
            acc.excluded["known:" + k] += 1
            return None
    nontrivial = any(uses[k] for k in ("auto", "ref", "nested", "universal"))
    key = h(text)
    res = compile_text(text, exe)
    acc.case(key if nontrivial else None, shape_classes(mod, uses, fault if role != "base" else {"fault": "none"}, verdict))
    kind, why = judge(verdict, res)
    if acc.evaluations % 97 == 1:
        acc.sample({"module": text, "reference": verdict, "problems": [repr(p) for p in probs][:4],
                    "asn1c": why[:200], "fault": fault if role != "base" else None}, limit=10)
    if kind is None:
        return None
    replay = {"module": modj, "text": text, "expect": verdict, "fault": fault, "role": role}
    if kind == "generator":
        acc.extra["unrelated-rejections"] += 1
        acc.notes.append("GENERATOR: %s\n%s" % (why, text))
        return None
    f = fault if role != "base" else {"fault": "none"}
    if kind == "rejected":
        first = next((l for l in res["stderr"].splitlines() if l.startswith("FATAL")), res["stderr"][:80])
        first = re.sub(r'"[^"]*"|-?\d+| in /\S+|/\S+', "#", first)
        first = re.sub(r"\b(Enumeration|Processing|In|type|by)\s+\S+", r"\1 #", first)
        sig = "%s:%s:%s" % (verdict, kind, first[:70])
    else:
        sig = "%s:%s:%s:%s:%s" % (verdict, kind, f.get("fault"), f.get("carrier", "-"), f.get("container", "-"))
    summary = "module (reference verdict: %s%s):\n%s\n%s\ncommand: %s" % (
        verdict, "; " + "; ".join(repr(p) for p in probs[:4]) if probs else "", text, why, res["cmd"])
    if fault.get("fault") not in (None, "none") and role != "base":
        summary += "\ninjected fault: %s" % json.dumps(fault, sort_keys=True)
    return Viol(sig, summary, replay)


def worker(wseed, n, raise_budget=None):
    """Run n generated cases; failures are shrunk by Hypothesis (one signature at a time)."""
    acc = Acc()
    exe = build.asn1c_binary()
    if raise_budget is None:
        # every shrink costs up to MAX_SHRINKING_SECONDS: a red quick run must still end inside the tier's budget
        raise_budget = 3 if os.environ.get("VERIF_TIER") == "thorough" else 1
    found = {}            # signature -> Viol (shrunk)
    state = {"target": None, "last": None, "count": 0, "seen_base": set()}
    try:
        import hypothesis.internal.conjecture.engine as eng
        if hasattr(eng, "MAX_SHRINKING_SECONDS"):
            eng.MAX_SHRINKING_SECONDS = 30 if os.environ.get("VERIF_TIER") == "thorough" else 8
    except Exception:
        pass

    def body(case):
        shrinking = state["target"] is not None
        scratch = Acc() if shrinking else acc
        if not shrinking:
            state["count"] += 1
            for k in case.get("avoided", ()):
                acc.excluded["known:%s (shape not generated)" % k] += 1
        todo = []
        if case["mod"] is not None:
            todo.append((case["mod"], case["fault"], "injected"))
        bkey = h(json.dumps(case["base"], sort_keys=True))
        if shrinking or bkey not in state["seen_base"]:
            todo.append((case["base"], case["fault"], "base"))
            if not shrinking:
                state["seen_base"].add(bkey)
        for modj, fault, role in todo:
            v = evaluate_module(modj, fault, scratch, role, exe)
            if v is None:
                continue
            if v.sig in found:
                acc.extra["repeat-of-found:" + v.sig] += (0 if shrinking else 1)
                continue
            if shrinking and v.sig != state["target"]:
                continue
            if len(found) >= raise_budget:
                # enough shrinking for one worker: record unshrunk
                found[v.sig] = v
                continue
            state["target"] = v.sig
            state["last"] = v
            raise v

    left = n
    round_ = 0
    while left > 0 and round_ < raise_budget + 2:
        state["target"], state["last"], state["count"] = None, None, 0

        @hseed(wseed * 1009 + round_)
        @settings(max_examples=left, database=None, deadline=None, suppress_health_check=list(HealthCheck),
                  phases=[Phase.generate, Phase.shrink], report_multiple_bugs=False)
        @given(cases())
        def run(case):
            body(case)
        try:
            run()
        except Viol:
            v = state["last"]
            found[v.sig] = v
        except Exception as e:         # Flaky etc.
            if state["last"] is not None:
                found[state["last"].sig] = state["last"]
                acc.notes.append("hypothesis reported %r while shrinking %s" % (e, state["last"].sig))
            else:
                raise
        left -= max(1, state["count"])
        round_ += 1
    for sig, v in found.items():
        acc.violation(sig, "[%s]\n%s" % (sig, v.summary), v.replay)
    return acc


# ---------------------------------------------------------------------------------------------------------------------
# structural minimisation of a failing module (Hypothesis shrinks the draws under a time cap; this removes what is left)
def _candidates(mod):
    """Smaller variants of a module, coarse ones first."""
    names = [n for n, _ in mod.types]
    for n in names:
        if len(names) > 1:
            m2 = clone(mod)
            m2.types = [(a, b) for a, b in m2.types if a != n]
            m2._map = None
            yield m2
    for path, t in sites(mod):
        if len(path) > 1 and (t.kind in ("SEQUENCE", "SET", "CHOICE", "ENUMERATED", "SEQOF", "SETOF")):
            m2 = clone(mod)                       # hoist an inner type to the top
            set_node(m2, [path[0]], strip_tag(node_at(m2, path)))
            yield m2
    for path, t in sites(mod):
        if len(path) > 1 and t.kind == "CHOICE" and t.tag is None and len(t.members) == 1 and path[-1] != "elem":
            m2 = clone(mod)                       # a one-alternative untagged CHOICE: put the alternative in its place
            set_node(m2, path, node_at(m2, path).members[0].type)
            yield m2
    for path, t in sites(mod):
        if t.kind in ("SEQUENCE", "SET", "CHOICE"):
            for k in range(len(t.members)):
                if t.kind == "CHOICE" and len([m for m in t.members if not m.ext]) <= 1 and not t.members[k].ext:
                    continue
                m2 = clone(mod)
                del node_at(m2, path).members[k]
                yield m2
    for path, t in sites(mod):
        if len(path) > 1 and (t.members or t.elem is not None) and t.kind != "CHOICE":
            m2 = clone(mod)
            set_node(m2, path, T("NULL", tag=t.tag))
            yield m2
        if t.kind == "ENUMERATED" and len(t.named) + len(t.ext_named) > 2:
            for k in range(len(t.named) + len(t.ext_named)):
                m2 = clone(mod)
                n2 = node_at(m2, path)
                if k < len(n2.named):
                    if len(n2.named) > 1:
                        del n2.named[k]
                        yield m2
                else:
                    del n2.ext_named[k - len(n2.named)]
                    yield m2
    for path, t in sites(mod):
        if t.ext and not any(m.ext for m in t.members) and not t.ext_named:
            m2 = clone(mod)
            node_at(m2, path).ext = False
            yield m2
        if t.kind in ("SEQUENCE", "SET"):
            for k, m in enumerate(t.members):
                if m.has_default:
                    m2 = clone(mod)
                    mm = node_at(m2, path).members[k]
                    mm.has_default, mm.default, mm.default_text, mm.optional = False, None, None, True
                    yield m2
        if t.tag is not None and len(path) == 1:
            m2 = clone(mod)
            set_node(m2, path, strip_tag(node_at(m2, path)))
            yield m2


def minimise(modj, want_verdict, want_kind, budget=150):
    mod = Module.from_json(modj)
    spent = 0
    progress = True
    while progress and spent < budget:
        progress = False
        for cand in _candidates(mod):
            if spent >= budget:
                break
            try:
                v, probs, _ = ref_tags.analyse(cand)
            except Exception:
                continue
            if v != want_verdict:
                continue
            spent += 1
            kind, _ = judge(v, compile_text(render(cand)))
            if kind == want_kind:
                mod = cand
                progress = True
                break
    return mod.to_json(), spent


def minimise_violations(chk, limit=8):
    done = 0
    for v in chk.acc.violations:
        if done >= limit or v.get("confirmed"):
            continue
        rp = v["replay"]
        try:
            res = judge(rp["expect"], compile_text(rp["text"]))
            if res[0] is None:
                continue
            small, spent = minimise(rp["module"], rp["expect"], res[0], chk.pick(150, 400))
            acc = Acc()
            nv = evaluate_module(small, rp.get("fault") or {"fault": "none"}, acc, rp.get("role", "injected"), probe=True)
            if nv is not None:
                v["replay"] = dict(nv.replay, minimised_with_compiles=spent)
                v["summary"] = "[%s]\n%s\n(module minimised structurally after Hypothesis' shrinking, %d compiles)" % (
                    v["key"], nv.summary, spent)
                done += 1
        except Exception as e:
            chk.acc.notes.append("minimisation failed for %s: %r" % (v["key"], e))


def replay_case(case):
    acc = Acc()
    v = evaluate_module(case["module"], case.get("fault") or {"fault": "none"}, acc, case.get("role", "injected"),
                        probe=bool(case.get("probe")))
    if acc.excluded and not acc.evaluations:
        return False, "case is outside the property / excluded: %s" % dict(acc.excluded)
    if acc.extra.get("unrelated-rejections"):
        raise RuntimeError("asn1c rejects the replay module for an unrelated reason: " + acc.notes[-1][:600])
    if v is not None:
        return True, v.summary
    mod = Module.from_json(case["module"])
    return False, "%s\nreference and asn1c agree (%s)" % (render(mod), ref_tags.verdict(mod))


def main(argv):
    a = runner.parse_args(argv)
    bad = ref_tags.selftest()
    if bad:
        print("ERROR: reference self-test fails:\n" + "\n".join(bad))
        return 2
    build.asn1c_binary()
    if a.replay:
        return runner.do_replay(PID, replay_case, a.replay)
    chk = Check(PID, "exploration", RULE, [
        "the reference implements X.680 25.3/25.6/25.8/25.10, 27.3, 29.2-29.5, 31.2, 20.3-20.6 and Table 1; collisions that "
        "involve only extension additions, OPTIONAL runs that reach the extension marker, second root lists, IMPLICIT before "
        "an untagged CHOICE and tagged additions under automatic tagging are outside the statement: never generated as "
        "valid modules, never injected",
        "modules use only constructs the rest of the framework compiles (built-in types, SEQUENCE/SET/CHOICE/OF, references, "
        "ENUMERATED, OPTIONAL/DEFAULT); a rejection by asn1c for any other reason is reported as ERROR, not as a verdict"])
    n = a.modules or chk.pick(8000, 48000)
    t1 = time.time()
    runner.regression_and_probes(chk, replay_case)
    # probes of classes assumed known through the test-only override
    for cls in sorted(_assumed()):
        p = os.path.join(os.path.dirname(os.path.dirname(os.path.abspath(__file__))), "replays", PID, "known", cls + ".json")
        if os.path.exists(p) and not KNOWN.is_known(PID, cls):
            with open(p) as f:
                j = json.load(f)
            violated, _ = replay_case(j.get("case", j))
            chk.acc.extra["known_probes"] += 1
            if violated:
                chk.acc.known_hits[cls] += 1
    chk.extra_coverage["replays_and_probes_s"] = round(time.time() - t1, 1)
    workers = a.workers or NCPU
    per = chk.pick(150, 500)
    jobs = max(workers, (n + per - 1) // per)
    per = (n + jobs - 1) // jobs
    args = [(chk.seed * 7919 + i, per) for i in range(jobs)]
    t1 = time.time()
    for kind, r in run_pool(worker, args, workers):
        if kind == "ok":
            chk.acc.merge(r)
        else:
            chk.error("worker failed: " + r[-3000:])
    chk.extra_coverage["pool_s"] = round(time.time() - t1, 1)
    chk.extra_coverage["cases_drawn"] = per * jobs
    if chk.acc.extra.get("unrelated-rejections"):
        chk.error("%d generated modules were rejected by asn1c for a reason unrelated to the property (generator problem): %s"
                  % (chk.acc.extra["unrelated-rejections"], next((x for x in chk.acc.notes if x.startswith("GENERATOR")), "")[:1500]))
    if chk.acc.excluded.get("generator-produced-invalid-base"):
        chk.error("the generator produced %d base modules its own reference does not accept: %s" % (
            chk.acc.excluded["generator-produced-invalid-base"],
            next((x for x in chk.acc.notes if x.startswith("generator bug")), "")[:1500]))
    t1 = time.time()
    minimise_violations(chk)
    chk.extra_coverage["minimise_s"] = round(time.time() - t1, 1)
    t1 = time.time()
    runner.confirm(chk, replay_case)
    chk.extra_coverage["confirm_s"] = round(time.time() - t1, 1)
    if a.modules:        # shortened run asked for on the command line: scale the minimum with it
        return chk.finish(min(chk.pick(1500, 60000), a.modules // 2), min(chk.pick(800, 20000), a.modules // 4))
    return chk.finish(chk.pick(1500, 60000), chk.pick(800, 20000))


if __name__ == "__main__":
    sys.exit(main(sys.argv[1:]))
