"""C08 — asn_check_constraints accepts exactly the values the specification allows."""
import sys

from hypothesis import strategies as st

from . import gen, drv, ref_ber, ref_sem, pipeline, valcheck, runner
from .common import h, KNOWN
from .model import val_to_json, val_from_json, ASN_NAME

PID = "C08"
RULE = ("modules with non-extensible value/SIZE/FROM constraints at every position (top level, members, OPTIONAL/DEFAULT "
        "members, CHOICE alternatives, SEQUENCE OF/SET OF elements, through references); values are valid at the bounds, or "
        "violate one or several constraints (each bound, both sides, size and alphabet); injected through BER (which does not "
        "validate); oracle: asn_check_constraints() == 0 iff the reference predicate (vf/ref_sem.py) finds no violation; on "
        "-1 the message must fit the caller's buffer (sizes 0..128 and NULL), be NUL-terminated and name a type; "
        "non-trivial = the type has a constraint below the top level or the value is invalid; distinct by (type, value)")
ERRSZ = [128, 128, 64, 16, 8, 2, 1, 0, -1]

KNOWN_CLASSES = {}


def strategy(mod, t, cfg, feats):
    cfg2 = gen.Cfg(**dict(cfg.__dict__, violate=0.25))
    return st.tuples(gen.values(mod, t, cfg2), st.sampled_from(ERRSZ))


def wants(mod, tname, t, feats):
    return bool(feats & {"cons.value", "cons.size", "cons.from", "NumericString", "PrintableString", "IA5String",
                         "VisibleString"})


def boundary_cases(mod, t):
    """catalogue types (CatCons): every boundary value and every value just outside a range or inside a gap"""
    return [(v, 128) for v in gen.boundary_values(mod, t)] + [(v, 128) for v in gen.boundary_violations(mod, t)]


def value_of(x):
    return x[0]


def with_value(x, v2, mod, tname):
    return (v2, x[1])


def make_replay(mod, tname, t, x):
    return {"module": mod.subset([tname]).to_json(), "type": tname, "x": {"value": val_to_json(x[0]), "errsz": x[1]}}


def case_from_replay(mod, case):
    return (val_from_json(case["x"]["value"]), case["x"]["errsz"])


def names_of(mod):
    names = set(n for n, _ in mod.types)
    def walk(t):
        names.add(ASN_NAME.get(t.kind, t.kind))
        names.add(ASN_NAME.get(t.kind, t.kind).replace(" ", "_"))
        for m in t.members:
            names.add(m.name)
            walk(m.type)
        if t.elem:
            walk(t.elem)
    for _, t in mod.types:
        walk(t)
    names |= {"SEQUENCE", "SET", "CHOICE", "SEQUENCE OF", "SET OF", "SEQUENCE_OF", "SET_OF", "ENUMERATED"}
    names.discard("REF")
    return names


def run_case(sess, mod, tname, t, x, feats, acc):
    v, errsz = x
    if KNOWN.is_known(PID, "int.ub-above-int64.check") and "int.ub>int64" in feats and not getattr(acc, "probe", False):
        acc.excluded["known:int.ub-above-int64.check"] += 1
        return None
    viol = ref_sem.violations(mod, t, v)
    if KNOWN.is_known(PID, "size.named-collection.unchecked") and not getattr(acc, "probe", False):
        rest = [x for x in viol if "[SIZE of a named collection type]" not in x[1]]
        if viol and not rest:
            acc.excluded["known:size.named-collection.unchecked"] += 1
            return None
        viol = rest
    refder = ref_ber.encode(mod, t, v)
    reply = sess.cmd("check %s %s %d" % (tname, drv.hexs(refder), errsz))
    replay = make_replay(mod, tname, t, x)
    if "inject" in reply:
        acc.excluded["inject-failed"] += 1
        return None
    ret = int(reply["ret"])
    classes = list(feats) + ["valid" if not viol else ("invalid.1" if len(viol) == 1 else "invalid.many"), "errsz.%d" % errsz]
    deep = any(p.count("/") + p.count("[") >= 1 for p, _ in viol)
    if viol and deep:
        classes.append("invalid.nested")
    nt = h(t.render(), val_to_json(v)) if (viol or "nest>=2" in feats or "optional" in feats) else None
    probs = []
    if viol and ret == 0:
        probs.append(("accepted-invalid", "asn_check_constraints() returned 0 for a value that violates: %s" % (
            "; ".join("%s: %s" % (p or "/", w) for p, w in viol[:4]))))
    if not viol and ret != 0:
        msg = drv.unhex(reply.get("msg", "-")).decode(errors="replace") if reply.get("msg") else ""
        probs.append(("rejected-valid", "asn_check_constraints() returned %d for a value that satisfies every constraint; "
                      "message: %r" % (ret, msg)))
    if ret != 0 and errsz >= 0:
        errlen = int(reply.get("errlen", 0))
        if errsz > 0 and reply.get("term") != "1":
            probs.append(("msg-not-terminated", "error message not NUL-terminated inside the %d-byte buffer" % errsz))
        if errlen > max(errsz - 1, 0) and not (errsz == 0 and errlen == 0):
            probs.append(("msg-errlen", "reported errlen %d does not fit a %d-byte buffer" % (errlen, errsz)))
        if errsz >= 64 and reply.get("term") == "1":
            msg = drv.unhex(reply.get("msg", "-")).decode(errors="replace")
            if not msg or not any(nm and nm in msg for nm in names_of(mod)):
                probs.append(("msg-no-type", "error message %r names no type of the module" % msg))
    return probs, classes, nt, replay


def main(argv):
    return runner.run_module_check(
        PID, "exploration", RULE, valcheck.worker, lambda case: valcheck.replay_case(sys.modules[__name__], case), argv,
        n_modules=(40, 400), n_values=(50, 150), extra_worker_args=("vf.c08",),
        cfg_kw={"ext_constraints": False}, extra_modules=[m for m in gen.catalogue() if m.name == "CatCons"],
        assumptions=["extensible constraints, -fno-constraints builds, ENUMERATED membership and REAL WITH COMPONENTS are "
                     "outside the statement and are not generated", "values are injected through the BER decoder"])


if __name__ == "__main__":
    sys.exit(main(sys.argv[1:]))
