"""C05 — chunked (restartable) decoding equals one-shot decoding; proper prefixes give RC_WMORE."""
import sys

from hypothesis import strategies as st

from . import gen, drv, ref_ber, ref_oer, pipeline, valcheck, runner
from .common import h, KNOWN
from .c03 import ListChooser
from .model import val_to_json, val_from_json

PID = "C05"
RULE = ("per value an encoding in DER, a BER variant (incl. indefinite lengths), OER, BASIC-XER or CANONICAL-XER; the "
        "driver decodes it one-shot and then, inside one command, for EVERY 2-chunk split point k (exhaustive) with the "
        "manual's restart protocol (keep unconsumed bytes, append, call again with the same structure), plus one-byte "
        "feeding, plus a Hypothesis-drawn k-chunk schedule; results (rc, total consumed, DER of the value) must equal the "
        "one-shot result and every proper prefix must give RC_WMORE with consumed <= prefix; non-trivial = encoding has "
        ">= 6 octets so that split points fall strictly inside members; distinct by (type, value, syntax, encoding)")
SYN = ["der", "ber", "oer", "xer", "cxer"]

K_STRCHAIN = "ber.restart.indefinite-tag-chain-before-constructed-string"
KNOWN_CLASSES = {
    "tagchain.four-or-more.der": lambda f, s: "tagchain>=4" in f,
    "int.beyond-long.xer": lambda f, s: s in ("xer", "cxer") and "int.beyond-long" in f,
    "zero-width-elements.over-200.per-oer": lambda f, s: s == "oer" and "zero-width>200" in f,
}


def known_skip(feats, syn):
    for cls, pred in KNOWN_CLASSES.items():
        if KNOWN.is_known(PID, cls) and pred(feats, syn):
            return cls
    return None


def strategy(mod, t, cfg, feats):
    return st.tuples(gen.values(mod, t, cfg), st.sampled_from(SYN),
                     st.lists(st.integers(0, 1 << 16), max_size=40),
                     st.lists(st.sampled_from([1, 1, 2, 3, 5, 8, 16, 64]) | st.integers(1, 300), max_size=30))


def value_of(x):
    return x[0]


def with_value(x, v2, mod, tname):
    return (v2,) + tuple(x[1:])


def make_replay(mod, tname, t, x):
    return {"module": mod.subset([tname]).to_json(), "type": tname,
            "x": {"value": val_to_json(x[0]), "syntax": x[1], "decisions": list(x[2]), "schedule": list(x[3])}}


def case_from_replay(mod, case):
    x = case["x"]
    return (val_from_json(x["value"]), x["syntax"], list(x["decisions"]), list(x["schedule"]))


def run_case(sess, mod, tname, t, x, feats, acc):
    v, syn, decisions, schedule = x
    vfeats = feats | pipeline.value_features(mod, t, v)
    if not getattr(acc, "probe", False):
        k = known_skip(vfeats, syn)
        if k:
            acc.excluded["known:" + k] += 1
            return None
    refder = ref_ber.encode(mod, t, v)
    replay = make_replay(mod, tname, t, x)
    used = {}
    if syn == "der":
        enc = refder
    elif syn == "ber":
        ch = ListChooser(decisions)
        ch.no_mixed_chain = True        # C03's known finding; C05 is about restartability, not acceptance
        ch.no_indef_chain_on_strings = KNOWN.is_known(PID, K_STRCHAIN) and not getattr(acc, "probe", False)
        enc = ref_ber.encode(mod, t, v, ch)
        used = ch.used
        if getattr(ch, "suppressed_indef_string_chain", 0):
            acc.excluded["known:%s (chain forced definite)" % K_STRCHAIN] += ch.suppressed_indef_string_chain
    else:
        r = sess.cmd("enc %s %s %s" % (tname, drv.hexs(refder), syn))
        if "inject" in r or r.get(syn) in (None, "fail", "nocodec"):
            acc.excluded["no-%s-encoding-from-library" % syn] += 1
            return None
        enc = drv.unhex(r[syn])
        if syn == "xer":
            enc = enc.rstrip(b"\n")      # the encoder's trailing newline is not part of the value's element
    dsyn = {"der": "ber", "ber": "ber", "oer": "oer", "xer": "xer", "cxer": "xer"}[syn]
    if len(enc) == 0:
        acc.excluded["empty-encoding"] += 1
        return None
    if len(enc) > 20000 and not getattr(acc, "probe", False):
        # (split points) x (one full decode + one prefix decode) under the sanitizers: minutes per case, and a time
        # limit is not an oracle; large inputs are C04/C15's business
        acc.excluded["encoding too large for the split enumeration (> 20000 octets)"] += 1
        return None
    # every split point up to 1500 octets (exhaustive), a uniform sample of ~300 split points beyond
    step = 1 if len(enc) <= 1500 else max(1, len(enc) // 300)
    reply = sess.cmd("splitall %s %s %s %d" % (tname, dsyn, drv.hexs(enc), step))
    if reply["_status"] == "nocodec":
        acc.excluded["nocodec." + syn] += 1
        return None
    classes = ["syn." + syn] + ["var." + u for u in used] + list(feats)
    nt = h(t.render(), syn, enc) if len(enc) >= 6 else None
    acc.extra["split_points"] += int(reply.get("splits", 0))
    acc.extra["split_points_inside"] += int(reply.get("inner", 0))
    probs = []
    shown = enc.hex() if dsyn != "xer" else repr(enc)
    if len(shown) > 400:
        shown = shown[:400] + "..."
    rc = int(reply["rc"])
    if rc != 0 or int(reply["consumed"]) != len(enc):
        # acceptance is C01/C03's business; restartability of a rejected encoding is still compared below
        classes.append("oneshot-not-ok")
        nt = None
    if "badsplit" in reply:
        probs.append(("split." + syn, "%s: feeding [%s bytes, rest] gives rc=%s consumed=%s DER=%s but one-shot gives rc=%d "
                      "consumed=%s DER=%s\n  encoding (%d octets): %s" % (
                          syn, reply["badsplit"], reply["brc"], reply["bconsumed"], reply.get("bder", "-")[:200], rc,
                          reply["consumed"], reply.get("der", "-")[:200], len(enc), shown)))
    if "badprefix" in reply:
        probs.append(("prefix." + syn, "%s: the proper prefix of %s octets gives rc=%s consumed=%s (must be RC_WMORE=1 with "
                      "consumed <= prefix)\n  encoding (%d octets): %s" % (
                          syn, reply["badprefix"], reply["prc"], reply["pconsumed"], len(enc), shown)))
    if "bad1byte" in reply:
        probs.append(("onebyte." + syn, "%s: feeding one byte at a time ends with rc=%s consumed=%s after %s calls; one-shot "
                      "rc=%d consumed=%s\n  encoding (%d octets): %s" % (
                          syn, reply["orc"], reply["oconsumed"], reply["ocalls"], rc, reply["consumed"], len(enc), shown)))
    if schedule and not probs:
        r2 = sess.cmd("sched %s %s %s %s" % (tname, dsyn, drv.hexs(enc), ",".join(str(s) for s in schedule)))
        classes.append("schedule.%d" % min(len(schedule), 10))
        if r2.get("same") != "1":
            probs.append(("schedule." + syn, "%s: schedule %s gives rc=%s consumed=%s, one-shot rc=%s consumed=%s\n  encoding: %s" % (
                syn, schedule, r2.get("crc"), r2.get("cconsumed"), r2.get("rc"), r2.get("consumed"), shown)))
    return probs, classes, nt, replay


def main(argv):
    return runner.run_module_check(
        PID, "exploration", RULE, valcheck.worker, lambda case: valcheck.replay_case(sys.modules[__name__], case), argv,
        n_modules=(30, 300), n_values=(30, 100), extra_worker_args=("vf.c05",),
        assumptions=["PER is excluded (documented as not restartable)",
                     "the restart protocol is the one of doc/docsrc/asn1c-usage.tex ('Restartability')"])


if __name__ == "__main__":
    sys.exit(main(sys.argv[1:]))
