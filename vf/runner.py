"""Generic main() for the module-based checks."""
import argparse
import glob
import json
import os
import sys
import time

from . import build, gen, pipeline
from .common import Check, Acc, run_pool, KNOWN, REPLAY_DIR


def parse_args(argv):
    ap = argparse.ArgumentParser()
    ap.add_argument("--tier", default=os.environ.get("VERIF_TIER", "quick"), choices=["quick", "thorough"])
    ap.add_argument("--replay", default=None)
    ap.add_argument("--modules", type=int, default=None)
    ap.add_argument("--values", type=int, default=None)
    ap.add_argument("--workers", type=int, default=None)
    a = ap.parse_args(argv)
    os.environ["VERIF_TIER"] = a.tier
    return a


def do_replay(pid, replay_case, path):
    with open(path) as f:
        j = json.load(f)
    case = j.get("case", j)
    violated, text = replay_case(case)
    print(text[:4000])
    if violated:
        print("VIOLATION property=%s replay=%s" % (pid, path))
        return 1
    print("%s replay: property holds on this case" % pid)
    return 0


def regression_and_probes(chk, replay_case):
    """Committed replays: replays/<pid>/*.json must pass; replays/<pid>/known/<class>.json are the
    probes of known findings (still failing => KNOWN-FINDING line, passing => silent)."""
    pid = chk.pid
    n = 0
    for path in sorted(glob.glob(os.path.join(REPLAY_DIR, pid, "*.json"))):
        with open(path) as f:
            j = json.load(f)
        try:
            violated, text = replay_case(j.get("case", j))
        except Exception as e:  # a replay that cannot run is an error, not a verdict
            chk.error("replay %s could not run: %r" % (path, e))
            continue
        n += 1
        chk.acc.extra["regression_replays"] += 1
        if violated:
            chk.acc.violations.append({"key": "regression:" + os.path.basename(path),
                                       "summary": "regression replay %s fails again:\n%s" % (path, text),
                                       "replay": j.get("case", j), "confirmed": True, "path": path})
    for cls in KNOWN.classes(pid):
        path = os.path.join(REPLAY_DIR, pid, "known", cls + ".json")
        if not os.path.exists(path):
            continue
        with open(path) as f:
            j = json.load(f)
        try:
            violated, text = replay_case(j.get("case", j))
        except Exception as e:
            chk.error("known-finding probe %s could not run: %r" % (path, e))
            continue
        chk.acc.extra["known_probes"] += 1
        if violated:
            chk.acc.known_hits[cls] += 1
    return n


def confirm(chk, replay_case, times=3):
    """Replay every candidate violation in fresh processes; keep only those that fail every time."""
    kept = []
    for v in chk.acc.violations:
        if v.get("confirmed"):
            kept.append(v)
            continue
        fails = 0
        last = ""
        for _ in range(times):
            try:
                violated, text = replay_case(v["replay"])
            except Exception as e:
                violated, text = False, "replay raised %r" % (e,)
            last = text
            if violated:
                fails += 1
        if fails == times:
            v["summary"] += "\n[confirmed %d/%d in fresh processes]" % (fails, times)
            kept.append(v)
        else:
            chk.acc.notes.append("unreproduced candidate (%d/%d): %s || %s" % (fails, times, v["summary"][:600], last[:300]))
            chk.acc.extra["unreproduced_candidates"] += 1
    chk.acc.violations = kept


def run_module_check(pid, level, rule, worker, replay_case, argv, n_modules, n_values, assumptions=(),
                     cfg_kw=None, min_evaluations=None, min_nontrivial=None, module_strategy=None,
                     variants=("asan",), extra_worker_args=(), extra_modules=()):
    a = parse_args(argv)
    if a.replay:
        build.warm(variants)
        return do_replay(pid, replay_case, a.replay)
    chk = Check(pid, level, rule, assumptions)
    nm = a.modules or chk.pick(*n_modules)
    nv = a.values or chk.pick(*n_values)
    cfg_kw = dict(cfg_kw or {})
    _, _, bt = build.warm(variants)
    chk.extra_coverage["build_s"] = round(bt, 1)
    t1 = time.time()
    regression_and_probes(chk, replay_case)
    chk.extra_coverage["replays_and_probes_s"] = round(time.time() - t1, 1)
    t1 = time.time()
    cfg = gen.Cfg(**cfg_kw)
    mods = pipeline.draw_modules(chk.seed, nm, cfg, module_strategy(cfg) if module_strategy else None)
    mods = list(extra_modules) + mods
    args = [(m.to_json(), chk.seed * 7919 + i, nv, cfg_kw) + tuple(extra_worker_args) for i, m in enumerate(mods)]
    chk.extra_coverage["draw_modules_s"] = round(time.time() - t1, 1)
    t1 = time.time()
    results = run_pool(worker, args, a.workers)
    chk.extra_coverage["pool_s"] = round(time.time() - t1, 1)
    t1 = time.time()
    for kind, r in results:
        if kind == "ok":
            chk.acc.merge(r)
        else:
            chk.error("worker failed: " + r[-3000:])
    chk.extra_coverage["modules_drawn"] = len(mods)
    confirm(chk, replay_case)
    chk.extra_coverage["confirm_s"] = round(time.time() - t1, 1)
    return chk.finish(min_evaluations or chk.pick(nm * 20, nm * 20), min_nontrivial or 50)
