"""Reference canonical OER encoder written from X.696 (08/2015).  No code shared with asn1c."""
from .model import KM_STRINGS, OPAQUE_KINDS, TIME_KINDS
from . import ref_ber
from .ref_per import RefExcluded, choice_order


def length_det(n, ch=ref_ber.CANON):
    """§8.6: length determinant (BASIC-OER need not use the shortest form)."""
    r = ch.pick("len-nonminimal", 4)
    if n < 128 and r != 1:
        return bytes([n])
    b = n.to_bytes(max(1, (n.bit_length() + 7) // 8), "big")
    if r == 1:
        b = b"\x00" * (1 + ch.pick("lenpad", 2)) + b if n >= 128 else b
    return bytes([0x80 | len(b)]) + b


def enc_integer(rt, v, ch=ref_ber.CANON):
    c = rt.cons
    lb = ub = None
    if c is not None and not c.ext:         # §8.2.x: an extensible constraint is not OER-visible
        lb, ub = c.lb(), c.ub()
    if lb is not None and ub is not None:
        if lb >= 0:
            for w in (1, 2, 4, 8):
                if ub <= (1 << (8 * w)) - 1:
                    return v.to_bytes(w, "big")
        else:
            for w in (1, 2, 4, 8):
                if lb >= -(1 << (8 * w - 1)) and ub <= (1 << (8 * w - 1)) - 1:
                    return v.to_bytes(w, "big", signed=True)
    if lb is not None and lb >= 0:
        b = v.to_bytes(max(1, (v.bit_length() + 7) // 8), "big")
        return length_det(len(b), ch) + b
    b = ref_ber.int_content(v)
    return length_det(len(b), ch) + b


def fixed_size(size):
    if size is None or size.ext:
        return None
    lb, ub = size.lb(), size.ub()
    if lb is not None and lb == ub:
        return lb
    return None


def oer_tag(tag):
    cls, num = tag
    c = ref_ber.CLS[cls] << 6
    if num < 63:
        return bytes([c | num])
    return bytes([c | 0x3f]) + ref_ber.base128(num)


def enc(mod, t, v, ch=ref_ber.CANON):
    rt = mod.resolve(t)
    k = rt.kind
    if k == "BOOLEAN":
        return (b"\xff", b"\x01", b"\x80")[ch.pick("bool-true", 3)] if v else b"\x00"
    if k == "NULL":
        return b""
    if k == "INTEGER":
        return enc_integer(rt, v, ch)
    if k == "ENUMERATED":
        if 0 <= v <= 127:
            return bytes([v])
        b = ref_ber.int_content(v)
        return bytes([0x80 | len(b)]) + b
    if k == "REAL":
        b = ref_ber.real_content(v)
        return length_det(len(b), ch) + b
    if k == "BITSTRING":
        if rt.named:
            raise RefExcluded("named-bit BIT STRING")
        data, nbits = v
        nbytes = (nbits + 7) // 8
        data = bytes(data[:nbytes])
        fs = fixed_size(rt.size)
        if fs is not None:
            return data
        return length_det(1 + nbytes, ch) + bytes([nbytes * 8 - nbits]) + data
    if k == "OCTETSTRING":
        if fixed_size(rt.size) is not None:
            return bytes(v)
        return length_det(len(v), ch) + bytes(v)
    if k in KM_STRINGS:
        b = ref_ber.str_octets(k, v)
        if fixed_size(rt.size) is not None:
            return b
        return length_det(len(b), ch) + b
    if k == "UTF8String":
        b = ref_ber.str_octets(k, v)
        return length_det(len(b), ch) + b
    if k in OPAQUE_KINDS:
        return length_det(len(v), ch) + bytes(v)
    if k in TIME_KINDS:
        b = v.encode("ascii")
        return length_det(len(b), ch) + b
    if k in ("OID", "RELOID"):
        b = ref_ber.oid_content(v, k == "RELOID")
        return length_det(len(b), ch) + b
    if k == "SEQUENCE":
        return enc_sequence(mod, rt, v, ch)
    if k == "SET":
        raise RefExcluded("SET (asn1c has no OER codec for it)")
    if k == "CHOICE":
        name, av = v
        sel = [m for m in rt.members if m.name == name][0]
        chains = dict(zip([m.name for m in rt.members], ref_ber.member_chains(mod, rt)))
        tch = chains[name]
        if not tch:
            raise RefExcluded("untagged CHOICE inside CHOICE")
        body = enc(mod, sel.type, av, ch)
        if sel.ext:
            body = length_det(len(body), ch) + body
        return oer_tag(tch[0]) + body
    if k in ("SEQOF", "SETOF"):
        parts = [enc(mod, rt.elem, x, ch) for x in v]
        if k == "SETOF" and len(set(parts)) > 1:
            raise RefExcluded("SET OF with distinct elements (COER ordering not re-derived)")
        n = len(parts)
        q = n.to_bytes(max(1, (n.bit_length() + 7) // 8), "big")
        return bytes([len(q)]) + q + b"".join(parts)
    raise RefExcluded("kind " + k)


def enc_sequence(mod, rt, v, ch=ref_ber.CANON):
    root = [m for m in rt.members if not m.ext]
    adds = [m for m in rt.members if m.ext]

    def present(m):
        if m.name not in v:
            return False
        if m.has_default and v[m.name] == m.default and type(v[m.name]) == type(m.default):
            return ch.pick("default-present", 3) == 1
        return True
    pres = {m.name: present(m) for m in rt.members}
    present = lambda m: pres[m.name]
    adds_present = [present(m) for m in adds]
    # additions of a later version of the type, unknown to the decoder (X.696 16.5): must be skipped
    unknown = []
    if rt.ext and ch.pick("oer-unknown-ext", 4) == 1:
        for i in range(1 + ch.pick("oer-unknown-ext-count", 3)):
            unknown.append(bytes((0xA0 + 17 * i + j) & 0xff for j in range(ch.pick("oer-unknown-ext-len", 5))))
    bits = []
    if rt.ext:
        bits.append(1 if any(adds_present) or unknown else 0)
    for m in root:
        if m.optional or m.has_default:
            bits.append(1 if present(m) else 0)
    out = b""
    if bits:
        while len(bits) % 8:
            bits.append(0)
        val = 0
        for b in bits:
            val = (val << 1) | b
        out += val.to_bytes(len(bits) // 8, "big")
    for m in root:
        if (m.optional or m.has_default) and not present(m):
            continue
        out += enc(mod, m.type, v[m.name], ch)
    if rt.ext and (any(adds_present) or unknown):
        n = len(adds) + len(unknown)
        nbytes = (n + 7) // 8
        val = 0
        for p in adds_present + [True] * len(unknown):
            val = (val << 1) | (1 if p else 0)
        val <<= nbytes * 8 - n
        out += length_det(1 + nbytes, ch) + bytes([nbytes * 8 - n]) + val.to_bytes(nbytes, "big")
        for m, p in zip(adds, adds_present):
            if p:
                b = enc(mod, m.type, v[m.name], ch)
                out += length_det(len(b), ch) + b
        for b in unknown:
            out += length_det(len(b), ch) + b
    return out


def encode(mod, t, v, ch=ref_ber.CANON):
    return enc(mod, t, v, ch)
