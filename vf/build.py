"""Build layer: everything is rebuilt from /repo's *working tree*.

Artefacts are cached under /verif/build/<source-hash>/ so that an edited /repo
is always rebuilt and an unchanged one is not.  Nothing outside /verif/build is
needed by a registered command.
"""
import fcntl
import glob
import hashlib
import os
import shutil
import subprocess
import sys
import time
from concurrent.futures import ThreadPoolExecutor

REPO = os.environ.get("VERIF_REPO", "/repo")
VERIF = os.path.dirname(os.path.dirname(os.path.abspath(__file__)))
BUILD_ROOT = os.path.join(VERIF, "build")
CDIR = os.path.join(VERIF, "c")
NCPU = max(2, os.cpu_count() or 2)

CLANG = "clang"
CLANGXX = "clang++"

SAN_FLAGS = ["-fsanitize=address,undefined", "-fno-sanitize-recover=undefined",
             # NULL+0 pointer arithmetic is reported by this sub-check; three sites were repaired in /repo, the
             # rest of that idiom is accepted (DESIGN.md, Corrections): real overflows still trip ASan
             "-fno-sanitize=pointer-overflow",
             "-fno-omit-frame-pointer"]
VARIANT_FLAGS = {
    # library asserts join the oracle: never -DNDEBUG
    "asan": ["-g", "-O1"] + SAN_FLAGS,
    "fuzz": ["-g", "-O1", "-fsanitize=fuzzer-no-link"] + SAN_FLAGS,
    "tsan": ["-g", "-O1", "-fsanitize=thread"],
    "plain": ["-g", "-O1"],
}
# Guard reserved for hooks inside /repo (none are needed so far, see DESIGN §8)
HOOK_DEFINE = "-DASN1C_VERIF_HOOKS"


class BuildError(Exception):
    pass


def _sha(paths):
    h = hashlib.sha1()
    h.update(repr(sorted(VARIANT_FLAGS.items())).encode())   # a flag change invalidates the cache too
    for p in sorted(paths):
        h.update(p.encode())
        try:
            with open(p, "rb") as f:
                h.update(f.read())
        except OSError:
            h.update(b"<missing>")
    return h.hexdigest()[:16]


def skeleton_sources():
    out = []
    for p in sorted(glob.glob(os.path.join(REPO, "skeletons", "*.c"))):
        if os.path.basename(p) == "converter-example.c":
            continue
        out.append(p)
    return out


def skeleton_inputs():
    return skeleton_sources() + sorted(glob.glob(os.path.join(REPO, "skeletons", "*.h"))) \
        + [os.path.join(REPO, "skeletons", "file-dependencies")]


COMPILER_DIRS = ["libasn1common", "libasn1parser", "libasn1fix", "libasn1print",
                 "libasn1compiler"]


def compiler_sources():
    src = []
    for d in COMPILER_DIRS:
        for p in sorted(glob.glob(os.path.join(REPO, d, "*.c"))):
            b = os.path.basename(p)
            if b.startswith("check_") or b.startswith("check-"):
                continue
            src.append(p)
    src.append(os.path.join(REPO, "asn1c", "asn1c.c"))
    return src


def compiler_inputs():
    ins = compiler_sources()
    for d in COMPILER_DIRS:
        ins += sorted(glob.glob(os.path.join(REPO, d, "*.h")))
        ins += sorted(glob.glob(os.path.join(REPO, d, "*.[yl]")))
    ins.append(os.path.join(REPO, "config.h"))
    return ins


def tools_inputs():
    ins = sorted(glob.glob(os.path.join(REPO, "asn1-tools", "*", "*.[ch]")))
    return ins + compiler_inputs() + skeleton_inputs()


def _run(cmd, cwd=None, what=None):
    r = subprocess.run(cmd, cwd=cwd, stdout=subprocess.PIPE, stderr=subprocess.STDOUT)
    if r.returncode != 0:
        raise BuildError("%s failed (%d): %s\n%s" % (what or cmd[0], r.returncode,
                                                     " ".join(cmd), r.stdout.decode(errors="replace")[-4000:]))
    return r.stdout


def _compile_many(jobs):
    """jobs: list of (cmd, what). Runs in parallel, raises on first failure."""
    if not jobs:
        return
    with ThreadPoolExecutor(max_workers=NCPU) as ex:
        futs = [ex.submit(_run, cmd, None, what) for cmd, what in jobs]
        for f in futs:
            f.result()


class Lock:
    def __init__(self, name):
        os.makedirs(BUILD_ROOT, exist_ok=True)
        self.path = os.path.join(BUILD_ROOT, ".lock." + name)

    def __enter__(self):
        self.f = open(self.path, "w")
        fcntl.flock(self.f, fcntl.LOCK_EX)
        return self

    def __exit__(self, *a):
        fcntl.flock(self.f, fcntl.LOCK_UN)
        self.f.close()


def _config_h_dir(bdir):
    """Directory holding config.h for the compiler build."""
    src = os.path.join(REPO, "config.h")
    d = os.path.join(bdir, "cfg")
    os.makedirs(d, exist_ok=True)
    dst = os.path.join(d, "config.h")
    if os.path.exists(src):
        shutil.copyfile(src, dst)
    else:  # fresh checkout that was never configured
        shutil.copyfile(os.path.join(CDIR, "config.h.fallback"), dst)
    return d


def _prune(keep):
    """Keep the build cache small: drop all but the most recent few hashes."""
    try:
        ds = [d for d in glob.glob(os.path.join(BUILD_ROOT, "*-*")) if os.path.isdir(d)]
    except OSError:
        return
    by_kind = {}
    for d in ds:
        by_kind.setdefault(os.path.basename(d).split("-")[0], []).append(d)
    now = time.time()
    for kind, lst in by_kind.items():
        lst.sort(key=lambda d: os.path.getmtime(d), reverse=True)
        for d in lst[3:]:
            # a directory used within the last two hours may belong to a check that is running right now
            # (another seed, a scratch copy given by VERIF_REPO): every use touches it, see _use()
            if d != keep and now - os.path.getmtime(d) > 7200:
                shutil.rmtree(d, ignore_errors=True)


def _use(path):
    """Marks the cache directory that holds `path` as in use (see _prune)."""
    d = path
    while d and os.path.dirname(d) != BUILD_ROOT:
        nd = os.path.dirname(d)
        if nd == d:
            return path
        d = nd
    try:
        os.utime(d, None)
    except OSError:
        pass
    return path


def asn1c_binary(variant="plain"):
    """Build the asn1c compiler from the working tree. Returns path."""
    h = _sha(compiler_inputs())
    bdir = os.path.join(BUILD_ROOT, "cc-" + h)
    exe = os.path.join(bdir, "asn1c." + variant)
    if os.path.exists(exe):
        return _use(exe)
    with Lock("cc"):
        if os.path.exists(exe):
            return _use(exe)
        os.makedirs(bdir, exist_ok=True)
        cfg = _config_h_dir(bdir)
        flags = ["-g", "-O1", "-w", "-DHAVE_CONFIG_H", "-I" + cfg]
        if variant == "asan":
            flags += ["-fsanitize=address", "-fno-omit-frame-pointer"]
        for d in COMPILER_DIRS + ["skeletons"]:
            flags.append("-I" + os.path.join(REPO, d))
        flags.append('-DDATADIR="%s"' % os.path.join(REPO, "skeletons"))
        odir = os.path.join(bdir, "obj." + variant)
        os.makedirs(odir, exist_ok=True)
        srcs = compiler_sources()
        # make's rule: regenerate the parser when the grammar is newer
        pdir = os.path.join(REPO, "libasn1parser")
        y, yc = os.path.join(pdir, "asn1p_y.y"), os.path.join(pdir, "asn1p_y.c")
        l, lc = os.path.join(pdir, "asn1p_l.l"), os.path.join(pdir, "asn1p_l.c")
        gen = os.path.join(bdir, "gen")
        os.makedirs(gen, exist_ok=True)
        if os.path.getmtime(y) > os.path.getmtime(yc) + 1:
            _run(["bison", "-y", "-p", "asn1p_", "-d", "-o", os.path.join(gen, "asn1p_y.c"), y],
                 what="bison")
            srcs = [os.path.join(gen, "asn1p_y.c") if s == yc else s for s in srcs]
            flags.insert(0, "-I" + gen)
        if os.path.getmtime(l) > os.path.getmtime(lc) + 1:
            _run(["flex", "-s", "-p", "-Cem", "-Pasn1p_", "-o", os.path.join(gen, "asn1p_l.c"), l],
                 what="flex")
            srcs = [os.path.join(gen, "asn1p_l.c") if s == lc else s for s in srcs]
        jobs, objs = [], []
        for s in srcs:
            o = os.path.join(odir, os.path.basename(os.path.dirname(s)) + "_" +
                             os.path.basename(s)[:-2] + ".o")
            objs.append(o)
            jobs.append(([CLANG] + flags + ["-c", s, "-o", o], "cc " + s))
        _compile_many(jobs)
        tmp = exe + ".tmp%d" % os.getpid()
        lflags = ["-fsanitize=address"] if variant == "asan" else []
        _run([CLANG] + lflags + objs + ["-o", tmp], what="link asn1c")
        os.rename(tmp, exe)
        _prune(bdir)
    return _use(exe)


def skel_hash():
    return _sha(skeleton_inputs())


def skel_lib(variant="asan"):
    """Static library of all skeleton files built with the variant's flags."""
    h = skel_hash()
    bdir = os.path.join(BUILD_ROOT, "sk-" + h)
    lib = os.path.join(bdir, "libskel.%s.a" % variant)
    if os.path.exists(lib):
        return _use(lib)
    with Lock("sk-" + variant):
        if os.path.exists(lib):
            return _use(lib)
        odir = os.path.join(bdir, "obj." + variant)
        os.makedirs(odir, exist_ok=True)
        flags = VARIANT_FLAGS[variant] + ["-w", HOOK_DEFINE, "-I" + os.path.join(REPO, "skeletons")]
        jobs, objs = [], []
        for s in skeleton_sources():
            o = os.path.join(odir, os.path.basename(s)[:-2] + ".o")
            objs.append(o)
            jobs.append(([CLANG] + flags + ["-c", s, "-o", o], "cc " + s))
        _compile_many(jobs)
        tmp = lib + ".tmp%d" % os.getpid()
        if os.path.exists(tmp):
            os.unlink(tmp)
        _run(["ar", "rcs", tmp] + objs, what="ar")
        os.rename(tmp, lib)
        _prune(bdir)
    return _use(lib)


def skel_obj(name, variant):
    """Object of one skeleton file (after skel_lib built it)."""
    skel_lib(variant)
    return os.path.join(BUILD_ROOT, "sk-" + skel_hash(), "obj." + variant, name + ".o")


def helper_obj(src_name, variant, extra_flags=(), cxx=False):
    """Compile one of /verif/c/*.c(pp) against the skeleton headers (cached on both hashes)."""
    src = os.path.join(CDIR, src_name)
    h = _sha([src] + sorted(glob.glob(os.path.join(CDIR, "*.h")) + glob.glob(os.path.join(CDIR, "*.inc")))) + "-" + skel_hash()
    bdir = os.path.join(BUILD_ROOT, "hp-" + skel_hash())
    os.makedirs(bdir, exist_ok=True)
    tag = hashlib.sha1((" ".join(extra_flags)).encode()).hexdigest()[:6]
    o = os.path.join(bdir, "%s.%s.%s.%s.o" % (src_name.replace("/", "_"), variant, h[:10], tag))
    if os.path.exists(o):
        return _use(o)
    flags = VARIANT_FLAGS[variant] + ["-Wall", "-Wno-unused-function", HOOK_DEFINE,
                                      "-I" + os.path.join(REPO, "skeletons"), "-I" + CDIR] + list(extra_flags)
    tmp = o + ".tmp%d" % os.getpid()
    _run([CLANGXX if cxx else CLANG] + (["-std=gnu++17"] if cxx else []) + flags + ["-c", src, "-o", tmp],
         what="cc " + src_name)
    os.rename(tmp, o)
    _prune(bdir)
    return _use(o)


def tool_binary(name, variant="asan"):
    """unber / enber built from the working tree."""
    h = _sha(tools_inputs())
    bdir = os.path.join(BUILD_ROOT, "tl-" + h)
    exe = os.path.join(bdir, "%s.%s" % (name, variant))
    if os.path.exists(exe):
        return _use(exe)
    with Lock("tl"):
        if os.path.exists(exe):
            return _use(exe)
        os.makedirs(bdir, exist_ok=True)
        cfg = _config_h_dir(bdir)
        flags = VARIANT_FLAGS[variant] + ["-w", "-DHAVE_CONFIG_H", "-I" + cfg,
                                          "-I" + os.path.join(REPO, "skeletons"),
                                          "-I" + os.path.join(REPO, "libasn1common"),
                                          "-I" + os.path.join(REPO, "libasn1parser"),
                                          "-I" + os.path.join(REPO, "libasn1fix"),
                                          "-I" + os.path.join(REPO, "asn1-tools", "unber")]
        if name == "unber":
            srcs = [os.path.join(REPO, "asn1-tools/unber/unber.c"),
                    os.path.join(REPO, "asn1-tools/unber/libasn1_unber_tool.c")]
        elif name == "enber":
            srcs = [os.path.join(REPO, "asn1-tools/enber/enber.c")]
        else:
            raise BuildError("unknown tool " + name)
        srcs += [os.path.join(REPO, "libasn1common", f) for f in
                 ("asn1_ref.c", "asn1_buffer.c", "asn1_namespace.c", "genhash.c")]
        tmp = exe + ".tmp%d" % os.getpid()
        _run([CLANG] + flags + srcs + [skel_lib(variant), "-lm", "-o", tmp], what="build " + name)
        os.rename(tmp, exe)
        _prune(bdir)
    return _use(exe)


def warm(variants=("asan",)):
    t = time.time()
    a = asn1c_binary()
    libs = [skel_lib(v) for v in variants]
    return a, libs, time.time() - t


if __name__ == "__main__":
    v = sys.argv[1:] or ["asan"]
    a, libs, dt = warm(v)
    print(a, libs, "%.1fs" % dt)
