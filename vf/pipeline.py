"""Module-level pipeline shared by the codec properties: draw modules, build them with the asn1c
from /repo, run Hypothesis value tests against the running driver."""
import os

from hypothesis import given, settings, seed as hseed, HealthCheck, Phase, strategies as st
from hypothesis import errors as herrors

from . import gen, drv, build, ref_ber
from .model import Module, val_to_json, val_repr
from .common import Acc, h


FLAKY = (herrors.Flaky, herrors.FlakyFailure) if hasattr(herrors, "FlakyFailure") else (herrors.Flaky,)


class Fail(Exception):
    """A property violation found for one case (raised inside a Hypothesis test body)."""

    def __init__(self, key, summary, replay):
        Exception.__init__(self, summary)
        self.key, self.summary, self.replay = key, summary, replay


def draw_modules(seed, n, cfg=None, strategy=None):
    """n modules drawn by Hypothesis from the given seed (generation only, no shrinking here)."""
    mods = []
    strat = strategy if strategy is not None else gen.module(cfg)

    @hseed(seed)
    @settings(max_examples=n, database=None, deadline=None, suppress_health_check=list(HealthCheck),
              phases=[Phase.generate])
    @given(strat)
    def collect(m):
        mods.append(m)
    collect()
    # hypothesis may stop early when the space is small; it never yields more than n
    return mods


def compile_module(mod, flags=drv.DEFAULT_FLAGS, variant="asan", acc=None, **kw):
    """Build; if asn1c or the C compiler refuses the module, drop the offending types (found by
    compiling each type's closure alone with asn1c) and retry once.  Returns (build, module, rejected)."""
    rejected = []
    try:
        return drv.ModuleBuild(mod.render(), flags, variant, **kw), mod, rejected
    except drv.CompileError as e:
        first = e
    # find offenders with the compiler alone (13 ms each)
    bad = set()
    for name, t in mod.types:
        sub = mod.subset([name])
        d = drv.mkwork("probe")
        try:
            rc, out = drv.run_asn1c(sub.render(), d, flags)
            if rc != 0:
                bad.add(name)
                rejected.append({"type": name, "stage": "asn1c", "rc": rc, "text": sub.render(),
                                 "output": out[-800:]})
        finally:
            import shutil
            shutil.rmtree(d, ignore_errors=True)
    if not bad and first.stage.startswith("cc "):
        # the C compiler refused a generated file: blame the type the file belongs to
        import re
        names = {n for n, _ in mod.types}
        for fn in set(re.findall(r"gen/([A-Za-z0-9_-]+)\.[ch]", first.output)) | {first.stage[3:-2]}:
            if fn in names:
                bad.add(fn)
                rejected.append({"type": fn, "stage": first.stage, "rc": first.rc, "text": mod.subset([fn]).render(),
                                 "output": first.output[-800:]})
    if not bad:
        rejected.append({"type": "*", "stage": first.stage, "rc": first.rc, "text": mod.render(),
                         "output": first.output[-1500:]})
        return None, mod, rejected
    # drop offenders and everything that depends on them
    keep = []
    for name, t in mod.types:
        clo = {n for n, _ in mod.subset([name]).types}
        if not (clo & bad):
            keep.append(name)
    mod2 = Module(mod.name, mod.tagdefault, [(n, t) for n, t in mod.types if n in keep], mod.extra_text)
    if not mod2.types:
        return None, mod2, rejected
    try:
        return drv.ModuleBuild(mod2.render(), flags, variant, **kw), mod2, rejected
    except drv.CompileError as e:
        rejected.append({"type": "*", "stage": e.stage, "rc": e.rc, "text": mod2.render(), "output": e.output[-1500:]})
        return None, mod2, rejected


class Session:
    """A driver process that is restarted transparently after a crash."""

    def __init__(self, mb, **kw):
        self.mb = mb
        self.kw = kw
        self.d = mb.driver(**kw)
        self.crashes = 0

    def cmd(self, line):
        try:
            return self.d.cmd(line)
        except drv.DriverCrash:
            self.crashes += 1
            try:
                self.d.kill()
            except Exception:
                pass
            self.d = self.mb.driver(**self.kw)
            raise

    def close(self):
        return self.d.close()


def run_given(strategy, body, n, seed, shrink=True):
    """Run body(x) over n examples.  Returns None or the (shrunk) Fail."""
    phases = [Phase.generate, Phase.shrink] if shrink else [Phase.generate]

    @hseed(seed)
    @settings(max_examples=n, database=None, deadline=None, suppress_health_check=list(HealthCheck),
              phases=phases, report_multiple_bugs=False)
    @given(strategy)
    def t(x):
        body(x)
    try:
        t()
    except Fail as f:
        return f
    except FLAKY as e:
        return Fail("flaky", "unreproduced (flaky) failure: %s" % e, {"flaky": True})
    return None


def type_features(mod, t, _seen=None, depth=0):
    """Feature strings of a type's closure (used for the class histogram and known-class predicates)."""
    out = set()
    _seen = _seen if _seen is not None else set()

    def walk(t, d, named=False):
        if named and t.kind in ("UTCTime", "GeneralizedTime"):
            out.add("time.named")
        if t.tag:
            out.add("tag")
            if t.tag[1] >= 31:
                out.add("tag.long")
        k = t.kind
        if k == "REF":
            out.add("ref")
            if t.ref in _seen:
                out.add("recursive")
                return
            _seen.add(t.ref)
            walk(mod.lookup(t.ref), d, True)
            return
        out.add(k)
        if d >= 2:
            out.add("nest>=2")
        if t.cons:
            out.add("cons.value")
            if t.cons.ext:
                out.add("cons.ext")
            lb, ub = t.cons.lb(), t.cons.ub()
            if lb is not None and ub is None:
                out.add("int.semi")
                if lb != 0:
                    out.add("int.semi.lb!=0")
            if lb is None and (ub is not None):
                out.add("int.min..ub")
            if ub is not None and ub > (1 << 63) - 1:
                out.add("int.ub>int64")
        if t.size:
            out.add("cons.size")
            if t.size.ext:
                out.add("cons.ext")
                if t.size.ub() is None or t.size.ub() >= 65536:
                    out.add("size.ext.ub>=64K")
        if t.alpha:
            out.add("cons.from")
            cps = sorted({c for lo, hi in t.alpha.ranges for c in range(lo, hi + 1)})
            contiguous = cps[-1] - cps[0] + 1 == len(cps)
            bits = max(0, (len(cps) - 1).bit_length())
            if not contiguous and cps[-1] > 255 and cps[-1] > (1 << bits) - 1:
                out.add("from.sparse>255")
        if t.ext:
            out.add("ext." + k)
            if k == "ENUMERATED" and t.ext_named and t.named and min(v for _, v in t.ext_named) < max(v for _, v in t.named):
                out.add("enum.addition-below-root")
            if k == "SEQUENCE" and not t.members:
                out.add("seq.empty-ext")
        if t.named and k in ("INTEGER", "BITSTRING"):
            out.add("named." + k)
        for m in t.members:
            if m.optional:
                out.add("optional")
            if m.has_default:
                out.add("default")
            if m.ext:
                out.add("ext.addition")
            walk(m.type, d + 1)
        if t.elem:
            walk(t.elem, d + 1)
    walk(t, depth, True)
    # longest tag chain anywhere in the closure (the DER encoder has a system limit of 4 tags per type)
    try:
        from . import ref_ber
        seen = set()

        def chains(t):
            if t.kind == "REF":
                if t.ref in seen:
                    return
                seen.add(t.ref)
            if len(ref_ber.tagchain(mod, t)) >= 4:
                out.add("tagchain>=4")
            rt = mod.resolve(t)
            if rt.kind in ("SEQUENCE", "SET", "CHOICE"):
                for m, ch in zip(rt.members, ref_ber.member_chains(mod, rt)):
                    if len(ch) >= 4:
                        out.add("tagchain>=4")
                    chains(m.type)
            elif rt.elem is not None:
                chains(rt.elem)
        chains(t)
    except (KeyError, ValueError):
        pass
    return out


def min_element_count(mod, t, _depth=0, _seen=None):
    """Lower bound of the number of collection elements in any value of the type (product of nested SIZE lower bounds)."""
    _seen = _seen or set()
    rt = t
    if t.kind == "REF":
        if t.ref in _seen or _depth > 12:
            return 1
        _seen = _seen | {t.ref}
        rt = mod.lookup(t.ref)
        return min_element_count(mod, rt, _depth + 1, _seen)
    k = rt.kind
    if k in ("SEQOF", "SETOF"):
        lb = rt.size.lb() if rt.size is not None and rt.size.lb() is not None else 0
        return max(1, lb * min_element_count(mod, rt.elem, _depth + 1, _seen)) if lb else 1
    if k in ("SEQUENCE", "SET"):
        return max([1] + [min_element_count(mod, m.type, _depth + 1, _seen) for m in rt.members
                          if not (m.optional or m.has_default)]) if rt.members else 1
    if k == "CHOICE":
        return min([min_element_count(mod, m.type, _depth + 1, _seen) for m in rt.members] or [1])
    return 1


def is_plain(feats):
    """A type with none of the features that make a case non-trivial."""
    return not (feats & {"tag", "cons.value", "cons.size", "cons.from", "optional", "default", "nest>=2",
                         "ext.SEQUENCE", "ext.SET", "ext.CHOICE", "ext.ENUMERATED"})


def trivial_value(v):
    return v in (None, 0, False, b"", "", [], {}, ()) or v == (b"", 0)


def value_features(mod, t, v, out=None):
    """Feature strings of a value (for known-class predicates and histograms)."""
    out = out if out is not None else set()
    rt = mod.resolve(t)
    k = rt.kind
    if k == "BITSTRING":
        data, n = v
        if n and not rt.named and not (data[(n - 1) // 8] >> (7 - (n - 1) % 8)) & 1:
            fixed = rt.size and not rt.size.ext and len(rt.size.ranges) == 1 and rt.size.ranges[0][0] == rt.size.ranges[0][1] \
                and rt.size.ranges[0][0] < 65536
            out.add("bits.trailing0.fixed" if fixed else "bits.trailing0")
        if rt.size and not rt.named and rt.size.lb() is not None and n < rt.size.lb():
            out.add("bits.trailing0")     # shorter than the root lower bound: the codec pads with 0 bits
    elif k in ("NumericString", "PrintableString", "IA5String", "VisibleString", "ISO646String", "BMPString",
               "UniversalString"):
        if rt.size and rt.size.ext and not rt.size.contains_root(len(v)):
            out.add("kmstr.size-ext-outside")
    elif k in ("INTEGER", "ENUMERATED"):
        if v > (1 << 63) - 1 or v < -(1 << 63):
            out.add("int.beyond-long")
        c = rt.cons
        if k == "INTEGER" and v < 0 and c is not None and c.ext and c.lb() is not None and c.lb() >= 0 \
                and (c.ub() is None or (1 << 31) - 1 < c.ub() <= (1 << 32) - 1):
            # asn1c_type_fits_long() picks `unsigned long` from the root of an extensible constraint
            out.add("int.negative-vs-unsigned-ext-root")
    elif k == "REAL":
        if v == v and v != 0 and abs(v) < 2.2250738585072014e-308:
            out.add("real.subnormal")
        if v != v:
            out.add("real.nan")
        elif v not in (float("inf"), float("-inf")) and float("%.15f" % v) != v:
            out.add("real.lossy15f")
    elif k in ("SEQUENCE", "SET"):
        for m in rt.members:
            if m.name in v:
                value_features(mod, m.type, v[m.name], out)
    elif k == "CHOICE":
        for m in rt.members:
            if m.name == v[0]:
                if m.ext:
                    out.add("choice.ext-alt")
                value_features(mod, m.type, v[1], out)
    elif k in ("SEQOF", "SETOF"):
        if len(v) > 200:
            try:
                from . import ref_per
                b = ref_per.Bits()
                ref_per.enc(mod, rt.elem, v[0], b)
                if b.n == 0:
                    out.add("zero-width>200")
            except Exception:
                pass
        for x in v[:50]:
            value_features(mod, rt.elem, x, out)
    return out
