"""C06 — canonical encodings depend only on the abstract value, not on its representation."""
import sys

from hypothesis import strategies as st

from . import gen, drv, ref_ber, pipeline, valcheck, runner
from .common import h, KNOWN
from .c03 import ListChooser
from .model import val_to_json, val_from_json

PID = "C06"
RULE = ("value v -> structure S (decoded from the reference DER) and S' (decoded from a Hypothesis-drawn alternative BER "
        "encoding of v: permuted SET/SET OF, DEFAULT present, constructed strings, padded lengths...) then mutated in memory "
        "by a descriptor-driven walker: SET OF arrays permuted, INTEGER_t/ENUMERATED_t buffers padded with redundant sign "
        "octets (-fwide-types builds), absent DEFAULT members materialised through the member's default_value_set / present "
        "default-equal members removed, unused bits of the last BIT STRING octet set; DER, CANONICAL-XER, canonical UPER and "
        "canonical OER of S and S' must be byte-identical (compare_struct results are only counted); non-trivial = at least one "
        "mutation applied or one non-canonical BER decision taken; distinct by (type, value, decisions, mutation mask)")
FLAG_SETS = [("-fcompound-names",), ("-fcompound-names", "-fwide-types")]
MUT_NAMES = {1: "permute", 2: "pad", 4: "materialise", 8: "dematerialise", 16: "noise"}

KNOWN_CLASSES = {
    # values outside the C long range are printed by the XER encoders as a hex dump of the INTEGER_t buffer
    "int.beyond-long.xer": lambda f, syn: "int.beyond-long" in f,
    "tagchain.four-or-more.der": lambda f, syn: "tagchain>=4" in f,
}


def flags_for(wseed):
    return FLAG_SETS[wseed % 2]


def strategy(mod, t, cfg, feats):
    return st.tuples(gen.values(mod, t, cfg), st.lists(st.integers(0, 1 << 16), max_size=40),
                     st.sampled_from([31, 31, 1, 2, 4, 8, 16, 5, 10, 0]))


def value_of(x):
    return x[0]


def with_value(x, v2, mod, tname):
    return (v2, x[1], x[2])


def make_replay(mod, tname, t, x, flags=None):
    r = {"module": mod.subset([tname]).to_json(), "type": tname,
         "x": {"value": val_to_json(x[0]), "decisions": list(x[1]), "mutations": x[2]}}
    return r


def case_from_replay(mod, case):
    x = case["x"]
    return (val_from_json(x["value"]), list(x["decisions"]), x["mutations"])


def run_case(sess, mod, tname, t, x, feats, acc):
    v, decisions, mut = x
    vfeats = feats | pipeline.value_features(mod, t, v)
    if not getattr(acc, "probe", False):
        for cls, pred in KNOWN_CLASSES.items():
            if KNOWN.is_known(PID, cls) and pred(vfeats, None):
                acc.excluded["known:" + cls] += 1
                return None
    refder = ref_ber.encode(mod, t, v)
    ch = ListChooser(decisions)
    ch.no_mixed_chain = True
    ch.suppress.add("unknown-ext")      # unknown additions are not part of the abstract value the encoders must reproduce
    variant = ref_ber.encode(mod, t, v, ch)
    replay = make_replay(mod, tname, t, x)
    reply = sess.cmd("canon %s %s %s %d" % (tname, drv.hexs(refder), drv.hexs(variant), mut))
    if "inject" in reply:
        acc.excluded["inject-failed"] += 1
        return None
    if reply.get("variant") == "rejected":
        acc.excluded["variant-rejected(C03's business)"] += 1
        return None
    applied = {n: int(reply.get(n, 0)) for n in ("permute", "pad", "mat", "demat", "noise")}
    classes = list(feats) + ["mut." + n for n, c in applied.items() if c] + ["var." + u for u in ch.used]
    nontrivial = any(applied.values()) or bool(ch.used)
    nt = h(t.render(), val_to_json(v), decisions, mut) if nontrivial else None
    known_syn = set()
    if not getattr(acc, "probe", False):
        if KNOWN.is_known(PID, "bitstring.unused-bits-noise") and applied["noise"]:
            known_syn |= {"uper", "oer"}
        if KNOWN.is_known(PID, "setof.unsorted.oer") and "SETOF" in feats:
            known_syn |= {"oer"}       # any array order reaches the wire (BER variants reorder elements too)
        if KNOWN.is_known(PID, "default-present.cxer") and (applied["mat"] or applied["demat"] or ch.used.get("default-present")):
            known_syn |= {"cxer"}
        if KNOWN.is_known(PID, "real.wide-types.noncanonical-form-kept") and "REAL" in feats and \
                any(u.startswith("real-") for u in ch.used):
            known_syn |= {"der", "uper", "oer"}
    probs = []
    what = "mutations applied: %s; BER decisions: %s" % (
        ", ".join("%s x%d" % kv for kv in applied.items() if kv[1]) or "none",
        ", ".join("%s x%d" % kv for kv in sorted(ch.used.items())) or "none")
    if reply.get("cmp") != "0" or reply.get("rcmp") != "0":
        # the property speaks about the encoders only; compare_struct disagreements are counted, not judged
        acc.extra["compare_struct_nonzero_on_equal_values"] += 1
    for syn in ("der", "cxer", "uper", "oer"):
        r = reply.get(syn)
        if r in ("same", "nocodec", "bothfail", None):
            continue
        if syn in known_syn:
            acc.excluded["known:%s" % syn] += 1
            continue
        if r == "differ":
            probs.append(("differ." + syn, "%s of S and S' differ (%s)\n  S : %s\n  S': %s" % (
                syn, what, reply.get("a." + syn), reply.get("b." + syn))))
        else:
            probs.append(("onefail." + syn, "%s encodes one of S/S' and fails on the other (%s): %s" % (syn, what, reply["_raw"][:400])))
    return probs, classes, nt, replay


def main(argv):
    return runner.run_module_check(
        PID, "exploration", RULE, valcheck.worker, lambda case: valcheck.replay_case(sys.modules[__name__], case), argv,
        n_modules=(30, 300), n_values=(40, 120), extra_worker_args=("vf.c06",),
        assumptions=["only mutations that provably keep the abstract value are applied (REAL is not byte-padded)",
                     "half of the modules are built with -fwide-types so that INTEGER_t padding applies"])


if __name__ == "__main__":
    sys.exit(main(sys.argv[1:]))
