"""C07 — encoder API contract: exact size accounting, bounded writes, clean failure."""
import sys

from hypothesis import strategies as st

from . import gen, drv, ref_ber, pipeline, valcheck, runner
from .common import h, KNOWN
from .model import val_to_json, val_from_json

HANG_IS_VERDICT = True     # "terminates" is part of this property
PID = "C07"
RULE = ("structures: valid values, constraint-violating values (injected through BER, which does not validate) and "
        "structures broken by a walker (mandatory pointer member nulled, CHOICE selector 0 / out of range, empty INTEGER_t "
        "buffer) x five encoders x faults: asn_encode_to_buffer with EVERY buffer size 0..n+1 (exact-size heap buffers under "
        "ASan), asn_encode_to_new_buffer, and the output callback failing at EVERY call index (sampled above 400); oracle: "
        "reported size == bytes delivered, same size for every buffer size, bytes equal the callback stream, failure => -1 "
        "with errno set (EIO for a failing callback), no allocation left behind, no abort/hang; non-trivial = a fault "
        "actually fired or the structure is invalid; distinct by (type, value, break)")
BREAKS = [(0, 0), (0, 0), (0, 0), (1, 0), (1, 1), (1, 2), (2, 0), (2, 1), (3, 0), (3, 1), (4, 0), (4, 1)]


def strategy(mod, t, cfg, feats):
    cfg2 = gen.Cfg(**dict(cfg.__dict__, violate=0.3))
    return st.tuples(gen.values(mod, t, cfg2), st.sampled_from(BREAKS))


def value_of(x):
    return x[0]


def with_value(x, v2, mod, tname):
    return (v2, x[1])


def make_replay(mod, tname, t, x):
    return {"module": mod.subset([tname]).to_json(), "type": tname, "x": {"value": val_to_json(x[0]), "break": list(x[1])}}


def case_from_replay(mod, case):
    return (val_from_json(case["x"]["value"]), tuple(case["x"]["break"]))


BAD_PREFIXES = ("badret.", "noerrno.", "tobuf-", "newbuf", "cbfail-", "sizemismatch.")


MAX_ENUM_OCTETS = 6000
# every third module is built with -fwide-types and then carries INTEGER values up to 2^330 (the hex-dump XER paths)
FLAG_SETS = [("-fcompound-names",), ("-fcompound-names",), ("-fcompound-names", "-fwide-types")]
WIDE_VALUES_WITH_WIDE_TYPES = True


def flags_for(wseed):
    return FLAG_SETS[wseed % 3]


def run_case(sess, mod, tname, t, x, feats, acc):
    v, (bk, target) = x
    refder = ref_ber.encode(mod, t, v)
    if len(refder) > MAX_ENUM_OCTETS and not getattr(acc, "probe", False):
        # the enumeration is (buffer sizes + callback indices) x five encoders x one full encoding each: for values of
        # tens of kilobytes it runs into the driver's reply timeout, and a time limit is not an oracle
        acc.excluded["value too large for the fault enumeration (> %d octets of DER)" % MAX_ENUM_OCTETS] += 1
        return None
    cmdline = "contract %s %s" % (tname, drv.hexs(refder))
    if bk:
        cmdline += " %d %d" % (bk, target)
    reply = sess.cmd(cmdline)
    replay = make_replay(mod, tname, t, x)
    if "inject" in reply:
        acc.excluded["inject-failed"] += 1
        return None
    broke = reply.get("broke") == "1"
    faults, fired = int(reply.get("faults", 0)), int(reply.get("fired", 0))
    acc.extra["faults_injected"] += faults
    acc.extra["faults_fired"] += fired
    classes = list(feats) + ["break.%d" % bk if broke else "break.none"]
    failed_syn = [s for s in ("der", "oer", "uper", "xer", "cxer") if str(reply.get(s, "")).startswith("fail")]
    for s in failed_syn:
        classes.append("encfail." + s)
    nt = h(t.render(), val_to_json(v), bk if broke else 0, target if broke else 0) if (fired or broke or failed_syn) else None
    probs = []
    for k, val in reply.items():
        if k.startswith(BAD_PREFIXES):
            probs.append((k.split(".")[0] + "." + k.split(".")[-1], "%s=%s (structure %s; reply: %s)" % (
                k, val, "broken kind %d site %d" % (bk, target) if broke else "as decoded", reply["_raw"][:600])))
    return probs, classes, nt, replay


def main(argv):
    return runner.run_module_check(
        PID, "fault_enumeration", RULE, valcheck.worker, lambda case: valcheck.replay_case(sys.modules[__name__], case), argv,
        n_modules=(30, 300), n_values=(25, 80), extra_worker_args=("vf.c07",),
        assumptions=["errno is only required to be EIO for a failing callback and non-zero for an unencodable structure",
                     "buffer sizes are enumerated exhaustively up to 600 octets and every 97th size beyond; callback "
                     "indices exhaustively up to 400 calls"])


if __name__ == "__main__":
    sys.exit(main(sys.argv[1:]))
