"""Hypothesis strategies: ASN.1 modules over the supported type algebra, and values of a type.

Every random choice goes through Hypothesis.  Generation is constructive: tags are assigned so
that the module is unambiguous (no filtering in the hot path).
"""
import math
import struct

from hypothesis import strategies as st

from .model import (T, Member, Module, Cons, KM_STRINGS, STR_KINDS, OPAQUE_KINDS, TIME_KINDS,
                    builtin_alphabet, NUMERIC_ALPHA, PRINTABLE_ALPHA)
from . import ref_ber

# tag numbers around the 1/2/3/4-octet identifier boundaries (2^30-1 is the largest the library's
# ber_tlv_tag_t can hold: number<<2 in 32 bits)
TAG_BOUNDARY = [0, 1, 30, 31, 127, 128, 16383, 16384, 2097151, 2097152, (1 << 28) - 1, 1 << 28, (1 << 30) - 1]
INT_BOUNDARY = sorted(set(
    [0, 1, -1, 2, -2, 127, 128, 129, -127, -128, -129, 255, 256, 257, -255, -256, -257, 32767, 32768, -32768,
     -32769, 65535, 65536, 65537, 8388607, 8388608, -8388608, -8388609]
    + [s * ((1 << k) + d) for k in (15, 16, 23, 24, 31, 32, 39, 40, 47, 48, 55, 56, 62) for d in (-1, 0, 1)
       for s in (1, -1)]
    + [(1 << 63) - 1, -(1 << 63), (1 << 63) - 2, -(1 << 63) + 1]))
I64_MIN, I64_MAX, U64_MAX = -(1 << 63), (1 << 63) - 1, (1 << 64) - 1
LEN_BOUNDARY = [0, 1, 2, 3, 15, 16, 17, 63, 64, 65, 127, 128, 129, 255, 256, 257]
LEN_BIG = [16383, 16384, 16385, 32767, 32768, 49152, 65535, 65536, 65537]

PRIM_SIMPLE = ["BOOLEAN", "INTEGER", "ENUMERATED", "NULL", "REAL", "BITSTRING", "OCTETSTRING", "OID", "RELOID",
               "UTF8String", "NumericString", "PrintableString", "IA5String", "VisibleString", "BMPString",
               "UniversalString", "GeneralString", "GraphicString", "TeletexString", "T61String",
               "VideotexString", "ObjectDescriptor", "UTCTime", "GeneralizedTime"]
MEMBER_NAMES = ["a", "b", "c", "d", "e", "f", "g", "h", "i", "j", "k", "l", "m", "n", "o", "p", "q", "r", "s",
                "t", "u", "v", "w", "x", "y", "z"]
ODD_NAMES = ["long-name", "int", "class", "a-b-c", "value", "present", "list", "choice", "id1", "x2y"]


class Cfg:
    """What the generator may produce (property checks narrow this)."""

    def __init__(self, **kw):
        self.max_depth = 3
        self.kinds = list(PRIM_SIMPLE)
        self.constructed = ["SEQUENCE", "SET", "CHOICE", "SEQOF", "SETOF"]
        self.constraints = True
        self.ext_constraints = True      # extensible value/size constraints
        self.extensions = True           # extension markers in SEQUENCE/SET/CHOICE/ENUMERATED
        self.tags = True
        self.defaults = True
        self.recursion = True
        self.refs = True
        self.big_sizes = False           # SIZE bounds/values at 16K/64K
        self.max_types = 24
        self.min_types = 8
        self.tagdefaults = ["EXPLICIT", "IMPLICIT", "AUTOMATIC"]
        self.wide_ints = False           # INTEGER values beyond 64 bits (needs -fwide-types)
        self.real_subnormal = True
        self.max_members = 6
        self.odd_names = True
        self.violate = 0                 # probability that a constrained node gets an out-of-constraint value
        self.__dict__.update(kw)


# ------------------------------------------------------------------ small helpers
def biased_int(lo, hi, boundaries=INT_BOUNDARY):
    """Integers in [lo, hi] with bias to the bounds and to width boundaries."""
    cands = [x for x in {lo, hi, lo + 1, hi - 1} if lo <= x <= hi]
    cands += [b for b in boundaries if lo <= b <= hi]
    if hi - lo < 64:
        return st.integers(lo, hi)
    return st.one_of(st.sampled_from(sorted(set(cands))), st.integers(lo, hi),
                     st.integers(max(lo, -300), min(hi, 300)) if lo <= 300 and hi >= -300 else st.integers(lo, hi))


@st.composite
def int_constraint(draw, cfg, unsigned_only=False, size=False):
    """A value constraint (or SIZE constraint when size=True) in set form."""
    what = "size" if size else "value"
    shape = draw(st.sampled_from(["range", "range", "single", "semi", "union", "width", "minmax"] if not size else
                                 ["range", "range", "single", "semi", "union", "fixedsmall"]))
    if size:
        bounds = LEN_BOUNDARY + (LEN_BIG if cfg.big_sizes else [])
        lo = draw(st.sampled_from([0, 0, 1, 2, 3, 4, 5, 8, 16]) | st.sampled_from(bounds))
        if shape == "single" or shape == "fixedsmall":
            n = draw(st.integers(1, 6)) if shape == "fixedsmall" else lo
            rs = [(n, n)]
        elif shape == "semi":
            rs = [(lo, None)]
        elif shape == "union":
            hi = lo + draw(st.integers(0, 6))
            lo2 = hi + draw(st.integers(2, 40))
            rs = [(lo, hi), (lo2, lo2 + draw(st.integers(0, 8)))]
        else:
            rs = [(lo, lo + draw(st.sampled_from([0, 1, 2, 3, 7, 8, 15, 100, 127, 128, 255, 256, 1000]) | st.integers(0, 300)))]
            if cfg.big_sizes and draw(st.integers(0, 3)) == 0:
                rs = [(lo, draw(st.sampled_from(LEN_BIG)))]
    else:
        if shape == "width":
            # range whose width is exactly at a bit/octet boundary
            k = draw(st.sampled_from([1, 7, 8, 9, 15, 16, 17, 31, 32, 33, 63, 64]))
            span = (1 << k) - 1 + draw(st.sampled_from([-1, 0, 0, 1]))
            span = max(0, span)
            lo = draw(st.sampled_from([0, 0, 1, -1, -128, -32768, 10, -(1 << 31), -(1 << 63)]))
            hi = lo + span
            if hi > U64_MAX:
                lo, hi = 0, min(span, U64_MAX)
            if lo < 0 and hi > I64_MAX:
                lo, hi = 0, min(span, U64_MAX)
            rs = [(lo, hi)]
        elif shape == "single":
            rs = [(draw(biased_int(I64_MIN, I64_MAX)),) * 2]
        elif shape == "semi":
            rs = [(draw(st.sampled_from([0, 0, 1, -1, 5, -128, 256, 1 << 32]) | biased_int(I64_MIN, I64_MAX)), None)]
        elif shape == "minmax":
            r = draw(st.integers(0, 2))
            b = draw(biased_int(I64_MIN, I64_MAX))
            rs = [(None, b)] if r == 0 else ([(None, None)] if r == 1 else [(b, None)])
        elif shape == "union" and draw(st.integers(0, 2)) == 0:
            # two ranges whose hull is exactly a native type's range (the compiler short-cuts on the hull)
            lo_, hi_ = draw(st.sampled_from([(0, (1 << 32) - 1), (0, 255), (0, 65535), (-128, 127), (-32768, 32767),
                                             (-(1 << 31), (1 << 31) - 1), (0, (1 << 31) - 1), (0, I64_MAX), (I64_MIN, I64_MAX)]))
            k1, k2 = draw(st.integers(0, 20)), draw(st.integers(0, 20))
            if lo_ + k1 + 1 < hi_ - k2:
                rs = [(lo_, lo_ + k1), (hi_ - k2, hi_)]
            else:
                rs = [(lo_, hi_)]
        elif shape == "union":
            a = draw(biased_int(-70000, 70000))
            b = a + draw(st.integers(0, 300))
            c = b + draw(st.integers(2, 70000))
            d = c + draw(st.integers(0, 300))
            rs = [(a, b), (c, d)]
        else:
            a = draw(biased_int(I64_MIN, U64_MAX))
            b = draw(biased_int(I64_MIN, U64_MAX))
            lo, hi = min(a, b), max(a, b)
            if lo < 0 and hi > I64_MAX:
                hi = I64_MAX
            rs = [(lo, hi)]
        if unsigned_only:
            rs = [(max(0, lo or 0), hi if hi is None or hi >= 0 else 0) for lo, hi in rs]
    ext = cfg.ext_constraints and draw(st.integers(0, 4)) == 0
    return Cons(what, rs, ext)


@st.composite
def alphabet_constraint(draw, kind):
    base = builtin_alphabet(kind)
    if kind in ("BMPString", "UniversalString"):
        pool = [0x41, 0x42, 0x43, 0x61, 0x7a, 0x30, 0x39, 0x20, 0xe9, 0x3b1, 0x4e2d, 0xfffd]
        if kind == "UniversalString":
            pool += [0x1f600, 0x10000]
    else:
        pool = list(base)
    shape = draw(st.integers(0, 3))
    if shape == 0:   # one range
        a = draw(st.sampled_from(pool))
        span = draw(st.sampled_from([0, 1, 2, 3, 4, 7, 8, 9, 15, 16, 25]))
        hi = a + span
        if kind in ("NumericString", "PrintableString"):
            # ranges must stay inside the (non-contiguous) base alphabet
            ok = [c for c in range(a, hi + 1) if c in base]
            return Cons("from", [(c, c) for c in ok])
        hi = min(hi, base[-1])
        return Cons("from", [(a, hi)])
    n = draw(st.sampled_from([1, 2, 3, 4, 5, 8, 9, 16]))
    chars = sorted(set(draw(st.lists(st.sampled_from(pool), min_size=1, max_size=n))))
    return Cons("from", [(c, c) for c in chars])


# ------------------------------------------------------------------ types
class Ctx:
    def __init__(self, cfg, tagdefault):
        self.cfg = cfg
        self.tagdefault = tagdefault
        self.names = []       # names of types already defined (targets for references)
        self.types = {}


@st.composite
def primitive(draw, ctx, kinds=None):
    cfg = ctx.cfg
    k = draw(st.sampled_from(kinds or cfg.kinds))
    t = T(k)
    c = cfg.constraints and draw(st.booleans())
    if k == "INTEGER":
        if c:
            t.cons = draw(int_constraint(cfg))
        if draw(st.integers(0, 5)) == 0:
            t.named = [("n-one", 1), ("n-two", 2)]
    elif k == "ENUMERATED":
        n = draw(st.sampled_from([1, 2, 3, 4, 5, 8]) | st.integers(1, 12))
        style = draw(st.integers(0, 2))
        if style == 0:
            vals = list(range(n))
            t.flags = {"bare": True}
        elif style == 1:
            vals = sorted(set(draw(st.lists(st.sampled_from([-129, -128, -1, 0, 1, 5, 127, 128, 255, 256, 32767, 32768,
                                                             65536, 1 << 24, (1 << 31) - 1]),
                                            min_size=1, max_size=n))))
        else:
            vals = sorted(set(draw(st.lists(st.integers(-300, 300), min_size=1, max_size=n))))
        order = draw(st.permutations(vals)) if style else vals
        t.named = [("e%d" % i, v) for i, v in enumerate(order)]
        if cfg.extensions and draw(st.integers(0, 2)) == 0:
            t.ext = True
            ne = draw(st.integers(0, 3))
            top = max(vals)
            t.ext_named = [("x%d" % i, top + 1 + i * (1 if style == 0 else draw(st.integers(1, 3)))) for i in range(ne)]
            # keep strictly increasing
            seen, fixed = top, []
            for nm, v in t.ext_named:
                v = max(v, seen + 1)
                fixed.append((nm, v))
                seen = v
            t.ext_named = fixed
            # X.680 only asks the additions to ascend among themselves: sometimes start them below the largest
            # root value (non-negative, see the C11 finding enum.addition-negative)
            if style and ne and draw(st.integers(0, 3)) == 0:
                free = [x for x in range(0, min(top, 400)) if x not in vals]
                if free:
                    cur = free[draw(st.integers(0, len(free) - 1))]
                    low = []
                    for nm, _ in t.ext_named:
                        while cur in vals:
                            cur += 1
                        low.append((nm, cur))
                        cur += draw(st.integers(1, 3))
                    t.ext_named = low
                    t.flags = dict(t.flags or {}, ext_below_root=True)
    elif k == "BITSTRING":
        if c:
            t.size = draw(int_constraint(cfg, size=True))
        elif draw(st.integers(0, 3)) == 0:
            t.named = [("b0", 0), ("b3", 3), ("b9", 9)]
    elif k == "OCTETSTRING":
        if c:
            t.size = draw(int_constraint(cfg, size=True))
    elif k in STR_KINDS:
        if c:
            r = draw(st.integers(0, 2))
            if r != 1:
                t.size = draw(int_constraint(cfg, size=True))
            if r != 0 and k in KM_STRINGS:
                t.alpha = draw(alphabet_constraint(k))
    return t


def _member_names(draw, n, cfg):
    pool = MEMBER_NAMES + (ODD_NAMES if cfg.odd_names else [])
    return draw(st.lists(st.sampled_from(pool), min_size=n, max_size=n, unique=True))


def _default_for(draw, mod_types, t, ctx):
    """A DEFAULT value for kinds asn1c inlines (BOOLEAN/INTEGER/ENUMERATED)."""
    k = t.kind
    if k == "BOOLEAN":
        return True, draw(st.booleans())
    if k == "INTEGER" and not t.named:
        if t.cons:
            return True, draw(int_in_cons(t.cons, inside_only=True, native=True))
        return True, draw(st.sampled_from([0, 1, -1, 5, 127, 128, -129, 65536, 2147483647]))
    if k == "ENUMERATED":
        return True, draw(st.sampled_from([v for _, v in t.named]))
    return False, None


@st.composite
def type_(draw, ctx, depth):
    cfg = ctx.cfg
    choices = ["prim", "prim"]
    if depth < cfg.max_depth:
        choices += ["constr", "constr"]
    if cfg.refs and ctx.names:
        choices.append("ref")
    what = draw(st.sampled_from(choices))
    if what == "prim":
        t = draw(primitive(ctx))
    elif what == "ref":
        t = T("REF", ref=draw(st.sampled_from(ctx.names)))
    else:
        k = draw(st.sampled_from(cfg.constructed))
        if k in ("SEQOF", "SETOF"):
            t = T(k, elem=draw(type_(ctx, depth + 1)))
            # known finding (C08 nested-of.trailing-constraint.misparsed): asn1c attaches the trailing constraint of
            # 'SET OF SET OF X (c)' to the inner SET OF instead of X; the generators do not produce that shape
            if t.elem.kind in ("SEQOF", "SETOF"):
                leaf = t.elem
                while leaf.kind in ("SEQOF", "SETOF") and leaf.elem is not None:
                    leaf = leaf.elem
                if leaf.kind != "REF" and (leaf.cons or leaf.size or leaf.alpha):
                    leaf.cons = leaf.size = leaf.alpha = None
            if cfg.constraints and draw(st.integers(0, 2)) == 0:
                t.size = draw(int_constraint(cfg, size=True))
        else:
            n = draw(st.integers(0 if k == "SEQUENCE" else 1, cfg.max_members))
            names = _member_names(draw, n, cfg)
            mem = []
            for nm in names:
                mt = draw(type_(ctx, depth + 1))
                m = Member(nm, mt)
                if k != "CHOICE":
                    r = draw(st.integers(0, 3))
                    if r == 0:
                        m.optional = True
                    elif r == 1 and cfg.defaults:
                        rt = _resolve(ctx, mt)
                        if mt.kind != "REF" or True:
                            ok, dv = _default_for(draw, None, rt, ctx)
                            if ok:
                                from .model import render_value
                                m.has_default, m.default = True, dv
                                m.default_text = render_value(rt, dv)
                mem.append(m)
            t = T(k, members=mem)
            if cfg.extensions and draw(st.integers(0, 2)) == 0:
                t.ext = True
                ne = draw(st.integers(0, min(3, len(mem))))
                if k == "CHOICE":
                    ne = min(ne, len(mem) - 1)     # keep one root alternative
                for m in mem[len(mem) - ne:]:
                    m.ext = True
            assign_member_tags(draw, ctx, t)
    if cfg.tags and draw(st.integers(0, 3)) == 0:
        t.tag = draw(outer_tag(ctx, t))
    return t


def _resolve(ctx, t):
    n = 0
    while t.kind == "REF" and n < 100:
        t = ctx.types[t.ref]
        n += 1
    return t


def _chain_empty(ctx, t):
    """Would the tag chain be empty (untagged CHOICE, possibly through references)?"""
    n = 0
    while n < 100:
        if t.tag:
            return False
        if t.kind == "REF":
            t = ctx.types[t.ref]
            n += 1
            continue
        return t.kind == "CHOICE"
    return False


@st.composite
def outer_tag(draw, ctx, t):
    cls = draw(st.sampled_from(["CONTEXT", "CONTEXT", "APPLICATION", "PRIVATE"]))
    num = draw(st.sampled_from(TAG_BOUNDARY) | st.integers(0, 40))
    if cls == "PRIVATE" and 2040 <= num <= 2047:
        num = 5
    if cls == "CONTEXT" and num == 1916:
        num = 6
    modes = [None, "EXPLICIT"] if _chain_empty(ctx, t) else [None, "EXPLICIT", "IMPLICIT"]
    return (cls, num, draw(st.sampled_from(modes)))


def assign_member_tags(draw, ctx, t):
    """Make the members' outermost tags distinct by construction."""
    cfg = ctx.cfg
    mem = t.members
    if not mem:
        return
    styles = ["ctx"]
    if ctx.tagdefault == "AUTOMATIC":
        styles = ["auto", "auto", "ctx"]
    styles.append("natural")
    style = draw(st.sampled_from(styles)) if cfg.tags else ("auto" if ctx.tagdefault == "AUTOMATIC" else "natural")
    if style == "auto":
        for m in mem:
            m.type = _strip_tag(m.type)
        return
    if style == "natural":
        for m in mem:
            m.type = _strip_tag(m.type) if draw(st.booleans()) else m.type
        if ctx.tagdefault == "AUTOMATIC" and not any(m.type.tag for m in mem if not m.ext):
            # X.680: tagged additions with an untagged root are illegal under AUTOMATIC TAGS
            for m in mem:
                m.type = _strip_tag(m.type)
        if ctx.tagdefault != "AUTOMATIC" or any(m.type.tag for m in mem):
            if _distinct_ok(ctx, t):
                return
        elif ctx.tagdefault == "AUTOMATIC":
            return   # no tags at all: automatic tagging applies
    # context tags, distinct numbers
    nums = list(range(len(mem)))
    if draw(st.integers(0, 3)) == 0:
        extra = draw(st.lists(st.sampled_from(TAG_BOUNDARY), min_size=len(mem), max_size=len(mem), unique=True))
        nums = sorted(extra)     # ascending: keeps extension additions in canonical tag order (X.680 29.x)
    for m, n in zip(mem, nums):
        modes = [None, "EXPLICIT"] if _chain_empty(ctx, _strip_tag(m.type)) else [None, None, "EXPLICIT", "IMPLICIT"]
        base = _strip_tag(m.type)
        if n == 1916:
            n = 1915
        m.type = _with_tag(base, ("CONTEXT", n, draw(st.sampled_from(modes))))


def _strip_tag(t):
    if not t.tag:
        return t
    c = T(t.kind, None, t.cons, t.size, t.alpha, t.members, t.ext, t.named, t.ext_named, t.elem, t.ref, t.flags)
    return c


def _with_tag(t, tag):
    return T(t.kind, tag, t.cons, t.size, t.alpha, t.members, t.ext, t.named, t.ext_named, t.elem, t.ref, t.flags)


def _distinct_ok(ctx, t):
    """X.680 distinctness of member tags, using the reference tag computation."""
    mod = Module("X", ctx.tagdefault, list(ctx.types.items()))
    try:
        return distinct_members(mod, t)
    except (KeyError, ValueError):
        return False


def distinct_members(mod, t):
    chains = ref_ber.member_chains(mod, t)
    sets = [ref_ber.outer_tags(mod, m.type, ch) for m, ch in zip(t.members, chains)]
    if t.kind in ("CHOICE", "SET"):
        seen = set()
        for s in sets:
            if s & seen:
                return False
            seen |= s
        return True
    # SEQUENCE: every run of OPTIONAL/DEFAULT components plus the following mandatory one;
    # extension additions are all treated as optional (conservative)
    i = 0
    n = len(t.members)
    while i < n:
        m = t.members[i]
        if m.optional or m.has_default or m.ext:
            seen = set(sets[i])
            j = i + 1
            while j < n:
                if sets[j] & seen:
                    return False
                seen |= sets[j]
                mj = t.members[j]
                if not (mj.optional or mj.has_default or mj.ext):
                    break
                j += 1
            i += 1
        else:
            i += 1
    return True


RECURSIVE_TEMPLATES = [
    lambda n: T("SEQUENCE", members=[Member("v", T("INTEGER")), Member("next", T("REF", ref=n), optional=True)]),
    lambda n: T("CHOICE", members=[Member("leaf", T("INTEGER", tag=("CONTEXT", 0, None))),
                                   Member("node", T("SEQOF", elem=T("REF", ref=n), tag=("CONTEXT", 1, None)))]),
    lambda n: T("SEQUENCE", members=[Member("name", T("UTF8String")),
                                     Member("kids", T("SETOF", elem=T("REF", ref=n)), optional=True)], ext=True),
    lambda n: T("SET", members=[Member("l", T("REF", ref=n, tag=("CONTEXT", 0, None)), optional=True),
                                Member("r", T("REF", ref=n, tag=("CONTEXT", 1, None)), optional=True),
                                Member("k", T("BOOLEAN", tag=("CONTEXT", 2, None)))]),
]


@st.composite
def module(draw, cfg=None, name="M"):
    cfg = cfg or Cfg()
    tagdefault = draw(st.sampled_from(cfg.tagdefaults))
    ctx = Ctx(cfg, tagdefault)
    n = draw(st.integers(cfg.min_types, cfg.max_types))
    types = []
    for i in range(n):
        nm = "T%d" % i
        if cfg.recursion and draw(st.integers(0, 15)) == 0:
            t = draw(st.sampled_from(RECURSIVE_TEMPLATES))(nm)
        else:
            # top level: favour constructed types, they are where features compose
            t = draw(type_(ctx, 0 if draw(st.integers(0, 2)) else 1))
        types.append((nm, t))
        ctx.names.append(nm)
        ctx.types[nm] = t
    return Module(name, tagdefault, types)


# ------------------------------------------------------------------ values
def int_in_cons(cons, inside_only=True, native=True):
    """Integers satisfying (root or extension of) a constraint, biased to the bounds."""
    parts = []
    for lo, hi in cons.ranges + (cons.ext_ranges if cons.ext else []):
        l = I64_MIN if lo is None else lo
        h = (I64_MAX if (lo is None or lo < 0) else U64_MAX) if hi is None else hi
        if lo is None and hi is not None and hi > I64_MAX:
            l = 0
        if h < l:
            continue
        parts.append(biased_int(l, h))
    base = st.one_of(parts) if parts else st.just(0)
    if cons.ext and not inside_only:
        return st.one_of(base, biased_int(I64_MIN, I64_MAX))
    return base


def _contains_collection(mod, t, _seen=None, _d=0):
    """does a value of the type hold further SEQUENCE OF / SET OF levels (through structures and references)?"""
    _seen = _seen or set()
    if t.kind == "REF":
        if t.ref in _seen or _d > 10:
            return True         # recursive: assume yes
        return _contains_collection(mod, mod.lookup(t.ref), _seen | {t.ref}, _d + 1)
    if t.kind in ("SEQOF", "SETOF"):
        return True
    if t.kind in ("SEQUENCE", "SET", "CHOICE"):
        return any(_contains_collection(mod, m.type, _seen, _d + 1) for m in t.members)
    return False


def _len_strategy(size, max_len, big):
    if size is None:
        cands = [0, 1, 2, 3, 5, 8, 17]
        s = st.sampled_from(cands) | st.integers(0, max_len)
        if max_len >= 200:
            s = s | st.sampled_from([127, 128, 129])
        if big:
            s = s | st.sampled_from(LEN_BIG)
        return s
    parts = []
    for lo, hi in size.ranges:
        l = lo or 0
        h = hi if hi is not None else max(l + max_len, l)
        h = min(h, l + max(max_len, 0)) if (hi is None or hi - l > max_len) and not big else h
        cands = sorted({l, h, min(l + 1, h), max(h - 1, l)})
        parts.append(st.sampled_from(cands) | st.integers(l, h))
        if hi is not None and hi - l > max_len:
            parts.append(st.just(hi) if hi <= 70000 else st.just(l))
    s = st.one_of(parts)
    if size.ext:
        s = s | st.integers(0, max_len)
    return s


def _alphabet_of(t):
    if t.alpha:
        cps = []
        for lo, hi in t.alpha.ranges:
            cps += list(range(lo, hi + 1))
        return cps
    k = t.kind
    if k == "NumericString":
        return [ord(c) for c in NUMERIC_ALPHA]
    if k == "PrintableString":
        return [ord(c) for c in PRINTABLE_ALPHA]
    if k == "IA5String":
        return list(range(0, 128))
    if k in ("VisibleString", "ISO646String"):
        return list(range(32, 127))
    if k == "BMPString":
        # U+FFFE/U+FFFF are not characters of ISO 10646: asn1c's BMPString alphabet is 0..65533
        return [0x41, 0x7a, 0x20, 0xe9, 0x3b1, 0x4e2d, 0xfffd, 0xd7ff, 0xe000, 0x1, 0x100, 0xff]
    if k == "UniversalString":
        return [0x41, 0x7a, 0xe9, 0x3b1, 0x4e2d, 0xfffd, 0x10000, 0x1f600, 0x10ffff, 0x1, 0xffff]
    if k == "UTF8String":
        return [0x41, 0x7a, 0x20, 0x7f, 0x80, 0xe9, 0x7ff, 0x800, 0x3b1, 0x4e2d, 0xfffd, 0xffff, 0x10000, 0x1f600,
                0x10ffff, 0x26, 0x3c, 0x3e, 0x22, 0x27, 0x5d, 0x9, 0xa, 0xd]
    raise ValueError(k)


XML_UNSAFE_CTRL = set(range(0, 32)) - {9, 10, 13}


@st.composite
def time_value(draw, kind):
    y = draw(st.sampled_from([1970, 1999, 2000, 2024, 2038, 2049, 1950, 1969]) | st.integers(1950, 2049))
    mo = draw(st.integers(1, 12))
    d = draw(st.integers(1, 28))
    h, mi, s = draw(st.integers(0, 23)), draw(st.integers(0, 59)), draw(st.integers(0, 59))
    if kind == "UTCTime":
        return "%02d%02d%02d%02d%02d%02dZ" % (y % 100, mo, d, h, mi, s)
    frac = draw(st.sampled_from(["", "", ".5", ".123", ".000001", ".999"]))
    return "%04d%02d%02d%02d%02d%02d%sZ" % (y, mo, d, h, mi, s, frac)


def real_values(cfg):
    specials = [0.0, -0.0, 1.0, -1.0, 0.5, 2.0, 3.0, 1e300, -1e-300, 0.1, 1 / 3, float("inf"), float("-inf"),
                float("nan"), 2.0 ** 52, 2.0 ** 53, 2.0 ** 63, 2.0 ** 64, 255.0, 256.0, 65535.0,
                1.7976931348623157e308, 2.2250738585072014e-308, 123456789.125]
    if cfg.real_subnormal:
        specials += [5e-324, 2.225073858507201e-308, -1.5e-323]
    s = st.sampled_from(specials) | st.floats(allow_nan=False, allow_subnormal=cfg.real_subnormal) \
        | st.integers(-(1 << 53), 1 << 53).map(float)
    return s


def _unsigned_repr(cons):
    """Does asn1c keep this constrained INTEGER in an unsigned long? (asn1c_type_fits_long)"""
    if cons is None or cons.ext:
        return False
    lb, ub = cons.lb(), cons.ub()
    if lb is not None and 0 <= lb <= 2147483647 and ub is None:
        return True
    return lb is not None and lb >= 0 and ub is not None and 2147483647 < ub <= 4294967295


def _outside_int(cons):
    """Integers NOT satisfying a (non-extensible) constraint, representable in the native C type."""
    lo_lim = 0 if _unsigned_repr(cons) else I64_MIN
    hi_lim = I64_MAX
    cands = []
    for lo, hi in cons.ranges:
        if lo is not None:
            cands += [lo - 1, lo - 2, lo - 1000]
        if hi is not None:
            cands += [hi + 1, hi + 2, hi + 1000]
    cands += [0, -1, 1, 127, 128, 255, 256, 65535, 65536, -129, (1 << 31), -(1 << 31) - 1, I64_MAX, I64_MIN]
    ok = sorted({c for c in cands if lo_lim <= c <= hi_lim and not cons.contains_root(c)})
    return st.sampled_from(ok) if ok else None


def _bad_len(size, max_len):
    """Lengths outside a SIZE constraint."""
    c = []
    for lo, hi in size.ranges:
        if lo:
            c += [lo - 1, 0]
        if hi is not None:
            c += [hi + 1, hi + 2]
    ok = sorted({x for x in c if 0 <= x <= 70000 and not size.contains_root(x)})
    return st.sampled_from(ok) if ok else None


def values(mod, t, cfg=None, depth=0, max_len=12):
    """Strategy for abstract values of type t (valid with respect to its constraints)."""
    cfg = cfg or Cfg()
    if getattr(cfg, "violate", 0) and depth < 6:
        return _maybe_violating(mod, t, cfg, depth, max_len)
    return _values(mod, t, cfg, depth, max_len)


def _maybe_violating(mod, t, cfg, depth, max_len):
    """Like values(), but a constrained node produces an out-of-constraint value with probability ~cfg.violate."""
    rt = mod.resolve(t)
    k = rt.kind
    good = _values(mod, t, cfg, depth, max_len)
    bad = None
    if k == "INTEGER" and rt.cons and not rt.cons.ext:
        bad = _outside_int(rt.cons)
    elif k in ("OCTETSTRING", "BITSTRING") and rt.size and not rt.size.ext:
        bl = _bad_len(rt.size, max_len)
        if bl is not None:
            if k == "OCTETSTRING":
                bad = bl.map(lambda n: bytes((i * 7 + 1) & 0xff for i in range(n)))
            else:
                bad = bl.map(lambda n: (bytes([0xff] * ((n + 7) // 8))[:(n + 7) // 8 - (1 if n % 8 else 0)] +
                                        (bytes([(0xff << (8 - n % 8)) & 0xff]) if n % 8 else b""), n))
    elif k in STR_KINDS:
        alpha = _alphabet_of(rt)
        opts = []
        if rt.size and not rt.size.ext:
            bl = _bad_len(rt.size, max_len)
            if bl is not None:
                opts.append(bl.map(lambda n: chr(alpha[0]) * n))
        if k in KM_STRINGS and k not in ("BMPString", "UniversalString") and not (rt.alpha and rt.alpha.ext):
            full = builtin_alphabet(k)
            inside = set(alpha) if rt.alpha else set(full)
            outs = [c for c in ([0x2a, 0x40, 0x7e, 0x41, 0x7a, 0x30, 0x20] + ([0xe9] if k != "IA5String" else [0x7f]))
                    if c not in inside and c < 256]
            if k == "IA5String":
                outs = [c for c in outs if c in inside or c < 128 or True]
            if outs:
                lens = _len_strategy(rt.size, max_len, False)
                opts.append(st.tuples(lens, st.sampled_from(outs), st.integers(0, 50)).map(
                    lambda p: (chr(alpha[0]) * p[0])[:max(0, min(p[2], p[0] - 1))] + chr(p[1]) +
                              (chr(alpha[0]) * p[0])[max(0, min(p[2], p[0] - 1)) + 1:] if p[0] else chr(p[1])))
        if opts:
            bad = st.one_of(opts)
    elif k in ("SEQOF", "SETOF") and rt.size and not rt.size.ext:
        bl = _bad_len(rt.size, 6)
        if bl is not None:
            ev = values(mod, rt.elem, cfg, depth + 1, max_len)
            bad = bl.flatmap(lambda n: st.lists(ev, min_size=min(n, 3), max_size=min(n, 3)).map(
                lambda l: (l * (n // max(1, len(l)) + 1))[:n] if l else []))
    if bad is None:
        return good
    p = cfg.violate
    return st.integers(0, 99).flatmap(lambda r: bad if r < int(p * 100) else good)


def _values(mod, t, cfg, depth=0, max_len=12):
    rt = mod.resolve(t)
    k = rt.kind
    if k == "BOOLEAN":
        return st.booleans()
    if k == "INTEGER":
        if rt.cons:
            return int_in_cons(rt.cons, inside_only=not rt.cons.ext)
        if cfg.wide_ints:
            return biased_int(I64_MIN, I64_MAX) | st.integers(-(1 << 130), 1 << 130) | st.integers(-(1 << 330), 1 << 330)
        return biased_int(I64_MIN, I64_MAX)
    if k == "ENUMERATED":
        return st.sampled_from([v for _, v in rt.named + rt.ext_named])
    if k == "NULL":
        return st.none()
    if k == "REAL":
        return real_values(cfg)
    if k == "OID":
        first = st.tuples(st.integers(0, 1), st.integers(0, 39)) | st.tuples(st.just(2), st.sampled_from(
            [0, 39, 40, 47, 48, 127, 128, 999, (1 << 32) - 1 - 80]) | st.integers(0, 1000))
        arc = st.sampled_from([0, 1, 127, 128, 16383, 16384, (1 << 21) - 1, 1 << 21, (1 << 28), (1 << 32) - 1]) | \
            st.integers(0, (1 << 32) - 1) | st.integers(0, 300)
        return st.tuples(first, st.lists(arc, max_size=8)).map(lambda p: tuple(p[0]) + tuple(p[1]))
    if k == "RELOID":
        arc = st.sampled_from([0, 1, 127, 128, 16383, 16384, (1 << 32) - 1]) | st.integers(0, (1 << 32) - 1)
        return st.lists(arc, min_size=1, max_size=8).map(tuple)
    if k == "BITSTRING":
        def mk(n_and_bits):
            n, bits = n_and_bits
            data = bytearray((n + 7) // 8)
            for i in range(n):
                if bits >> i & 1:
                    data[i // 8] |= 0x80 >> (i % 8)
            return (bytes(data), n)
        if rt.named and not rt.size:
            # named-bit lists: keep the last bit set (DER strips trailing zero bits, X.690 §11.2.2)
            return st.integers(0, 24).flatmap(lambda n: st.tuples(st.just(n), st.integers(0, (1 << n) - 1 if n else 0)
                                                                   .map(lambda b: b | (1 << (n - 1)) if n else 0))).map(mk)
        lens = _len_strategy(rt.size, 40, cfg.big_sizes)
        return lens.flatmap(lambda n: st.tuples(st.just(n), st.integers(0, (1 << min(n, 64)) - 1))).map(mk)
    if k in OPAQUE_KINDS:
        lens = _len_strategy(rt.size if k == "OCTETSTRING" else None, max_len, cfg.big_sizes)
        return lens.flatmap(lambda n: st.binary(min_size=n, max_size=n) if n < 300
                            else st.integers(0, 255).map(lambda b: bytes([(b + i) & 0xff for i in range(n)])))
    if k in STR_KINDS:
        alpha = _alphabet_of(rt)
        lens = _len_strategy(rt.size, max_len, cfg.big_sizes)
        ch = st.sampled_from(alpha)
        return lens.flatmap(lambda n: st.lists(ch, min_size=n, max_size=n) if n < 300
                            else st.lists(ch, min_size=1, max_size=7).map(lambda l: (l * (n // len(l) + 1))[:n])
                            ).map(lambda cps: "".join(chr(c) for c in cps))
    if k in TIME_KINDS:
        return time_value(k)
    if k in ("SEQUENCE", "SET"):
        return _struct_values(mod, rt, cfg, depth, max_len)
    if k == "CHOICE":
        alts = rt.members
        if depth > 3:
            # prefer alternatives that terminate
            term = [m for m in alts if mod.resolve(m.type).kind not in ("SEQUENCE", "SET", "CHOICE", "SEQOF", "SETOF")]
            alts = term or alts
        return st.sampled_from(alts).flatmap(
            lambda m: values(mod, m.type, cfg, depth + 1, max_len).map(lambda v: (m.name, v)))
    if k in ("SEQOF", "SETOF"):
        if depth > 3:
            cnt = _len_strategy(rt.size, 0, False)
        else:
            cnt = _len_strategy(rt.size, 4 if depth else 6, False)
        # nested collections multiply: the outermost may be as long as its constraint allows (16K/64K fragmentation),
        # deeper ones stay short unless their lower bound forces more
        lb_ = rt.size.lb() if rt.size is not None and rt.size.lb() is not None else 0
        nested_ = _contains_collection(mod, rt.elem)
        cap_ = ((40, 8, 3) if nested_ else (70000, 300, 24))[min(depth, 2)]
        cnt = cnt.map(lambda n, lb_=lb_, cap_=cap_: n if n <= max(cap_, lb_) else lb_)
        ev = values(mod, rt.elem, cfg, depth + 1, max_len)
        return cnt.flatmap(lambda n: st.lists(ev, min_size=n, max_size=n) if n <= 16
                           else st.lists(ev, min_size=1, max_size=4).map(lambda l: (l * (n // len(l) + 1))[:n]))
    raise ValueError("values: unsupported kind " + k)


@st.composite
def _struct_values(draw, mod, rt, cfg, depth, max_len):
    v = {}
    for m in rt.members:
        recursive_risk = depth > 3
        if m.optional:
            if recursive_risk or draw(st.integers(0, 2)) == 0:
                continue
        elif m.has_default:
            r = draw(st.integers(0, 3))
            if r == 0:
                v[m.name] = m.default        # explicit default value (encoders must drop it)
                continue
            # a value different from the default is drawn below; equal values are fine too
        v[m.name] = draw(values(mod, m.type, cfg, depth + 1, max_len))
    return v


# ------------------------------------------------------------------ boundary catalogue (systematic, not random)
def catalogue():
    """Modules that walk the boundaries named in DESIGN.md C02 systematically."""
    mods = []
    # 1. INTEGER ranges at every width boundary, both anchors
    ts = []
    i = 0
    for k in (1, 2, 7, 8, 9, 15, 16, 17, 24, 31, 32, 33, 63):
        for lo in (0, 1, -1, -(1 << (k - 1)) if k > 1 else -1):
            for d in (-1, 0, 1):
                hi = lo + (1 << k) - 1 + d
                if hi < lo or hi > I64_MAX or lo < I64_MIN:
                    continue
                ts.append(("I%d" % i, T("INTEGER", cons=Cons("value", [(lo, hi)]))))
                i += 1
    for lo, hi in ((0, 65535), (0, 65536), (1, 65536), (0, 65537), (-32768, 32767), (-32769, 32767), (0, 4294967295),
                   (0, 4294967296), (-2147483648, 2147483647), (-2147483649, 2147483647), (0, I64_MAX),
                   (I64_MIN, I64_MAX), (255, 255), (-128, 127), (-129, 127), (0, 255), (0, 256), (5, 5)):
        ts.append(("I%d" % i, T("INTEGER", cons=Cons("value", [(lo, hi)]))))
        i += 1
    for lo in (0, 1, -1, 127, 128, 256, -128, -129, 65536):
        ts.append(("I%d" % i, T("INTEGER", cons=Cons("value", [(lo, None)]))))
        i += 1
        ts.append(("I%d" % i, T("INTEGER", cons=Cons("value", [(None, lo)]))))
        i += 1
        ts.append(("I%d" % i, T("INTEGER", cons=Cons("value", [(lo, lo + 300)], True))))
        i += 1
    for chunk in range(0, len(ts), 40):
        mods.append(Module("CatInt%d" % (chunk // 40), "AUTOMATIC", ts[chunk:chunk + 40]))
    # 2. tags: every boundary number in every class, implicit and explicit, on primitive and constructed types
    ts = []
    i = 0
    for num in TAG_BOUNDARY:
        for cls in ("CONTEXT", "APPLICATION", "PRIVATE"):
            if cls == "PRIVATE" and 2040 <= num <= 2047:
                continue
            for mode in ("IMPLICIT", "EXPLICIT"):
                ts.append(("G%d" % i, T("INTEGER", tag=(cls, num, mode))))
                i += 1
            other = num + 1 if num < (1 << 30) - 1 else num - 1      # 2^30-1 is the largest supported tag number
            ts.append(("G%d" % i, T("CHOICE", members=[Member("a", T("BOOLEAN", tag=(cls, num, "IMPLICIT"))),
                                                        Member("b", T("NULL", tag=(cls, other, "EXPLICIT")))])))
            i += 1
    for chunk in range(0, len(ts), 40):
        mods.append(Module("CatTag%d" % (chunk // 40), "EXPLICIT", ts[chunk:chunk + 40]))
    # 3. sizes and alphabets
    ts = []
    i = 0
    sizes = [(0, 0), (1, 1), (2, 2), (3, 3), (16, 16), (17, 17), (0, 1), (0, 127), (0, 128), (1, 128), (0, 255), (0, 256),
             (0, 65535), (0, 65536), (1, 65536), (65535, 65535), (65536, 65536), (3, None), (0, None)]
    for lo, hi in sizes:
        for kind in ("OCTETSTRING", "BITSTRING", "IA5String", "BMPString", "UTF8String"):
            ts.append(("S%d" % i, T(kind, size=Cons("size", [(lo, hi)]))))
            i += 1
        ts.append(("S%d" % i, T("SEQOF", elem=T("BOOLEAN"), size=Cons("size", [(lo, hi)]))))
        i += 1
        ts.append(("S%d" % i, T("OCTETSTRING", size=Cons("size", [(lo, hi)], True))))
        i += 1
    for n in (1, 2, 3, 4, 5, 8, 9, 16, 17, 32, 33, 64):
        cps = [0x30 + j for j in range(n)]
        ts.append(("S%d" % i, T("IA5String", alpha=Cons("from", [(cps[0], cps[-1])]))))
        i += 1
        ts.append(("S%d" % i, T("VisibleString", alpha=Cons("from", [(c, c) for c in cps[::2]] + [(0x7e, 0x7e)]))))
        i += 1
        ts.append(("S%d" % i, T("BMPString", alpha=Cons("from", [(1, n)]), size=Cons("size", [(0, 10)]))))
        i += 1
        ts.append(("S%d" % i, T("UniversalString", alpha=Cons("from", [(0x41, 0x41 + n - 1)]))))
        i += 1
    def huge(t):
        return any(c is not None and any((hi or 0) >= 65535 or (lo or 0) >= 65535 for lo, hi in c.ranges) for c in (t.size,))
    hs = [(n, t) for n, t in ts if huge(t)]
    ts = [(n, t) for n, t in ts if not huge(t)]
    for chunk in range(0, len(ts), 40):
        mods.append(Module("CatSize%d" % (chunk // 40), "AUTOMATIC", ts[chunk:chunk + 40]))
    for chunk in range(0, len(hs), 6):
        # 64K values are expensive to ship: few values per type, many small modules (parallelism)
        mods.append(Module("CatHuge%d" % (chunk // 6), "AUTOMATIC", hs[chunk:chunk + 6]))
    # 4. big enumerations, many alternatives / additions
    ts = []
    ts.append(("E0", T("ENUMERATED", named=[("v%d" % j, j) for j in range(130)], flags={"bare": True})))
    ts.append(("E1", T("ENUMERATED", named=[("v%d" % j, j * 3 - 200) for j in range(140)])))
    ts.append(("E2", T("ENUMERATED", named=[("a", 0), ("b", 1)], ext=True,
                       ext_named=[("x%d" % j, 2 + j) for j in range(70)], flags={"bare": True})))
    ts.append(("E3", T("ENUMERATED", named=[("a", 127), ("b", 128), ("c", 32767), ("d", 32768), ("e", -32769)])))
    ts.append(("C0", T("CHOICE", members=[Member("r", T("NULL"))] +
                       [Member("x%d" % j, T("INTEGER", cons=Cons("value", [(0, 7)])), ext=True) for j in range(70)], ext=True)))
    ts.append(("C1", T("CHOICE", members=[Member("m%d" % j, T("BOOLEAN")) for j in range(40)])))
    ts.append(("Q0", T("SEQUENCE", members=[Member("r", T("BOOLEAN"))] +
                       [Member("x%d" % j, T("INTEGER", cons=Cons("value", [(0, 7)])), optional=True, ext=True)
                        for j in range(70)], ext=True)))
    ts.append(("Q1", T("SEQUENCE", members=[Member("m%d" % j, T("BOOLEAN"), optional=True) for j in range(20)])))
    ts.append(("Q2", T("SEQUENCE", members=[Member("m%d" % j, T("INTEGER"), has_default=True, default=j, default_text=str(j))
                                            for j in range(9)])))
    # a run of more than 8 OPTIONAL components before a mandatory one (the BER decoder scans 8 ahead, then searches)
    ts.append(("Q3", T("SEQUENCE", members=[Member("name", T("BOOLEAN"))] +
                       [Member("f%d" % j, T("INTEGER"), optional=True) for j in range(12)] +
                       [Member("serial", T("INTEGER", cons=Cons("value", [(0, 65535)])))])))
    # exactly 8 and 16 extension additions (OER presence bitmap without unused bits), 7 and 9 as neighbours
    for n in (7, 8, 9, 16):
        ts.append(("QX%d" % n, T("SEQUENCE", members=[Member("r", T("INTEGER", cons=Cons("value", [(0, 255)])))] +
                                 [Member("e%d" % j, T("BOOLEAN"), optional=True, ext=True) for j in range(n)], ext=True)))
    # OPTIONAL / DEFAULT root components right before the extension marker (unknown additions follow absent components)
    ts.append(("QO1", T("SEQUENCE", members=[Member("id", T("INTEGER")), Member("note", T("BOOLEAN"), optional=True)], ext=True)))
    ts.append(("QO2", T("SEQUENCE", members=[Member("id", T("INTEGER")), Member("note", T("BOOLEAN"), optional=True),
                                             Member("d", T("INTEGER"), has_default=True, default=5, default_text="5"),
                                             Member("e", T("BOOLEAN"), optional=True, ext=True)], ext=True)))
    ts.append(("QO3", T("SET", members=[Member("id", T("INTEGER")), Member("note", T("BOOLEAN"), optional=True)], ext=True)))
    mods.append(Module("CatBig", "AUTOMATIC", ts))
    # 5. canonical CHOICE order through untagged nested CHOICEs whose alternatives mix tag classes (X.680 8.6)
    ts = []
    ts.append(("In1", T("CHOICE", members=[Member("flag", T("BOOLEAN")),
                                           Member("num", T("INTEGER", tag=("CONTEXT", 0, None), cons=Cons("value", [(0, 255)])))])))
    ts.append(("Out1", T("CHOICE", members=[Member("in", T("REF", ref="In1")), Member("nul", T("NULL"))])))
    ts.append(("In2", T("CHOICE", members=[Member("a", T("NULL", tag=("APPLICATION", 5, None))),
                                           Member("b", T("BOOLEAN", tag=("CONTEXT", 2, None))),
                                           Member("c", T("INTEGER", tag=("PRIVATE", 1, None)))])))
    ts.append(("Out2", T("CHOICE", members=[Member("x", T("NULL", tag=("CONTEXT", 3, None))), Member("in", T("REF", ref="In2")),
                                            Member("y", T("BOOLEAN", tag=("APPLICATION", 1, None)))])))
    ts.append(("Out3", T("CHOICE", members=[Member("z", T("OCTETSTRING")), Member("in", T("REF", ref="In2")),
                                            Member("w", T("REF", ref="In1"))])))
    ts.append(("Ord1", T("CHOICE", members=[Member("zone", T("NULL", tag=("CONTEXT", 3, None))),
                                            Member("yard", T("BOOLEAN", tag=("CONTEXT", 1, None))),
                                            Member("xray", T("INTEGER", tag=("CONTEXT", 2, None), cons=Cons("value", [(0, 7)])))])))
    mods.append(Module("CatChoice", "EXPLICIT", ts))
    # 6. constraints whose hull is exactly the range of a native C type (checker short cuts), unions with gaps
    cs = []
    i = 0
    for lo_, hi_ in ((0, (1 << 32) - 1), (0, 255), (0, 65535), (-128, 127), (-32768, 32767), (-(1 << 31), (1 << 31) - 1),
                     (0, (1 << 31) - 1), (0, I64_MAX), (I64_MIN, I64_MAX), (1, (1 << 32) - 1), (0, (1 << 32) - 2)):
        for k in (0, 15):
            c = Cons("value", [(lo_, lo_ + k), (hi_ - k, hi_)])
            cs.append(("K%d" % i, T("INTEGER", cons=c)))
            cs.append(("K%dq" % i, T("SEQUENCE", members=[Member("id", T("INTEGER", cons=Cons("value", [(lo_, lo_ + k), (hi_ - k, hi_)]))),
                                                         Member("items", T("SEQOF", elem=T("INTEGER", cons=Cons("value", [(lo_, lo_ + k), (hi_ - k, hi_)]))))])))
            i += 1
    cs.append(("KS0", T("OCTETSTRING", size=Cons("size", [(0, 2), (5, 6)]))))
    cs.append(("KS1", T("IA5String", size=Cons("size", [(1, 1), (4, 4)]), alpha=Cons("from", [(0x41, 0x43), (0x58, 0x5a)]))))
    cs.append(("KS2", T("SEQOF", elem=T("BOOLEAN"), size=Cons("size", [(0, 1), (3, 3)]))))
    mods.append(Module("CatCons", "AUTOMATIC", cs))
    # 7. a small module for the option-set comparison (C13): native/wide integer shapes, CHOICE order, defaults
    os_ = [("O%d" % j, T("INTEGER", cons=Cons("value", [r]))) for j, r in enumerate(
        [(0, None), (1, None), (None, 0), (-1, None), (0, 255), (0, 65535), (0, 4294967295), (-128, 127), (0, I64_MAX), (256, None)])]
    os_.append(("O20", T("INTEGER")))
    os_.append(("O21", T("ENUMERATED", named=[("a", 0), ("b", 5)], ext=True, ext_named=[("c", 9)])))
    os_.append(("O22", T("CHOICE", members=[Member("zone", T("NULL", tag=("CONTEXT", 3, None))),
                                            Member("yard", T("BOOLEAN", tag=("CONTEXT", 1, None))),
                                            Member("xray", T("INTEGER", tag=("CONTEXT", 2, None)))])))
    os_.append(("O23", T("SEQUENCE", members=[Member("c", T("REF", ref="O22")), Member("n", T("REF", ref="O0")),
                                              Member("d", T("INTEGER"), has_default=True, default=7, default_text="7")])))
    os_.append(("O24", T("SEQOF", elem=T("REF", ref="O0"))))
    mods.append(Module("CatOpt", "EXPLICIT", os_))
    mods.append(Module("CatChoiceI", "IMPLICIT", [(n + "i", _retarget(t)) for n, t in ts]))
    return mods


def _retarget(t):
    """copy of a catalogue type with its references renamed for the IMPLICIT twin module"""
    import copy
    t2 = copy.deepcopy(t)

    def walk(x):
        if x.kind == "REF":
            x.ref = x.ref + "i"
        for m in x.members or []:
            walk(m.type)
        if x.elem is not None:
            walk(x.elem)
    walk(t2)
    return t2


def boundary_violations(mod, t):
    """Values just outside the constraint of a catalogue type (every range edge +-1, gap values), for C08."""
    rt = mod.resolve(t)
    if rt.kind == "INTEGER" and rt.cons is not None and not rt.cons.ext:
        lo_lim = 0 if _unsigned_repr(rt.cons) else I64_MIN
        cands = []
        for lo, hi in rt.cons.ranges:
            if lo is not None:
                cands += [lo - 1, lo - 2, lo - 1000]
            if hi is not None:
                cands += [hi + 1, hi + 2, hi + 1000]
        rs = sorted(rt.cons.ranges, key=lambda r: (r[0] is not None, r[0]))
        for (a, b), (c, d) in zip(rs, rs[1:]):
            if b is not None and c is not None and c - b > 1:
                cands += [(b + c) // 2, b + 1000 if b + 1000 < c else b + 1, c - 1000 if c - 1000 > b else c - 1]
        return sorted({x for x in cands if lo_lim <= x <= I64_MAX and not rt.cons.contains_root(x)})
    if rt.kind == "SEQUENCE":
        base = boundary_values(mod, t)
        out = []
        if base:
            for m in rt.members:
                mt = mod.resolve(m.type)
                if mt.kind == "INTEGER":
                    for bad in boundary_violations(mod, m.type)[:6]:
                        v = dict(base[0])
                        v[m.name] = bad
                        out.append(v)
                elif mt.kind == "SEQOF" and mod.resolve(mt.elem).kind == "INTEGER":
                    for bad in boundary_violations(mod, mt.elem)[:6]:
                        v = dict(base[0])
                        good = boundary_values(mod, mt.elem)[:1]
                        v[m.name] = good + [bad]
                        out.append(v)
        return out
    return []


def boundary_values(mod, t, depth=0):
    """A deterministic list of values that every run sends for a catalogue type (random draws follow)."""
    rt = mod.resolve(t)
    k = rt.kind
    if k == "ENUMERATED":
        return [v for _, v in rt.named + rt.ext_named]
    if k == "BOOLEAN":
        return [True, False]
    if k == "NULL":
        return [None]
    if k == "INTEGER":
        if rt.cons is None:
            return [0, -1, 127, 128, -128, -129, 32767, 32768, 65535, 65536]
        out = []
        for lo, hi in rt.cons.ranges:
            for x in (lo, hi):
                if x is not None:
                    out += [x, x + 1 if hi is None or x + 1 <= hi else x, x - 1 if lo is None or x - 1 >= lo else x]
            if lo is None or hi is None:
                out += [0] if rt.cons.contains_root(0) else []
                # octet-width boundaries, absolute and relative to the known bound
                anchor = lo if lo is not None else hi
                for k in (7, 8, 15, 16, 23, 24, 31, 32):
                    for d in (-1, 0):
                        out += [(1 << k) + d, -(1 << k) + d, anchor + (1 << k) + d, anchor - (1 << k) + d]
        return sorted(set(x for x in out if rt.cons.contains_root(x) and I64_MIN <= x <= I64_MAX))[:40]
    if depth > 3:
        return []
    if k in ("SEQOF", "SETOF") and rt.size is None:
        inner = boundary_values(mod, rt.elem, depth + 1)
        return [inner[:2]] if inner else []
    if k == "CHOICE":
        out = []
        for m in rt.members:
            inner = boundary_values(mod, m.type, depth + 1)
            for v in inner[:3] or []:
                out.append((m.name, v))
        return out
    if k == "SEQUENCE":
        firsts = {}
        for m in rt.members:
            vs = boundary_values(mod, m.type, depth + 1)
            if not vs:
                return []
            firsts[m.name] = vs[0]
        opt = [m for m in rt.members if m.optional or m.has_default]
        mand = {m.name: firsts[m.name] for m in rt.members if not (m.optional or m.has_default)}
        out = [dict(firsts), dict(mand)]
        for m in opt[:80]:
            v = dict(mand)
            v[m.name] = firsts[m.name] if not m.has_default else (firsts[m.name] if firsts[m.name] != m.default else firsts[m.name])
            out.append(v)
        if len(opt) >= 2:
            v = dict(mand)
            v[opt[0].name] = firsts[opt[0].name]
            v[opt[-1].name] = firsts[opt[-1].name]
            out.append(v)
        return out
    return []
