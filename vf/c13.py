"""C13 — code-generation options never change the wire format."""
import sys

from hypothesis import strategies as st

from . import gen, drv, ref_ber, pipeline, runner
from .common import h, KNOWN, Acc, Check, run_pool
from .model import Module, val_to_json, val_from_json, val_repr
from .pipeline import Fail

PID = "C13"
RULE = ("each generated module is compiled under the baseline options and under every single representation option "
        "(-fwide-types, -findirect-choice, -fno-include-deps, -fincludes-quoted, -fno-constraints, -no-gen-OER, -no-gen-PER, "
        "without -fcompound-names when asn1c accepts that) plus Hypothesis-drawn multi-option subsets; every generated value "
        "(sent to each build as reference DER) must give byte-identical DER/UPER/OER/BASIC-XER/CANONICAL-XER in every build, "
        "and the baseline's bytes must decode in every build to the same DER; non-trivial = the value touches a "
        "representation an option changes (INTEGER beyond 32 bits or REAL for wide types, a CHOICE for indirect choice, "
        "nested anonymous types for compound names); distinct by (type, value, option set)")
BASE = ("-fcompound-names",)
K_WIDEPER = "wide-types.per-integer-beyond-long"
OPTS = ["-fwide-types", "-findirect-choice", "-fno-include-deps", "-fincludes-quoted", "-fno-constraints", "-no-gen-OER",
        "-no-gen-PER"]
SYN = ["der", "uper", "oer", "xer", "cxer"]

KNOWN_CLASSES = {
    "tagchain.four-or-more.der": lambda f: "tagchain>=4" in f,
}


def option_sets(draw_subsets):
    sets = [BASE] + [BASE + (o,) for o in OPTS] + [()]
    for sub in draw_subsets:
        fs = BASE + tuple(o for o in OPTS if o in sub)
        if fs not in sets and not ("-no-gen-OER" in fs and "-no-gen-PER" in fs and False):
            sets.append(fs)
    return sets


def compare_value(builds, acc, mod, tname, t, feats, ttext, v):
    """one value through every build; raises Fail on the first difference (used by the worker and by replays)"""
    refder = ref_ber.encode(mod, t, v)
    if len(refder) > 8000:
        # (option sets) x (five encoders + chain + cross decoding) per value: large values cost seconds each
        acc.excluded["value too large for the option-set comparison (> 8000 octets of DER)"] += 1
        return
    vfeats = pipeline.value_features(mod, t, v)
    base_reply = None
    replay = {"module": mod.subset([tname]).to_json(), "type": tname, "value": val_to_json(v)}
    touches = ("CHOICE" in feats) or ("REAL" in feats) or ("nest>=2" in feats) or \
        ("INTEGER" in feats or "ENUMERATED" in feats)
    for fs, mb, sess in builds:
        try:
            r = sess.cmd("enc %s %s %s" % (tname, drv.hexs(refder), ",".join(SYN)))
        except drv.DriverCrash as e:
            raise Fail(h(ttext, "crash", fs), "driver built with %s crashed on %s value %s: %s" % (
                fs, tname, val_repr(v), str(e)[-1500:]), dict(replay, flags=list(fs)))
        if "inject" in r:
            if fs == BASE:
                acc.excluded["inject-failed"] += 1
                return
            if "int.beyond-long" in vfeats or "-fwide-types" not in fs:
                pass
            raise Fail(h(ttext, "inject", fs), "%s ::= %s value %s: the build with %s cannot decode the DER the "
                       "baseline build decodes (%s)" % (tname, ttext, val_repr(v), fs, r["_raw"][:200]),
                       dict(replay, flags=list(fs)))
        if fs == BASE:
            base_reply = r
            acc.case(h(ttext, val_to_json(v)) if touches and not pipeline.trivial_value(v) else None, list(feats))
            continue
        acc.extra["build_comparisons"] += 1
        # INTEGER values beyond the C long range under -fwide-types: two recorded findings (PER through long,
        # XER hex dump) make UPER and XER incomparable with the native build
        wide_beyond = "-fwide-types" in fs and ("int.beyond-long" in vfeats or _near_long_edge(v)) and \
            not getattr(acc, "probe", False)
        for s in SYN:
            a, b = base_reply.get(s), r.get(s)
            if a in ("nocodec", None) or b in ("nocodec", None):
                continue
            if (s == "uper" and "-no-gen-PER" in fs) or (s == "oer" and "-no-gen-OER" in fs):
                continue        # the codec is disabled in that build (its tables are not generated)
            if s == "uper" and "-fno-constraints" in fs and ("cons.from" in feats or "NumericString" in feats) and \
                    KNOWN.is_known(PID, "fno-constraints.per-alphabet-map"):
                acc.excluded["known:fno-constraints.per-alphabet-map"] += 1
                continue
            if s == "uper" and wide_beyond and KNOWN.is_known(PID, K_WIDEPER):
                acc.excluded["known:" + K_WIDEPER] += 1
                continue
            if s in ("xer", "cxer") and wide_beyond and KNOWN.is_known(PID, "int.beyond-long.xer"):
                acc.excluded["known:int.beyond-long.xer"] += 1
                continue
            if a != b:
                raise Fail(h(ttext, "bytes", s, fs), "%s ::= %s\nvalue %s\n%s differs between option sets:\n  %s: %s\n  %s: %s" % (
                    tname, ttext, val_repr(v), s, BASE, str(a)[:300], fs, str(b)[:300]), dict(replay, flags=list(fs)))
        # transcoding chain: what a decoder built with these options leaves in memory must encode to the
        # same bytes as in the baseline build (DER -> UPER -> OER -> XER -> UPER)
        if "-no-gen-PER" not in fs and "-no-gen-OER" not in fs and not (
                wide_beyond and KNOWN.is_known(PID, K_WIDEPER)) and not (
                "-fno-constraints" in fs and ("cons.from" in feats or "NumericString" in feats)):
            if "chain" not in base_reply:
                base_reply["chain"] = builds[0][2].cmd("rt %s %s uper,oer,xer,uper" % (tname, drv.hexs(refder)))
            rc_ = sess.cmd("rt %s %s uper,oer,xer,uper" % (tname, drv.hexs(refder)))
            acc.extra["chain_comparisons"] += 1
            for k_ in ("b0", "b1", "b2", "b3"):
                a, b = base_reply["chain"].get(k_), rc_.get(k_)
                if a is None or b is None:
                    break
                if a != b:
                    raise Fail(h(ttext, "chain", k_, fs), "%s ::= %s\nvalue %s\nstep %s of the chain DER->UPER->OER->XER->UPER "
                               "gives other bytes than in the baseline build:\n  %s: %s\n  %s: %s" % (
                                   tname, ttext, val_repr(v), k_, BASE, str(a)[:300], fs, str(b)[:300]),
                               dict(replay, flags=list(fs)))
        # cross decoding: baseline bytes into this build
        for s, dsyn in (("uper", "uper"), ("oer", "oer"), ("xer", "xer")):
            a = base_reply.get(s)
            if a in ("nocodec", "fail", None) or r.get(s) in ("nocodec", None):
                continue
            if (s == "uper" and "-no-gen-PER" in fs) or (s == "oer" and "-no-gen-OER" in fs):
                continue
            if s == "uper" and "-fno-constraints" in fs and ("cons.from" in feats or "NumericString" in feats) and \
                    KNOWN.is_known(PID, "fno-constraints.per-alphabet-map"):
                continue
            if wide_beyond and ((s == "uper" and KNOWN.is_known(PID, K_WIDEPER))
                                or (s == "xer" and KNOWN.is_known(PID, "int.beyond-long.xer"))):
                continue
            try:
                d = sess.cmd("dec %s %s %s" % (tname, dsyn, a))
            except drv.DriverCrash as e:
                raise Fail(h(ttext, "crash-dec", fs), "driver built with %s crashed decoding baseline %s bytes of "
                           "%s: %s" % (fs, s, tname, str(e)[-1500:]), dict(replay, flags=list(fs)))
            # differential: the same bytes decoded by the baseline build (what a decoder makes of them is C01/C03's
            # business; here only the option set may not matter)
            bk = "dec." + s
            if bk not in base_reply:
                base_reply[bk] = builds[0][2].cmd("dec %s %s %s" % (tname, dsyn, a))
            d0 = base_reply[bk]
            if d.get("rc") != d0.get("rc") or d.get("der") != d0.get("der") or d.get("consumed") != d0.get("consumed"):
                raise Fail(h(ttext, "crossdec", s, fs), "%s ::= %s\nvalue %s\nthe baseline's %s bytes %s decode to rc=%s "
                           "consumed=%s der=%s in the baseline build but to rc=%s consumed=%s der=%s in the build with %s" % (
                               tname, ttext, val_repr(v), s, a[:200], d0.get("rc"), d0.get("consumed"), str(d0.get("der"))[:200],
                               d.get("rc"), d.get("consumed"), str(d.get("der"))[:200], fs), dict(replay, flags=list(fs)))
    if acc.evaluations % 89 == 1:
        acc.sample({"type": "%s ::= %s" % (tname, ttext[:200]), "value": val_repr(v, 100),
                    "option_sets": [" ".join(fs) for fs, _, _ in builds]})


def worker(mod_json, wseed, nvalues, subsets):
    acc = Acc()
    mod = Module.from_json(mod_json)
    cfg = gen.Cfg()
    builds = []
    try:
        mb0, mod, rejected = pipeline.compile_module(mod, BASE)
        for r in rejected:
            acc.extra["types_rejected_by_asn1c"] += 1
        if mb0 is None:
            acc.extra["modules_unbuildable"] += 1
            return acc
        builds.append((BASE, mb0, pipeline.Session(mb0, timeout=25)))
        text = mod.render()
        for fs in option_sets(subsets)[1:]:
            try:
                mb = drv.ModuleBuild(text, fs)
            except drv.CompileError as e:
                if fs == () and e.stage == "asn1c":
                    acc.excluded["no-compound-names-refused-by-asn1c"] += 1     # documented: exit 70, 'Use -fcompound-names'
                else:
                    acc.violation(h("build", fs, e.stage), "module builds with %s but not with %s: %s failed: %s\n%s" % (
                        BASE, fs, e.stage, e.output[-1500:], text[:1500]),
                        {"module": mod.to_json(), "flags": list(fs), "build_failure": True})
                continue
            builds.append((fs, mb, pipeline.Session(mb, timeout=25)))
        acc.extra["modules"] += 1
        acc.extra["builds"] += len(builds)
        for ti, (tname, t) in enumerate(mod.types):
            feats = pipeline.type_features(mod, t)
            if any(KNOWN.is_known(PID, c) and p(feats) for c, p in KNOWN_CLASSES.items()):
                acc.excluded["known-class-type"] += 1
                continue
            ttext = t.render()
            acc.extra["types"] += 1

            def body(v, tname=tname, t=t, feats=feats, ttext=ttext):
                compare_value(builds, acc, mod, tname, t, feats, ttext, v)
            f = None
            if mod.name.startswith("Cat"):
                for bv in gen.boundary_values(mod, t):
                    acc.extra["catalogue_boundary_cases"] += 1
                    try:
                        body(bv)
                    except Fail as e:
                        f = e
                        break
            if f is None:
                f = pipeline.run_given(gen.values(mod, t, cfg), body, nvalues, wseed * 1000 + ti)
            if f is not None and f.key != "flaky":
                acc.violation(f.key, f.summary, f.replay)
                if len(acc.violations) >= 3:
                    break
    finally:
        for fs, mb, sess in builds:
            try:
                sess.close()
            except Exception:
                pass
            mb.cleanup()
    return acc


def replay_case(case):
    mod = Module.from_json(case["module"])
    fs = tuple(case.get("flags", BASE))
    text = mod.render()
    if case.get("build_failure"):
        try:
            drv.ModuleBuild(text, fs).cleanup()
            return False, "builds now"
        except drv.CompileError as e:
            return True, str(e)[-1500:]
    v = val_from_json(case["value"])
    t = mod.lookup(case["type"])
    feats = pipeline.type_features(mod, t)
    acc = Acc()
    if case.get("probe"):
        acc.probe = True
    builds = []
    try:
        for f in ([BASE] if fs == BASE else [BASE, fs]):
            mb = drv.ModuleBuild(text, f)
            builds.append((f, mb, pipeline.Session(mb, timeout=25)))
        try:
            compare_value(builds, acc, mod, case["type"], t, feats, t.render(), v)
        except Fail as f:
            return True, f.summary
        except drv.DriverCrash as e:
            return True, str(e)[-1500:]
        return False, "identical under %s and %s" % (BASE, fs)
    finally:
        for _, mb, sess in builds:
            try:
                sess.close()
            except Exception:
                pass
            mb.cleanup()


def _near_long_edge(v):
    """an INTEGER leaf within 2^32 of the ends of the C long range (offsets from a lower bound leave the range)"""
    if isinstance(v, bool):
        return False
    if isinstance(v, int):
        return v > (1 << 63) - (1 << 32) or v < -(1 << 63) + (1 << 32)
    if isinstance(v, dict):
        return any(_near_long_edge(x) for x in v.values())
    if isinstance(v, (list, tuple)):
        return any(_near_long_edge(x) for x in v)
    return False


def main(argv):
    a = runner.parse_args(argv)
    from . import build
    if a.replay:
        build.warm()
        return runner.do_replay(PID, replay_case, a.replay)
    chk = Check(PID, "exploration", RULE, ["values beyond the C long range are only comparable between -fwide-types builds "
                                           "and are generated within the declared ranges of the types"])
    nm = a.modules or chk.pick(8, 60)
    nv = a.values or chk.pick(30, 100)
    build.warm()
    runner.regression_and_probes(chk, replay_case)
    mods = [m for m in gen.catalogue() if m.name == "CatOpt"] + pipeline.draw_modules(chk.seed, nm, gen.Cfg(max_types=16))
    from hypothesis import given, settings, seed as hseed, HealthCheck, Phase
    subsets = []

    @hseed(chk.seed)
    @settings(max_examples=nm * 3, database=None, deadline=None, suppress_health_check=list(HealthCheck), phases=[Phase.generate])
    @given(st.lists(st.sampled_from(OPTS), min_size=2, max_size=5, unique=True))
    def collect(s):
        subsets.append(s)
    collect()
    nsub = chk.pick(2, 8)
    args = [(m.to_json(), chk.seed * 7919 + i, nv, subsets[i * nsub:(i + 1) * nsub]) for i, m in enumerate(mods)]
    for kind, r in run_pool(worker, args, a.workers):
        if kind == "ok":
            chk.acc.merge(r)
        else:
            chk.error("worker failed: " + r[-3000:])
    runner.confirm(chk, replay_case)
    return chk.finish(nm * 20, 50)


if __name__ == "__main__":
    sys.exit(main(sys.argv[1:]))
