"""C04 — decoding arbitrary bytes is memory-safe, terminates, and reports consistently."""
import os
import shutil
import subprocess
import re
import sys
import time

from hypothesis import strategies as st

from . import gen, drv, build, ref_ber, ref_per, ref_oer, pipeline, valcheck, runner
from .common import h, KNOWN, Check, run_pool, REPLAY_DIR
from .c03 import ListChooser
from .model import Module, val_to_json, val_from_json

HANG_IS_VERDICT = True     # "terminates" is part of this property
PID = "C04"
RULE = ("G1: valid encodings (reference DER/BER variants/UPER/OER, library XER) of generated values, mutated by a "
        "Hypothesis-drawn list of structure-aware edits (truncate, bit flip, byte set, insert/delete, BER length-field "
        "edits +-1/x256/->0x80/->0xFF/->0x84ffffffff, damaged end-of-contents octets, edits of the last octets, tag swaps, splice of two encodings, XML tag renames); G3: random bytes; "
        "G2: coverage-guided libFuzzer target over every type and syntax of generated modules (c/fuzz_decode.c) with the "
        "reference encodings as seed corpus.  Oracle (in the driver / fuzz target, under ASan+UBSan with a wrapped "
        "allocator ledger): rc in {OK,WMORE,FAIL}, consumed <= size, the structure left behind is printed, validated, "
        "encoded with all five encoders and freed without leak, crash or hang; if rc == OK re-encoding and re-decoding "
        "gives the same DER.  Non-trivial = the input is not the unmodified valid encoding and the decoder consumed "
        "something or built a structure; distinct by (type, syntax, bytes)")
SYN = ["ber", "ber", "uper", "oer", "xer"]


def strategy(mod, t, cfg, feats):
    edit = st.tuples(st.sampled_from(["trunc", "flip", "set", "ins", "del", "len", "tag", "splice", "rand", "xmltag", "eoc",
                                      "eoc", "tail", "xmlnum", "xmlnum"]),
                     st.integers(0, 1 << 20), st.integers(0, 255))
    return st.tuples(gen.values(mod, t, cfg), st.sampled_from(SYN), st.lists(st.integers(0, 1 << 16), max_size=20),
                     st.lists(edit, min_size=0, max_size=4), gen.values(mod, t, cfg))


def value_of(x):
    return x[0]


def with_value(x, v2, mod, tname):
    return (v2,) + tuple(x[1:])


def make_replay(mod, tname, t, x):
    return {"module": mod.subset([tname]).to_json(), "type": tname,
            "x": {"value": val_to_json(x[0]), "syntax": x[1], "decisions": list(x[2]), "edits": [list(e) for e in x[3]],
                  "other": val_to_json(x[4])}}


def case_from_replay(mod, case):
    x = case["x"]
    if "raw" in x:
        return (None, x["syntax"], [], [], None, bytes.fromhex(x["raw"]))
    return (val_from_json(x["value"]), x["syntax"], list(x["decisions"]), [tuple(e) for e in x["edits"]],
            val_from_json(x["other"]))


def encode_valid(sess, mod, tname, t, v, syn, decisions, acc):
    refder = ref_ber.encode(mod, t, v)
    try:
        if syn == "ber":
            ch = ListChooser(decisions)
            return ref_ber.encode(mod, t, v, ch)
        if syn == "uper":
            return ref_per.encode(mod, t, v)
        if syn == "oer":
            return ref_oer.encode(mod, t, v)
    except ref_per.RefExcluded:
        pass
    libsyn = {"uper": "uper", "oer": "oer", "xer": "xer", "ber": "der"}[syn]
    r = sess.cmd("enc %s %s %s" % (tname, drv.hexs(refder), libsyn))
    if "inject" in r or r.get(libsyn) in (None, "fail", "nocodec", "badsyntax"):
        return None
    return drv.unhex(r[libsyn])


def mutate(enc, edits, other_enc, syn):
    b = bytearray(enc)
    for kind, a, c in edits:
        n = len(b)
        if kind == "trunc":
            b = b[:a % (n + 1)]
        elif kind == "flip" and n:
            b[a % n] ^= 1 << (c % 8)
        elif kind == "set" and n:
            b[a % n] = c
        elif kind == "ins":
            pos = a % (n + 1)
            b[pos:pos] = bytes([c]) * (1 + (a >> 12) % 4)
        elif kind == "del" and n:
            pos = a % n
            del b[pos:pos + 1 + (a >> 12) % 4]
        elif kind == "len" and syn == "ber" and n:
            # edit a length octet of some TLV found by the strict parser of the (still valid) prefix
            try:
                nodes = []

                def walk(node):
                    nodes.append(node)
                    for k in node.get("children", []):
                        walk(k)
                walk(ref_ber.parse_tlv(bytes(b)))
                node = nodes[a % len(nodes)]
                lpos = node["off"] + 1
                while b[lpos - 1] & 0x1f == 0x1f and lpos == node["off"] + 1:
                    # long tag: skip its continuation octets
                    while b[lpos] & 0x80:
                        lpos += 1
                    lpos += 1
                    break
                choice = c % 6
                if choice == 0:
                    b[lpos] = (b[lpos] + 1) & 0xff
                elif choice == 1:
                    b[lpos] = (b[lpos] - 1) & 0xff
                elif choice == 2:
                    b[lpos] = 0x80
                elif choice == 3:
                    b[lpos] = 0xff
                elif choice == 4:
                    b[lpos:lpos + 1] = bytes.fromhex("84ffffffff")
                else:
                    b[lpos:lpos + 1] = bytes.fromhex("887fffffffffffffff")
            except (ref_ber.TLVError, IndexError):
                if n:
                    b[a % n] = 0x80
        elif kind == "eoc" and n:
            # damage one end-of-contents marker (00 00) of an indefinite-length encoding: second or first octet
            pos = [i for i in range(n - 1) if b[i] == 0 and b[i + 1] == 0]
            if pos:
                p = pos[a % len(pos)]
                if (a >> 10) % 4 == 0:
                    b[p] = c or 1
                elif (a >> 10) % 4 == 1:
                    del b[p + 1:p + 2]
                else:
                    b[p + 1] = c or 0x80
            else:
                b[-1] = c
        elif kind == "tail" and n:
            b[n - 1 - (a % min(n, 6))] = c
        elif kind == "tag" and n:
            b[a % n] = (b[a % n] & 0x20) | (c & 0xdf)
        elif kind == "splice" and other_enc:
            pos = a % (n + 1)
            opos = (a >> 8) % (len(other_enc) + 1)
            b = b[:pos] + bytearray(other_enc[opos:])
        elif kind == "rand":
            b = bytearray((c * 7 + i * (a | 1)) & 0xff for i in range(a % 64))
        elif kind == "xmlnum" and syn == "xer" and n:
            # replace the text of one element by another lexical form the XER decoders know (or nearly know):
            # the xx:xx:xx octet form of INTEGER, signs, leading zeros, white space, exponents, entity references
            spots = [m for m in re.finditer(rb">([^<>\s][^<>]{0,39})<", bytes(b))]      # element text, not indentation
            if spots:
                m = spots[a % len(spots)]
                forms = [b"01:02:03", b"0A", b"00:" * (1 + c % 40) + b"7F", b"FF:" * (8 + c % 30) + b"FF", b"+5", b"-0", b" 7 ",
                         b"007", b"1e3", b"1.5E-2", b"&#x31;", b"&#49;&#50;", b"12:", b":12", b"1:2", b"0x1F", b"<true/>", b"-",
                         b"9" * (19 + c % 30), b"AB" * (1 + c % 70)]
                rep = forms[(a >> 8) % len(forms)]
                b[m.start(1):m.end(1)] = rep
        elif kind == "xmltag" and syn == "xer" and n:
            i = bytes(b).find(b"<", a % n)
            if i >= 0 and i + 2 < n:
                b[i + 1] = (b[i + 1] ^ 0x20) if c % 2 else ord("/")
    return bytes(b)


BAD_KEYS = ("badrc", "overconsumed", "leak", "badret.", "sizemismatch.")


def judge(reply, classes):
    probs = []
    for k, val in reply.items():
        if k.startswith(BAD_KEYS):
            probs.append((k.split(".")[0], "%s=%s in reply %s" % (k, val, reply["_raw"][:400])))
    if reply.get("restab") in ("differs",) or str(reply.get("restab", "")).startswith("rc"):
        probs.append(("unstable", "decoder accepted the input (RC_OK) but re-encoding it and decoding again gives %s: %s" % (
            reply.get("restab"), reply["_raw"][:400])))
    return probs


def run_case(sess, mod, tname, t, x, feats, acc):
    v, syn, decisions, edits, other = x[:5]
    raw = x[5] if len(x) > 5 else None
    replay = make_replay(mod, tname, t, x) if raw is None else {"module": mod.subset([tname]).to_json(), "type": tname,
                                                                "x": {"syntax": syn, "raw": raw.hex()}}
    if raw is None:
        enc = encode_valid(sess, mod, tname, t, v, syn, decisions, acc)
        if enc is None:
            acc.excluded["no-valid-encoding." + syn] += 1
            return None
        other_enc = encode_valid(sess, mod, tname, t, other, syn, [], acc) if any(e[0] == "splice" for e in edits) else None
        data = mutate(enc, edits, other_enc, syn)
    else:
        enc, data = b"", raw
    dsyn = {"ber": "ber", "uper": "uper", "oer": "boer", "xer": "xer"}[syn]
    replay["x"]["bytes"] = data.hex()
    reply = sess.cmd("dec %s %s %s xs" % (tname, dsyn, drv.hexs(data)))
    if reply["_status"] == "nocodec":
        acc.excluded["nocodec." + syn] += 1
        return None
    classes = ["syn." + syn, "rc.%s" % reply.get("rc")] + ["edit." + e[0] for e in edits] + list(feats)
    consumed = int(reply.get("consumed", 0))
    nt = None
    if data != enc and (consumed > 0 or "s" not in reply.get("_flags", []) and "s=null" not in reply["_raw"]):
        nt = h(t.render(), syn, data)
    probs = judge(reply, classes)
    if probs and not getattr(acc, "probe", False):
        keep = []
        for cls, text in probs:
            if cls == "unstable" and syn == "uper" and "BITSTRING" in feats and \
                    KNOWN.is_known(PID, "bitstring.trailing-zero-bits.uper"):
                acc.excluded["known:bitstring.trailing-zero-bits.uper"] += 1
                continue
            keep.append((cls, text))
        probs = keep
    return probs, classes, nt, replay


# ------------------------------------------------------------------ G2: libFuzzer campaigns
def fuzz_build(mod, workdir):
    """asn1c + clang -fsanitize=fuzzer for one module; returns path of the fuzz binary."""
    rc, out = drv.run_asn1c(mod.render(), workdir)
    if rc != 0:
        return None
    gen_dir = os.path.join(workdir, "gen")
    srcs = drv.generated_sources(gen_dir)
    flags = build.VARIANT_FLAGS["fuzz"] + ["-w", "-I" + gen_dir, "-I" + os.path.join(build.REPO, "skeletons"), "-I" + build.CDIR]
    exe = os.path.join(workdir, "fuzz_decode")
    cmd = [build.CLANG] + [f for f in flags if f != "-fsanitize=fuzzer-no-link"] + ["-fsanitize=fuzzer"] + drv.WRAP + \
        [os.path.join(build.CDIR, "fuzz_decode.c"), os.path.join(build.CDIR, "allocwrap.c")] + srcs + \
        [build.skel_lib("fuzz"), "-lm", "-o", exe]
    r = subprocess.run(cmd, stdout=subprocess.PIPE, stderr=subprocess.STDOUT)
    if r.returncode != 0:
        raise RuntimeError("fuzz target build failed: " + r.stdout.decode(errors="replace")[-2000:])
    return exe


def fuzz_worker(mod_json, seed, seconds, nseeds):
    from .common import Acc
    from hypothesis import given, settings, seed as hseed, HealthCheck, Phase
    acc = Acc()
    mod = Module.from_json(mod_json)
    work = drv.mkwork("fuzz")
    try:
        # drop types asn1c refuses
        mb, mod, rejected = pipeline.compile_module(mod)
        if mb is None:
            acc.extra["fuzz_modules_unbuildable"] += 1
            return acc
        mb.cleanup()
        exe = fuzz_build(mod, work)
        if exe is None:
            acc.extra["fuzz_modules_unbuildable"] += 1
            return acc
        corpus = os.path.join(work, "corpus")
        arts = os.path.join(work, "artifacts") + "/"
        os.makedirs(corpus)
        os.makedirs(arts)
        # seed corpus: reference encodings; layout = encoding bytes + [type index, syntax selector]
        names = [n for n, _ in mod.types]
        cfg = gen.Cfg()
        k = 0
        for ti, (tname, t) in enumerate(mod.types):
            got = []

            @hseed(seed * 131 + ti)
            @settings(max_examples=nseeds, database=None, deadline=None, suppress_health_check=list(HealthCheck),
                      phases=[Phase.generate])
            @given(gen.values(mod, t, cfg))
            def collect(v):
                got.append(v)
            collect()
            for v in got:
                for si, enc in enumerate((ref_ber.encode, ref_per.encode, ref_oer.encode)):
                    try:
                        data = enc(mod, t, v)
                    except Exception:
                        continue
                    if len(data) > 4000:
                        continue
                    with open(os.path.join(corpus, "s%05d" % k), "wb") as f:
                        f.write(data + bytes([ti & 0xff, si]))
                    k += 1
        acc.extra["fuzz_seed_inputs"] += k
        env = dict(os.environ)
        env.update(drv.SAN_ENV)
        cmd = [exe, corpus, "-max_total_time=%d" % seconds, "-seed=%d" % (seed % (1 << 31) or 1), "-max_len=4096",
               "-timeout=10", "-rss_limit_mb=3000", "-artifact_prefix=" + arts, "-print_final_stats=1", "-verbosity=0"]
        r = subprocess.run(cmd, stdout=subprocess.PIPE, stderr=subprocess.STDOUT, env=env, timeout=seconds + 120)
        out = r.stdout.decode(errors="replace")
        execs = 0
        for line in out.splitlines():
            if "stat::number_of_executed_units" in line:
                execs = int(line.split()[-1])
        acc.evaluations += execs
        acc.extra["fuzz_executions"] += execs
        acc.extra["fuzz_campaigns"] += 1
        for i in range(min(execs, 3)):
            pass
        # every corpus element the fuzzer kept is a distinct input that reached new coverage
        for fn in sorted(os.listdir(corpus)):
            with open(os.path.join(corpus, fn), "rb") as f:
                acc.nontrivial.add(h("fuzz", f.read()))
        for fn in sorted(os.listdir(arts)):
            if fn.startswith(("crash-", "leak-")):
                with open(os.path.join(arts, fn), "rb") as f:
                    data = f.read()
                tail = out[-3000:]
                acc.violation(h("fuzz", mod.render(), tail[-300:]),
                              "libFuzzer artefact %s (%d bytes) on module with types %s\n%s" % (fn, len(data), names[:8], tail),
                              {"fuzz": True, "module": mod.to_json(), "artifact": data.hex()})
            elif fn.startswith("timeout-"):
                acc.notes.append("libFuzzer timeout artefact (load noise unless it reproduces): " + fn)
                acc.extra["fuzz_timeout_artifacts"] += 1
        acc.sample({"fuzz_module_types": names[:6], "executions": execs, "seed_inputs": k})
    finally:
        shutil.rmtree(work, ignore_errors=True)
    return acc


def replay_fuzz(case):
    mod = Module.from_json(case["module"])
    work = drv.mkwork("fuzzreplay")
    try:
        exe = fuzz_build(mod, work)
        art = os.path.join(work, "artifact")
        with open(art, "wb") as f:
            f.write(bytes.fromhex(case["artifact"]))
        env = dict(os.environ)
        env.update(drv.SAN_ENV)
        r = subprocess.run([exe, art, "-timeout=30"], stdout=subprocess.PIPE, stderr=subprocess.STDOUT, env=env, timeout=120)
        out = r.stdout.decode(errors="replace")
        return r.returncode != 0, out[-3000:]
    finally:
        shutil.rmtree(work, ignore_errors=True)


def replay_any(case):
    if case.get("fuzz"):
        return replay_fuzz(case)
    return valcheck.replay_case(sys.modules[__name__], case)


def main(argv):
    a = runner.parse_args(argv)
    if a.replay:
        build.warm(("asan", "fuzz"))
        return runner.do_replay(PID, replay_any, a.replay)
    chk = Check(PID, "exploration", RULE, [
        "only crash-/leak- libFuzzer artefacts are findings; timeout/oom/slow-unit artefacts are load noise",
        "UBSan's pointer-overflow sub-check (NULL+0) is disabled, see DESIGN.md Corrections"])
    nm = a.modules or chk.pick(24, 200)
    nv = a.values or chk.pick(60, 150)
    fuzz_secs = chk.pick(25, 420)
    fuzz_mods = chk.pick(12, 16)
    build.warm(("asan", "fuzz"))
    runner.regression_and_probes(chk, replay_any)
    cfg = gen.Cfg()
    mods = pipeline.draw_modules(chk.seed, nm, cfg)
    args = [(m.to_json(), chk.seed * 7919 + i, nv, {}, "vf.c04") for i, m in enumerate(mods)]
    t0 = time.time()
    for kind, r in run_pool(valcheck.worker, args, a.workers):
        if kind == "ok":
            chk.acc.merge(r)
        else:
            chk.error("worker failed: " + r[-3000:])
    chk.extra_coverage["g1_seconds"] = round(time.time() - t0, 1)
    # G2: one campaign per module, all cores
    t0 = time.time()
    fmods = pipeline.draw_modules(chk.seed + 1, fuzz_mods, gen.Cfg(max_types=12, min_types=6))
    fargs = [(m.to_json(), chk.seed * 31 + i, fuzz_secs, 4) for i, m in enumerate(fmods)]
    for kind, r in run_pool(fuzz_worker, fargs, a.workers):
        if kind == "ok":
            chk.acc.merge(r)
        else:
            chk.error("fuzz worker failed: " + r[-3000:])
    chk.extra_coverage["g2_seconds"] = round(time.time() - t0, 1)
    runner.confirm(chk, replay_any)
    return chk.finish(nm * 20, 50)


if __name__ == "__main__":
    sys.exit(main(sys.argv[1:]))
