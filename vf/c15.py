"""C15 — decoding uses bounded stack and heap proportional to the input.

What the library promises (skeletons/asn_codecs.h, asn_internal.h, ber_decoder.c / per_decoder.c / oer_decoder.c /
xer_decoder.c):

  * asn_codec_ctx_t.max_stack_size "Limit[s] the decoder routines to use no (much) more stack than a given number of
    bytes ... this would protect against stack overflows if the number of nested encodings is high";  0 disables the
    check;  "A value from getrlimit(RLIMIT_STACK) may be used to initialize this variable";  the OCTET STRING,
    BIT STRING and ANY BER decoders are heap based.
  * every entry point (ber_decode, uper_decode, oer_decode, xer_decode, hence asn_decode) copies a caller context
    with a non-zero limit onto its own stack, and installs ASN__DEFAULT_STACK_MAX (30000 bytes) when the caller
    passes no context ("be security-conscious anyway").  ASN__STACK_OVERFLOW_CHECK() measures the distance between
    that context and the current frame.

Stack oracle: the decode runs in a forked child (c/c15_driver.c) against the *plain* -O1 build of the skeletons
(production-like frames) on (m) the 8 MiB main-thread stack, (r1024) the main thread under setrlimit(RLIMIT_STACK,
1 MiB), (t1024 / t256) a thread whose stack of 1 MiB / 256 KiB is supplied by the driver with a guard page below
it, with the default context or a caller-supplied max_stack_size L.  The stack is always at least 2*L + 64 KiB, so a
decoder that honours the limit with any reasonable overshoot cannot exhaust it.  A child killed by SIGSEGV/SIGBUS
whose fault address lies in the guard page (or within 1 MiB of the stack pointer) is "stack exhaustion"; any other
fatal signal is reported as a crash.  The return code must be RC_OK, RC_FAIL or RC_WMORE (RC_OK is legitimate: the
string decoders are heap based, and nesting below the limit is valid input).

Heap oracle: the allocation ledger (c/allocwrap.c, -Wl,--wrap=malloc,calloc,realloc,free) measures the peak of live
heap bytes (usable sizes) during asn_decode() and the largest single request (failed ones included: under
RLIMIT_AS a huge request fails, yet the attempt is the bomb).  With n = input octets, S = sum of the struct sizes
of all types in the closure of the PDU type read from the descriptors at run time (64 for every non-constructed
type), E = S + 96:

    max(peak, largest request)  <=  A + B * n
    B = 8 * 4 * E                     (every input BIT may allocate one instance of everything reachable, x4 slack)
        + 416 * E                     if the closure has a collection whose element can occupy no bits in the syntax
                                      at hand (UPER, OER): the library's bomb guard deliberately admits 200 such
                                      elements per count field, and every count field of the templates that can
                                      announce more than 10 elements is at least one octet wide (208 x 2 slack)
    A = 64 KiB + 64 KiB * U + F + S   U = octets per character of the widest string type in the closure (a PER length
        (+ 208 * E if zero-width)     determinant / fragment announces up to 64K units and the decoders allocate them
                                      before the data is checked), F = sum over string types with a finite SIZE upper
                                      bound ub of (ub + 1) * unit (PER decoders preallocate ub units): "a constant
                                      determined by the type's fixed-size constraints"

Measured: honest large values (families big, zwmax) reach at most 6 % of the bound; the largest ratio of any surviving
decode is 0.80 (UniversalString, UPER fragment header 0xC4 without data: 64K x 4 octets are allocated before the data is
looked at -- exactly the 64 KiB * U term, which no input can exceed because a PER length determinant announces at most
64K units).  A length or count bomb of 2^20 units with n <= 64 exceeds the bound, larger claims (2^24 .. 2^64-1) by
orders of magnitude.  Observation (inside the bound, reported only): nested PER open types are copied level by level
(per_opentype.c), so the heap is depth x n; the depth is bounded by the stack guard only.

XER has no length prefixes and no zero-width elements, BER collections have no zero-width elements: the families len and
count do not exist there; XER/BER are covered by nest, big and mut.
"""
import json
import os
import shutil
import sys
import time
from collections import Counter

from hypothesis import strategies as st

from . import build, drv, pipeline, runner
from .common import h, KNOWN, Check, Acc, run_pool, REPLAY_DIR
from .pipeline import Fail

PID = "C15"
ALARM_S = 10          # an honest decode of the largest input (1.5 MB) takes < 0.1 s
ENV_ASSUME = "VERIF_C15_ASSUME_KNOWN"     # TEST ONLY: comma-separated classes treated as if known_findings.txt listed them

RULE = ("purpose-built recursive and collection-bearing modules with Hypothesis-drawn parameters (tagging default, "
        "IMPLICIT/EXPLICIT member tags, extension markers, element and string kinds, SIZE constraints) x adversarial "
        "inputs built constructively per syntax: nest = nesting through SEQUENCE / CHOICE / SEQUENCE OF / SET / mixed "
        "cycles / EXPLICIT tag chains / extension additions (open types in PER and OER) / constructed strings / indefinite "
        "and definite lengths to depth 10..10^5; len = "
        "length prefixes claiming 2^20..2^64-1 octets with <= 64 octets behind them (BER long form, OER length, PER "
        "fragments); count = element counts up to the maximum with zero-width or absent elements; frag = fragmented "
        "PER lengths with and without data; zwmax = the most zero-width elements the guard admits; big = honest large "
        "values (keeps the bound honest); mut = mutated valid encodings.  Every case is decoded in a forked child under "
        "a drawn (codec context, stack) configuration.  non-trivial = depth >= 1000, or claimed length/count >= 2^20 "
        "with n <= 64 KiB; distinct by (type text, kind, syntax, input, context, stack)")
ASSUMPTIONS = [
    "stack experiments use the plain -O1 build of the skeletons (sanitizer builds inflate frames)",
    "the stack given to a decode is at least 2*max_stack_size + 64 KiB; max_stack_size = 0 (checking disabled) is outside the property",
    "a child killed by SIGALRM (%d s of CPU spinning or waiting) is counted as inconclusive, not as a violation: termination is property C04; further mutants of the same (type, syntax) are then skipped" % ALARM_S,
    "the heap bound is type-derived and deliberately loose; see the module docstring for A and B",
]

K_XER = "nesting.xer.no-stack-guard"
K_OER_CHOICE = "nesting.oer.choice-no-stack-guard"
KNOWN_CLASSES = {
    # SEQUENCE/SET/CHOICE/SET OF _decode_xer never call ASN__STACK_OVERFLOW_CHECK: any deep XER nesting
    K_XER: lambda c: c["fam"] == "nest" and c["syn"] == "xer",
    # CHOICE_decode_oer has no guard: a nesting path that passes through CHOICE alternatives only
    K_OER_CHOICE: lambda c: c["fam"] == "nest" and c["syn"] == "oer" and set(c.get("pathkinds", ())) == {"CHOICE"},
}


def assumed():
    return {c for c in os.environ.get(ENV_ASSUME, "").split(",") if c}


def is_known(cls):
    return KNOWN.is_known(PID, cls) or cls in assumed()


def known_class_of(case):
    for cls, pred in KNOWN_CLASSES.items():
        if is_known(cls) and pred(case):
            return cls
    return None


# =================================================================== module templates
PRE = [None, "BOOLEAN", "NULL", "INTEGER (0..255)"]
LEAF = ["NULL", "BOOLEAN", "INTEGER (0..255)"]
STR_KINDS = {  # kind -> (universal tag, octets per character)
    "OCTET STRING": (4, 1), "BIT STRING": (3, 1), "UTF8String": (12, 1), "IA5String": (22, 1),
    "VisibleString": (26, 1), "NumericString": (18, 1), "BMPString": (30, 2), "UniversalString": (28, 4),
}
STR_SIZES = [None, None, ("c", 0, 65535), ("c", 1, 1000), ("f", 1000), ("f", 65535), ("f", 70000), ("f", 17),
             ("semi", 0), ("semi", 5), ("ext", 0, 100)]
PRIM_KINDS = ["INTEGER", "INTEGER (0..MAX)", "REAL", "OBJECT IDENTIFIER", "RELATIVE-OID", "ENUMERATED { a, b, c }",
              "BOOLEAN", "INTEGER (-5..70000)"]
PRIM_TAG = {"INTEGER": 2, "INTEGER (0..MAX)": 2, "INTEGER (-5..70000)": 2, "REAL": 9, "OBJECT IDENTIFIER": 6,
            "RELATIVE-OID": 13, "ENUMERATED { a, b, c }": 10, "BOOLEAN": 1}
# element kinds of the collections: text -> (ber, xer or None, oer, uper bits)
ELEMS = {
    "NULL": (b"\x05\x00", b"<NULL/>", b"", ""),
    "SEQUENCE {}": (b"\x30\x00", b"<SEQUENCE></SEQUENCE>", b"", ""),
    "SEQUENCE { a [0] IMPLICIT NULL, b [1] IMPLICIT NULL }": (b"\x30\x04\x80\x00\x81\x00", b"<SEQUENCE><a/><b/></SEQUENCE>", b"", ""),
    "INTEGER (5..5)": (b"\x02\x01\x05", b"<INTEGER>5</INTEGER>", b"\x05", ""),
    "OCTET STRING (SIZE(0))": (b"\x04\x00", b"<OCTET_STRING></OCTET_STRING>", b"", ""),
    "IA5String (SIZE(0))": (b"\x16\x00", b"<IA5String></IA5String>", b"", ""),
    "ENUMERATED { one }": (b"\x0a\x01\x00", b"<one/>", b"\x00", ""),
    "BOOLEAN": (b"\x01\x01\xff", b"<true/>", b"\xff", "1"),
    "INTEGER (0..1)": (b"\x02\x01\x01", b"<INTEGER>1</INTEGER>", b"\x01", "1"),
    "SEQUENCE { a [0] IMPLICIT BOOLEAN OPTIONAL }": (b"\x30\x03\x80\x01\xff", b"<SEQUENCE><a><true/></a></SEQUENCE>", b"\x80\xff", "11"),
    "OCTET STRING": (b"\x04\x01\x41", b"<OCTET_STRING>41</OCTET_STRING>", b"\x01\x41", "0000000101000001"),
    "SEQUENCE OF NULL": (b"\x30\x02\x05\x00", b"<SEQUENCE_OF><NULL/></SEQUENCE_OF>", b"\x01\x01", "00000001"),     # nested collection: the zwmax cases
}
ZW = {"uper": {k for k, v in ELEMS.items() if v[3] == ""} | {"SEQUENCE OF NULL"},
      "oer": {k for k, v in ELEMS.items() if v[2] == b""} | {"SEQUENCE OF NULL"}}
COLL_SIZES = [None, None, ("c", 0, 65535), ("semi", 0), ("c", 1, 1000000), ("ext", 0, 10), ("c", 0, 200)]


@st.composite
def module_spec(draw):
    shapes = []

    def add(shape_kind, **p):
        shapes.append({"name": "T%d" % len(shapes), "kind": shape_kind, "p": p})
    add("rseq", pre=draw(st.sampled_from(PRE)), mode=draw(st.sampled_from(["IMPLICIT", "EXPLICIT"])), ext=draw(st.booleans()))
    add("rch", leaf=draw(st.sampled_from(LEAF)), ext=draw(st.booleans()))
    add("rlist", of=draw(st.sampled_from(["SEQUENCE", "SET"])), size=draw(st.sampled_from([None, ("c", 0, 255)])))
    add("rmix")
    add("rset", mode=draw(st.sampled_from(["IMPLICIT", "EXPLICIT"])))
    add("rtag", k=draw(st.integers(1, 2)))
    add("rext", pre=draw(st.sampled_from(["BOOLEAN", "INTEGER (0..255)"])))
    for kind in draw(st.lists(st.sampled_from(sorted(STR_KINDS)), min_size=3, max_size=3, unique=True)):
        add("str", kind=kind, size=draw(st.sampled_from(STR_SIZES)), tag=draw(st.sampled_from([None, None, 3, 7])))
    for kind in draw(st.lists(st.sampled_from(PRIM_KINDS), min_size=2, max_size=2, unique=True)):
        add("prim", kind=kind)
    elems = sorted(ELEMS)
    for i in range(4):
        # two collections with elements that are zero-width somewhere, two free
        pool = sorted(ZW["uper"]) if i < 2 else elems
        add("coll", of=draw(st.sampled_from(["SEQUENCE", "SET"])), elem=draw(st.sampled_from(pool)),
            size=draw(st.sampled_from(COLL_SIZES)))
    return {"tagdefault": draw(st.sampled_from(["EXPLICIT", "IMPLICIT", "AUTOMATIC"])), "shapes": shapes}


def size_text(sz):
    if sz is None:
        return ""
    if sz[0] == "c":
        return " (SIZE(%d..%d))" % (sz[1], sz[2])
    if sz[0] == "f":
        return " (SIZE(%d))" % sz[1]
    if sz[0] == "semi":
        return " (SIZE(%d..MAX))" % sz[1]
    return " (SIZE(%d..%d, ...))" % (sz[1], sz[2])


def shape_text(s):
    n, k, p = s["name"], s["kind"], s["p"]
    if k == "rseq":
        ms = []
        if p["pre"]:
            ms.append("v [0] IMPLICIT %s" % p["pre"])
        ms.append("next [1] %s %s OPTIONAL" % (p["mode"], n))
        if p["ext"]:
            ms.append("...")
        return "%s ::= SEQUENCE { %s }" % (n, ", ".join(ms))
    if k == "rch":
        return "%s ::= CHOICE { leaf [0] IMPLICIT %s, node [1] EXPLICIT %s%s }" % (n, p["leaf"], n, ", ..." if p["ext"] else "")
    if k == "rlist":
        return "%s ::= %s%s OF %s" % (n, p["of"], size_text(p["size"]), n)
    if k == "rmix":
        return ("%s ::= CHOICE { leaf [0] IMPLICIT NULL, list [1] IMPLICIT SEQUENCE OF %s, "
                "seq [2] IMPLICIT SEQUENCE { x [0] EXPLICIT %s }, self [3] EXPLICIT %s }" % (n, n, n, n))
    if k == "rset":
        return "%s ::= SET { l [0] %s %s OPTIONAL, k [1] IMPLICIT BOOLEAN }" % (n, p["mode"], n)
    if k == "rtag":
        # EXPLICIT tag chain per level: the type's own tag, the universal tag and (k = 2) a member tag.  (asn1c's grammar
        # takes one tag per type, and a chain through helper references generates headers that include each other.)
        return "%s ::= [APPLICATION 1] EXPLICIT SEQUENCE { next [2] %s %s OPTIONAL }" % (n, "EXPLICIT" if p["k"] == 2 else "IMPLICIT", n)
    if k == "rext":     # the recursion goes through an extension addition: an open type in PER and OER
        return "%s ::= SEQUENCE { v [0] IMPLICIT %s, ..., next [1] IMPLICIT %s OPTIONAL }" % (n, p["pre"], n)
    if k == "str":
        return "%s ::= %s%s%s" % (n, "[%d] IMPLICIT " % p["tag"] if p["tag"] is not None else "", p["kind"], size_text(p["size"]))
    if k == "prim":
        return "%s ::= %s" % (n, p["kind"])
    if k == "coll":
        return "%s ::= %s%s OF %s" % (n, p["of"], size_text(p["size"]), p["elem"])
    raise ValueError(k)


def module_text(spec, only=None):
    out = ["C15M DEFINITIONS %s TAGS ::= BEGIN" % spec["tagdefault"]]
    for s in spec["shapes"]:
        if only is None or s["name"] == only:
            out.append(shape_text(s))
    out.append("END")
    return "\n".join(out) + "\n"


# =================================================================== encodings
def seg_hex(segs):
    parts = []
    for b, c in segs:
        if c <= 0 or not b:
            continue
        parts.append(b.hex() if c == 1 else "%s*%d" % (b.hex(), c))
    return ",".join(parts) or "-"


def seg_len(segs):
    return sum(len(b) * c for b, c in segs if c > 0)


def seg_bytes(segs):
    return b"".join(b * c for b, c in segs if c > 0)


def pack_bits(bits):
    bits = bits + "0" * (-len(bits) % 8)
    return bytes(int(bits[i:i + 8], 2) for i in range(0, len(bits), 8))


def bit_segs(unit, depth, tail):
    """unit repeated `depth` times followed by tail, as byte segments (unit x 8 is byte aligned)."""
    if not unit:
        return [(pack_bits(tail), 1)]
    q, r = divmod(depth, 8)
    return [(pack_bits(unit * 8), q), (pack_bits(unit * r + tail), 1)]


def derlen(n):
    if n < 128:
        return bytes([n])
    b = n.to_bytes((n.bit_length() + 7) // 8, "big")
    return bytes([0x80 | len(b)]) + b


def v_enc(pre, syn):
    if pre is None:
        return "" if syn == "uper" else b""
    table = {
        "BOOLEAN": {"ber": b"\x80\x01\xff", "xer": b"<v><true/></v>", "oer": b"\xff", "uper": "1"},
        "NULL": {"ber": b"\x80\x00", "xer": b"<v/>", "oer": b"", "uper": ""},
        "INTEGER (0..255)": {"ber": b"\x80\x01\x07", "xer": b"<v>7</v>", "oer": b"\x07", "uper": "00000111"},
    }
    return table[pre][syn]


def leaf_enc(leaf, syn):
    table = {
        "NULL": {"ber": b"\x80\x00", "xer": b"<leaf/>", "oer": b"\x80", "uper": ""},
        "BOOLEAN": {"ber": b"\x80\x01\xff", "xer": b"<leaf><true/></leaf>", "oer": b"\x80\xff", "uper": "1"},
        "INTEGER (0..255)": {"ber": b"\x80\x01\x07", "xer": b"<leaf>7</leaf>", "oer": b"\x80\x07", "uper": "00000111"},
    }
    return table[leaf][syn]


MIX = {   # alternative of the rmix CHOICE -> per syntax (open, close); uper: bits
    "list": {"ber": (b"\xa1\x80", b"\x00\x00"), "xer": (b"<list>", b"</list>"), "oer": (b"\x81\x01\x01", b""),
             "uper": "0100000001", "kinds": ("CHOICE", "SEQOF")},
    "seq": {"ber": (b"\xa2\x80\xa0\x80", b"\x00\x00\x00\x00"), "xer": (b"<seq><x>", b"</x></seq>"), "oer": (b"\x82", b""),
            "uper": "10", "kinds": ("CHOICE", "SEQUENCE")},
    "self": {"ber": (b"\xa3\x80", b"\x00\x00"), "xer": (b"<self>", b"</self>"), "oer": (b"\x83", b""),
             "uper": "11", "kinds": ("CHOICE",)},
}
PATHS = [("self",), ("seq",), ("list",), ("self", "seq"), ("list", "self"), ("seq", "list"), ("list", "seq", "self")]


def path_kinds(shape, path=None):
    k = shape["kind"]
    if k == "rmix":
        out = set()
        for a in path:
            out |= set(MIX[a]["kinds"])
        return sorted(out)
    return {"rseq": ["SEQUENCE"], "rch": ["CHOICE"], "rlist": ["SEQOF"], "rset": ["SET"], "rtag": ["SEQUENCE"],
            "rext": ["SEQUENCE", "OPENTYPE"], "str": ["STRING"]}[k]


def nest_segs(shape, syn, depth, path=None, definite=False, skipext=False):
    """Input that nests `depth` levels deep in the given recursive shape (a valid encoding of a value)."""
    n, k, p = shape["name"].encode(), shape["kind"], shape["p"]
    if syn == "ber" and definite:
        return nest_ber_definite(shape, depth, path)
    if k == "rseq":
        v = v_enc(p["pre"], syn)
        if syn == "ber" and skipext and p["ext"]:
            # an unknown extension addition ([CONTEXT 1916], constructed, indefinite) nested in itself: the decoder
            # has to skip it (ber_skip_length recurses once per level)
            return [(b"\x30\x80" + v, 1), (b"\xbf\x8f\x7c\x80", depth), (b"\x00\x00", depth), (b"\x00\x00", 1)]
        if syn == "ber":
            op, cl = (b"\xa1\x80", b"\x00\x00") if p["mode"] == "IMPLICIT" else (b"\xa1\x80\x30\x80", b"\x00\x00\x00\x00")
            return [(b"\x30\x80", 1), (v + op, depth), (v, 1), (cl, depth), (b"\x00\x00", 1)]
        if syn == "xer":
            return [(b"<%s>" % n, 1), (v + b"<next>", depth), (v, 1), (b"</next>", depth), (b"</%s>" % n, 1)]
        if syn == "oer":
            pre1, pre0 = (b"\x40", b"\x00") if p["ext"] else (b"\x80", b"\x00")
            return [(pre1 + v, depth), (pre0 + v, 1)]
        e = "0" if p["ext"] else ""
        return bit_segs(e + "1" + v, depth, e + "0" + v)
    if k == "rch":
        lf = leaf_enc(p["leaf"], syn)
        if syn == "ber":
            return [(b"\xa1\x80", depth), (lf, 1), (b"\x00\x00", depth)]
        if syn == "xer":
            return [(b"<%s>" % n, 1), (b"<node>", depth), (lf, 1), (b"</node>", depth), (b"</%s>" % n, 1)]
        if syn == "oer":
            return [(b"\x81", depth), (lf, 1)]
        e = "0" if p["ext"] else ""
        return bit_segs(e + "1", depth, e + "0" + lf)
    if k == "rlist":
        if syn == "ber":
            t = b"\x30\x80" if p["of"] == "SEQUENCE" else b"\x31\x80"
            return [(t, depth + 1), (b"\x00\x00", depth + 1)]
        if syn == "xer":
            return [(b"<%s>" % n, depth + 1), (b"</%s>" % n, depth + 1)]
        if syn == "oer":
            return [(b"\x01\x01", depth), (b"\x01\x00", 1)]
        return bit_segs("00000001", depth, "00000000")
    if k == "rmix":
        reps, rem = divmod(depth, len(path))
        seq = list(path) * 1
        if syn == "uper":
            unit = "".join(MIX[a]["uper"] for a in path)
            tail = "".join(MIX[a]["uper"] for a in path[:rem]) + "00"
            q, r = divmod(reps, 8)
            return [(pack_bits(unit * 8), q), (pack_bits(unit * r + tail), 1)]
        ops = [MIX[a][syn][0] for a in seq]
        cls = [MIX[a][syn][1] for a in seq]
        if syn == "xer":
            ops = [o % n if b"%s" in o else o for o in ops]
            cls = [c % n if b"%s" in c else c for c in cls]
        leaf = {"ber": b"\x80\x00", "xer": b"<leaf/>", "oer": b"\x80"}[syn]
        segs = [(b"".join(ops), reps), (b"".join(ops[:rem]), 1), (leaf, 1), (b"".join(reversed(cls[:rem])), 1),
                (b"".join(reversed(cls)), reps)]
        if syn == "xer":
            segs = [(b"<%s>" % n, 1)] + segs + [(b"</%s>" % n, 1)]
        return segs
    if k == "rset":
        kk = {"ber": b"\x81\x01\xff", "xer": b"<k><true/></k>"}[syn]
        if syn == "ber":
            op, cl = (b"\xa0\x80", b"\x00\x00") if p["mode"] == "IMPLICIT" else (b"\xa0\x80\x31\x80", b"\x00\x00\x00\x00")
            return [(b"\x31\x80", 1), (op, depth), (kk, 1), (cl + kk, depth), (b"\x00\x00", 1)]
        return [(b"<%s>" % n, 1), (b"<l>", depth), (kk, 1), (b"</l>" + kk, depth), (b"</%s>" % n, 1)]
    if k == "rtag":
        if syn == "ber":
            top = b"\x61\x80\x30\x80"
            if p["k"] == 1:     # [2] IMPLICIT replaces the APPLICATION tag, the universal tag stays below it
                return [(top, 1), (b"\xa2\x80\x30\x80", depth), (b"\x00\x00" * 2, depth + 1)]
            return [(top, 1), (b"\xa2\x80" + top, depth), (b"\x00\x00" * 3, depth), (b"\x00\x00\x00\x00", 1)]
        if syn == "xer":
            return [(b"<%s>" % n, 1), (b"<next>", depth), (b"</next>", depth), (b"</%s>" % n, 1)]
        if syn == "oer":
            return [(b"\x80", depth), (b"\x00", 1)]
        return bit_segs("1", depth, "0")
    if k == "rext":
        v = v_enc(p["pre"], syn)
        if syn == "ber":
            return [(b"\x30\x80", 1), (v + b"\xa1\x80", depth), (v, 1), (b"\x00\x00", depth + 1)]
        if syn == "xer":
            return [(b"<%s>" % n, 1), (v + b"<next>", depth), (v, 1), (b"</next>", depth), (b"</%s>" % n, 1)]
        if syn == "oer":        # inside-out: every level wraps the inner one in an open type (length + contents)
            body = b"\x00" + v
            for _ in range(depth):
                body = b"\x80" + v + b"\x02\x07\x80" + derlen(len(body)) + body
            return [(body, 1)]
        bits = "0" + v
        for _ in range(depth):
            inner = bits + "0" * (-len(bits) % 8)
            nb = len(inner) // 8
            if nb >= 16384:
                return None
            ln = format(nb, "08b") if nb < 128 else "10" + format(nb, "014b")
            bits = "1" + v + "0000000" + "1" + ln + inner
        return [(pack_bits(bits), 1)]
    if k == "str":      # BER only: constructed string segments nested `depth` deep
        tag, unit = STR_KINDS[p["kind"]]
        outer = bytes([0x20 | tag]) if p["tag"] is None else bytes([0xa0 | p["tag"]])
        seg = b"\x23\x80" if p["kind"] == "BIT STRING" else b"\x24\x80"
        inner = b"\x03\x02\x00\x41" if p["kind"] == "BIT STRING" else b"\x04\x04\x00\x00\x00\x41"
        return [(outer + b"\x80", 1), (seg, depth - 1), (inner, 1), (b"\x00\x00", depth)]
    raise ValueError(k)


def nest_ber_definite(shape, depth, path):
    k, p = shape["kind"], shape["p"]
    if k == "rseq":
        v = v_enc(p["pre"], "ber")
        body = v
        for _ in range(depth):
            if p["mode"] == "EXPLICIT":
                body = b"\x30" + derlen(len(body)) + body
            body = v + b"\xa1" + derlen(len(body)) + body
        return [(b"\x30" + derlen(len(body)) + body, 1)]
    if k == "rch":
        body = leaf_enc(p["leaf"], "ber")
        for _ in range(depth):
            body = b"\xa1" + derlen(len(body)) + body
        return [(body, 1)]
    if k == "rlist":
        t = b"\x30" if p["of"] == "SEQUENCE" else b"\x31"
        body = t + b"\x00"
        for _ in range(depth):
            body = t + derlen(len(body)) + body
        return [(body, 1)]
    if k == "rtag":
        body = b"\x30\x00"
        for _ in range(depth):
            body = (b"\x61" + derlen(len(body)) + body) if p["k"] == 2 else body
            body = b"\xa2" + derlen(len(body)) + body
            body = b"\x30" + derlen(len(body)) + body
        body = b"\x61" + derlen(len(body)) + body
        return [(body, 1)]
    return None


HAS_DEFINITE = ("rseq", "rch", "rlist", "rtag")
SYNS_OF = {"rseq": ["ber", "xer", "oer", "uper"], "rch": ["ber", "xer", "oer", "uper"], "rlist": ["ber", "xer", "oer", "uper"],
           "rmix": ["ber", "xer", "oer", "uper"], "rset": ["ber", "xer"], "rtag": ["ber", "xer", "oer", "uper"],
           "rext": ["ber", "xer", "oer", "uper"], "str": ["ber"]}
OPEN_TYPE_MAX_DEPTH = 4000      # every level adds >= 3 octets and a PER length below 16K cannot announce more
DSYN = {"ber": "ber", "oer": "boer", "uper": "uper", "xer": "xer"}

CLAIMS = [1 << 20, (1 << 20) + 1, 1 << 24, (1 << 31) - 1, 1 << 31, (1 << 32) - 1, 1 << 32, 1 << 40, (1 << 63) - 1, 1 << 63,
          (1 << 64) - 1]


def be(n, pad=0):
    b = n.to_bytes(max(1, (n.bit_length() + 7) // 8), "big")
    return b"\x00" * pad + b


def ber_len(claim, pad):
    b = be(claim, pad)
    return bytes([0x80 | len(b)]) + b


def str_tag(shape, constructed=False):
    p = shape["p"]
    tag, _ = STR_KINDS[p["kind"]]
    b = tag if p["tag"] is None else 0x80 | p["tag"]
    return bytes([b | (0x20 if constructed else 0)])


def coll_tag(shape):
    return b"\x30" if shape["p"]["of"] == "SEQUENCE" else b"\x31"


def len_case(shape, syn, claim, pad, tail, variant):
    """A length prefix claiming `claim` units with only `tail` behind it.  Returns (segs, claimed) or None."""
    k, p = shape["kind"], shape["p"]
    if syn == "ber":
        ln = ber_len(claim, pad)
        if k == "str":
            if variant % 3 == 1:     # constructed, indefinite, with a primitive segment claiming the length
                seg = b"\x03" if p["kind"] == "BIT STRING" else b"\x04"
                return [(str_tag(shape, True) + b"\x80" + seg + ln + tail, 1)], claim
            if variant % 3 == 2:     # constructed, definite outer and inner claims
                seg = b"\x03" if p["kind"] == "BIT STRING" else b"\x04"
                return [(str_tag(shape, True) + ln + seg + ber_len(max(claim - 16, 1), 0) + tail, 1)], claim
            return [(str_tag(shape) + ln + tail, 1)], claim
        if k == "prim":
            return [(bytes([PRIM_TAG[p["kind"]]]) + ln + tail, 1)], claim
        if k == "coll":
            return [(coll_tag(shape) + ln + tail, 1)], claim
        return None
    if syn == "oer":
        b = be(claim, pad)
        ln = bytes([0x80 | len(b)]) + b
        if k == "str":
            if p["size"] and p["size"][0] == "f" and p["kind"] != "UTF8String":
                return None         # fixed size: no length determinant in OER
            return [(ln + tail, 1)], claim
        if k == "prim":
            if p["kind"] in ("BOOLEAN", "INTEGER (-5..70000)"):
                return None
            return [(ln + tail, 1)], claim
        return None
    if syn == "uper":
        # a length determinant announces at most 64K units; fragments add up only when the data is there
        if k not in ("str", "prim") or (k == "prim" and p["kind"] in ("BOOLEAN", "INTEGER (-5..70000)", "ENUMERATED { a, b, c }")):
            return None
        m = 1 + variant % 4
        sz = p.get("size")
        if sz and sz[0] == "c" and variant % 2:
            return [(b"\xff\xff\xff" + tail, 1)], 65535       # constrained length field, all ones
        if sz and sz[0] == "ext":       # extension bit set, then the general length determinant (a fragment header)
            return [(pack_bits("1" + format(0xc0 | m, "08b")) + tail, 1)], m * 16384
        return [(bytes([0xc0 | m]) + tail, 1)], m * 16384
    return None


def count_case(shape, syn, claim, pad, tail, variant):
    """An element count of `claim` for a collection whose elements are zero-width or simply absent."""
    p = shape["p"]
    if syn == "oer":
        b = be(claim, pad)
        if len(b) > 127:
            return None
        return [(bytes([len(b)]) + b + tail, 1)], claim
    if syn == "uper":
        sz = p["size"]
        if sz and sz[0] == "c" and sz[2] == 65535 and variant % 2:
            return [(b"\xff\xff" + tail, 1)], 65535
        m = max(1, min(64, claim >> 16))
        pre = b""
        if sz and sz[0] == "ext":        # extension bit set, then the general length: not byte aligned -> bit build
            return [(pack_bits("1" + "11000100" * m) + tail, 1)], m * 65536
        return [(pre + b"\xc4", m), (tail, 1)], m * 65536
    return None


def coll_valid(shape, syn, count):
    """Honest encoding of `count` elements (None when this builder does not know the form)."""
    p = shape["p"]
    e = ELEMS[p["elem"]]
    sz = p["size"]
    if sz and sz[0] == "c" and not (sz[1] <= count <= sz[2]):
        return None
    if sz and sz[0] == "ext" and count > sz[2]:
        return None
    n = shape["name"].encode()
    if syn == "ber":
        return [(coll_tag(shape) + b"\x80", 1), (e[0], count), (b"\x00\x00", 1)]
    if syn == "xer":
        if e[1] is None:
            return None
        return [(b"<%s>" % n, 1), (e[1], count), (b"</%s>" % n, 1)]
    if syn == "oer":
        b = be(count)
        return [(bytes([len(b)]) + b, 1), (e[2], count)]
    # uper
    if sz and sz[0] in ("c", "ext") and sz[2] - sz[1] < 65536:
        width = (sz[2] - sz[1]).bit_length()
        head = ("0" if sz[0] == "ext" else "") + (format(count - sz[1], "0%db" % width) if width else "")
    else:
        if count >= 16384:
            return None
        head = format(count, "08b") if count < 128 else "10" + format(count, "014b")
    if not e[3]:
        return [(pack_bits(head), 1)]
    if len(head) % 8 == 0:
        return [(pack_bits(head), 1)] + bit_segs(e[3], count, "")
    if count > 4096:
        return None
    return [(pack_bits(head + e[3] * count), 1)]


def str_valid(shape, syn, length):
    p = shape["p"]
    if p["kind"] not in ("OCTET STRING", "IA5String", "VisibleString", "UTF8String"):
        return None
    sz = p["size"]
    if sz:
        if sz[0] == "f" and length != sz[1]:
            return None
        if sz[0] in ("c", "ext") and not (sz[1] <= length <= sz[2]):
            return None
        if sz[0] == "semi" and length < sz[1]:
            return None
    n = shape["name"].encode()
    if syn == "ber":
        return [(str_tag(shape) + derlen(length), 1), (b"A", length)]
    if syn == "xer":
        body = (b"41", length) if p["kind"] == "OCTET STRING" else (b"A", length)
        return [(b"<%s>" % n, 1), body, (b"</%s>" % n, 1)]
    if syn == "oer":
        if sz and sz[0] == "f" and p["kind"] != "UTF8String":      # a UTF8String SIZE counts characters: not OER-visible
            return [(b"A", length)]
        return [(derlen(length), 1), (b"A", length)]
    if p["kind"] != "OCTET STRING" or sz is not None or length >= 16384:
        return None
    head = format(length, "08b") if length < 128 else "10" + format(length, "014b")
    return [(pack_bits(head), 1), (b"A", length)]


def frag_case(shape, syn, nfrag, with_data, trailer):
    """Fragmented PER lengths (X.691 11.9.3.8): 16K fragments with (or without) their data, then a trailer."""
    if syn != "uper":
        return None
    k, p = shape["kind"], shape["p"]
    if k == "str":
        if p["kind"] != "OCTET STRING" or p["size"] not in (None, ("semi", 0)):
            return None
        segs = []
        for _ in range(nfrag):
            segs.append((b"\xc1", 1))
            if with_data:
                segs.append((b"A", 16384))
        return segs + [(trailer, 1)], nfrag * 16384
    if k == "coll":
        e = ELEMS[p["elem"]]
        if p["size"] is not None or len(e[3]) not in (0, 1):
            return None
        segs = []
        for _ in range(nfrag):
            segs.append((b"\xc1", 1))
            if with_data and e[3]:
                segs.append((b"\xff", 2048))
        return segs + [(trailer, 1)], nfrag * 16384
    return None


def zwmax_case(shape, syn, outer):
    """Outer list of `outer` inner lists holding 200 zero-width elements each: the most the guard admits."""
    p = shape["p"]
    if p["elem"] != "SEQUENCE OF NULL" or p["size"] is not None or outer >= 16384:
        return None
    if syn == "uper":
        head = format(outer, "08b") if outer < 128 else "10" + format(outer, "014b")
        return [(pack_bits(head), 1), (b"\x80\xc8", outer)]
    if syn == "oer":
        b = be(outer)
        return [(bytes([len(b)]) + b, 1), (b"\x01\xc8", outer)]
    return None


# =================================================================== the heap bound
def closure_facts(shape):
    """(U, F, zero-width element possible in {uper, oer})"""
    k, p = shape["kind"], shape["p"]
    U, F, zw = 1, 0, set()
    if k == "str":
        U = STR_KINDS[p["kind"]][1]
        sz = p["size"]
        if sz and sz[0] in ("c", "f", "ext"):
            ub = sz[1] if sz[0] == "f" else sz[2]
            F = (ub + 1) * U
    if k == "coll":
        for syn in ("uper", "oer"):
            if p["elem"] in ZW[syn]:
                zw.add(syn)
    return U, F, zw


def heap_bound(shape, info, syn, n):
    S = int(info["ssum"])
    E = S + 96
    U, F, zw = closure_facts(shape)
    z = syn in zw
    B = 8 * 4 * E + (416 * E if z else 0)
    A = 65536 + 65536 * U + F + S + (208 * E if z else 0)
    return A + B * n, {"A": A, "B": B, "S": S, "U": U, "F": F, "zero_width": z}


# =================================================================== running one case
CTXS = ["d", "d", "d", "d", 8192, 30000, 100000, 400000]


def stk_options(ctx):
    L = 30000 if ctx == "d" else ctx
    out = ["m", "m"]
    if 2 * L + 65536 <= 1024 * 1024:
        out += ["r1024", "t1024"]
    if 2 * L + 65536 <= 256 * 1024:
        out += ["t256", "t256"]
    return out


def judge(reply, bound):
    """-> (problems, heap value).  problems: list of (class, text)"""
    stt = reply["_status"]
    if stt == "killed":
        sig = int(reply.get("sig", 0))
        if sig == 14:
            return [("timeout", "child did not finish within %d s" % ALARM_S)], 0
        if reply.get("so") == "1":
            return [("stack-exhaustion", "the decoding child died of signal %d with the fault address in the stack guard "
                     "(stack exhaustion) instead of returning RC_FAIL: %s" % (sig, reply["_raw"]))], 0
        return [("crash", "the decoding child was killed by signal %d: %s" % (sig, reply["_raw"]))], 0
    if stt != "ok":
        return [("driver", "driver replied %s" % reply["_raw"][:300])], 0
    probs = []
    if reply.get("rc") not in ("0", "1", "2"):
        probs.append(("badrc", "asn_decode returned code %s" % reply.get("rc")))
    hv = max(int(reply["peak"]), int(reply["maxreq"]))
    if hv > bound:
        probs.append(("heap-bound", "peak live heap %s bytes, largest single request %s bytes for n=%s input octets; bound %d: %s" % (
            reply["peak"], reply["maxreq"], reply["n"], bound, reply["_raw"])))
    return probs, hv


def run_one(d, shape, info, case):
    """Send the case to the driver; returns (problems, reply, bound, parts)."""
    n = case["n"]
    bound, parts = heap_bound(shape, info, case["syn"], n)
    reply = d.cmd("run %s %s %s %s %s" % (shape["name"], DSYN[case["syn"]], case["ctx"], case["stk"], case["segs"]))
    if reply["_status"] == "nocodec":
        return None, reply, bound, parts
    probs, hv = judge(reply, bound)
    return probs, reply, bound, parts


# =================================================================== case strategy
def mutate(data, edits):
    b = bytearray(data)
    for kind, a, c in edits:
        n = len(b)
        if kind == "trunc":
            b = b[:a % (n + 1)]
        elif kind == "flip" and n:
            b[a % n] ^= 1 << (c % 8)
        elif kind == "set" and n:
            b[a % n] = c
        elif kind == "ins":
            pos = a % (n + 1)
            b[pos:pos] = bytes([c]) * (1 + (a >> 12) % 4)
        elif kind == "del" and n:
            pos = a % n
            del b[pos:pos + 1 + (a >> 12) % 4]
        elif kind == "len" and n:
            pos = a % n
            b[pos:pos + 1] = [b"\x80", b"\xff", b"\x84\x7f\xff\xff\xff", b"\x88\x7f\xff\xff\xff\xff\xff\xff\xff", b"\xc4", b"\xbf\xff"][c % 6]
        elif kind == "dup" and n:
            pos = a % n
            b[pos:pos] = b[pos:pos + 1 + c % 8] * (1 + (a >> 12) % 16)
    return bytes(b)


DEPTHS = [10, 100, 999, 1000, 1462, 3000, 5931, 10000, 30000, 47595, 65444, 100000]


@st.composite
def case_strategy(draw, spec):
    shapes = spec["shapes"]
    fam = draw(st.sampled_from(["nest"] * 8 + ["len"] * 3 + ["count"] * 3 + ["frag", "zwmax", "big", "big"] + ["mut"] * 3))
    ctx = draw(st.sampled_from(CTXS))
    stk = draw(st.sampled_from(stk_options(ctx)))
    case = {"fam": fam, "ctx": ctx, "stk": stk}
    by_kind = lambda *ks: [s for s in shapes if s["kind"] in ks]
    if fam == "nest":
        kind = draw(st.sampled_from(["rseq", "rch", "rlist", "rmix", "rmix", "rset", "rtag", "rext", "str"]))
        shape = draw(st.sampled_from(by_kind(kind)))
        syn = draw(st.sampled_from(SYNS_OF[shape["kind"]]))
        path = draw(st.sampled_from(PATHS)) if shape["kind"] == "rmix" else None
        definite = syn == "ber" and shape["kind"] in HAS_DEFINITE and draw(st.integers(0, 4)) == 0
        depth = draw(st.sampled_from(DEPTHS) | st.integers(10, 100000))
        if definite:
            depth = min(depth, 3000)
        if kind == "rext" and syn in ("oer", "uper"):
            depth = min(depth, OPEN_TYPE_MAX_DEPTH if syn == "oer" else 2500)
        skipext = bool(kind == "rseq" and syn == "ber" and not definite and shape["p"].get("ext") and draw(st.integers(0, 2)) == 0)
        case.update(shape=shape["name"], syn=syn, depth=depth, path=path, definite=definite,
                    pathkinds=path_kinds(shape, path))
        if skipext:
            case["skipext"] = True
        return case
    tail = draw(st.binary(max_size=64))
    claim = draw(st.sampled_from(CLAIMS) | st.integers(1 << 20, (1 << 64) - 1))
    pad = draw(st.sampled_from([0, 0, 0, 1, 4]))
    variant = draw(st.integers(0, 11))
    if fam == "len":
        shape = draw(st.sampled_from(by_kind("str", "prim", "coll")))
        syn = draw(st.sampled_from(["ber", "oer", "uper"]))
        case.update(shape=shape["name"], syn=syn, claim=claim, pad=pad, tail=tail.hex(), variant=variant)
    elif fam == "count":
        shape = draw(st.sampled_from(by_kind("coll")))
        syn = draw(st.sampled_from(["oer", "uper"]))
        case.update(shape=shape["name"], syn=syn, claim=claim, pad=pad, tail=tail.hex(), variant=variant)
    elif fam == "frag":
        shape = draw(st.sampled_from(by_kind("str", "coll")))
        case.update(shape=shape["name"], syn="uper", nfrag=draw(st.integers(1, 3)), with_data=draw(st.booleans()),
                    tail=draw(st.sampled_from([b"", b"\x00", b"\xc4", b"\xc1", b"\x05AAAAA", b"\xbf\xff"])).hex())
    elif fam == "zwmax":
        shape = draw(st.sampled_from(by_kind("coll")))
        case.update(shape=shape["name"], syn=draw(st.sampled_from(["uper", "oer"])), outer=draw(st.sampled_from([1, 100, 127, 128, 2000])))
    elif fam == "big":
        shape = draw(st.sampled_from(by_kind("coll", "str")))
        case.update(shape=shape["name"], syn=draw(st.sampled_from(["ber", "xer", "oer", "uper"])),
                    size=draw(st.sampled_from([0, 1, 17, 200, 201, 1000, 16383, 20000, 60000, 65535])))
    else:   # mut
        shape = draw(st.sampled_from(shapes))
        syn = draw(st.sampled_from(["ber", "xer", "oer", "uper"]))
        edit = st.tuples(st.sampled_from(["trunc", "flip", "set", "ins", "del", "len", "dup"]), st.integers(0, 1 << 20),
                         st.integers(0, 255))
        case.update(shape=shape["name"], syn=syn, depth=draw(st.integers(1, 6)), size=draw(st.sampled_from([0, 1, 3, 17, 1000])),
                    path=draw(st.sampled_from(PATHS)), edits=[list(e) for e in draw(st.lists(edit, min_size=1, max_size=4))])
    return case


def valid_small(shape, syn, case):
    k = shape["kind"]
    if k in ("rseq", "rch", "rlist", "rmix", "rset", "rtag", "rext"):
        if syn not in SYNS_OF[k]:
            return None
        return nest_segs(shape, syn, case["depth"], tuple(case["path"]) if k == "rmix" else None)
    if k == "str":
        return str_valid(shape, syn, case["size"])
    if k == "coll":
        return coll_valid(shape, syn, min(case["size"], 40))
    if k == "prim" and syn == "ber":
        return [(bytes([PRIM_TAG[shape["p"]["kind"]]]) + b"\x01\x01", 1)]
    return None


def materialise(spec, case):
    """Fill in segs / n / claimed for a drawn case.  Returns False when the combination does not exist."""
    shape = next(s for s in spec["shapes"] if s["name"] == case["shape"])
    fam, syn = case["fam"], case["syn"]
    segs, claimed = None, 0
    if fam == "nest":
        segs = nest_segs(shape, syn, case["depth"], tuple(case["path"]) if case.get("path") else None, case.get("definite"),
                         case.get("skipext", False))
    elif fam == "len":
        r = len_case(shape, syn, case["claim"], case["pad"], bytes.fromhex(case["tail"]), case["variant"])
        if r:
            segs, claimed = r
    elif fam == "count":
        r = count_case(shape, syn, case["claim"], case["pad"], bytes.fromhex(case["tail"]), case["variant"])
        if r:
            segs, claimed = r
    elif fam == "frag":
        r = frag_case(shape, syn, case["nfrag"], case["with_data"], bytes.fromhex(case["tail"]))
        if r:
            segs, claimed = r
    elif fam == "zwmax":
        segs = zwmax_case(shape, syn, case["outer"])
        claimed = case["outer"] * 200
    elif fam == "big":
        segs = coll_valid(shape, syn, case["size"]) if shape["kind"] == "coll" else str_valid(shape, syn, case["size"])
    elif fam == "mut":
        base = valid_small(shape, syn, case)
        if base is not None:
            segs = [(mutate(seg_bytes(base), [tuple(e) for e in case["edits"]]), 1)]
    if segs is None:
        return False
    case["segs"] = seg_hex(segs)
    case["n"] = seg_len(segs)
    case["claimed"] = claimed
    return True


def nontrivial(case):
    if case["fam"] == "nest":
        return case["depth"] >= 1000
    return case.get("claimed", 0) >= (1 << 20) and case["n"] <= 65536


def class_name(case, shape):
    sub = shape["kind"]
    if case["fam"] == "nest" and shape["kind"] == "rmix":
        sub = "rmix." + "-".join(case["path"])
    if case["fam"] == "nest" and case.get("definite"):
        sub += ".definite"
    if case["fam"] in ("count", "len") and shape["kind"] == "coll":
        sub = "coll." + ("zw" if shape["p"]["elem"] in ZW.get(case["syn"], ()) else "nozw")
    return "%s.%s|%s" % (case["fam"], sub, case["syn"])


# =================================================================== worker
def open_driver(mb):
    return mb.driver(timeout=400, env={"C15_AS_MB": "2048", "C15_ALARM_S": str(ALARM_S)})


def build_module(text):
    return drv.ModuleBuild(text, variant="plain", driver_src="c15_driver.c", link_flags=("-lpthread",))


def worker(spec, wseed, ncases):
    t0 = time.time()
    acc = Acc()
    stats = {"su_max": {}, "ratio_honest": 0.0, "ratio_all": 0.0, "ratio_all_case": "", "nt": Counter(), "all": Counter(),
             "slowest": (0.0, "")}
    try:
        mb = build_module(module_text(spec))
    except drv.CompileError as e:
        acc.extra["modules_unbuildable"] += 1
        acc.notes.append("module did not build: %s || %s" % (str(e)[-600:], module_text(spec)[:1500]))
        return acc, stats
    acc.extra["modules"] += 1
    try:
        d = open_driver(mb)
        infos = {}
        for s in spec["shapes"]:
            r = d.cmd("info %s" % s["name"])
            if r["_status"] != "ok":
                raise RuntimeError("info failed: " + r["_raw"])
            infos[s["name"]] = r
        sanity = {}
        hung = set()
        found = set()       # (verdict, fam, syn, pathkinds) already reported by this worker: keep searching behind them

        def sane(shape, case):
            """depth-3 instance of a nest case must be accepted whole: validates the constructive builders"""
            key = (shape["name"], case["syn"], tuple(case.get("path") or ()), bool(case.get("definite")), bool(case.get("skipext")))
            if key not in sanity:
                segs = nest_segs(shape, case["syn"], 3, tuple(case["path"]) if case.get("path") else None, case.get("definite"),
                                 case.get("skipext", False))
                r = d.cmd("run %s %s d m %s" % (shape["name"], DSYN[case["syn"]], seg_hex(segs)))
                sanity[key] = r["_status"] == "nocodec" or (r["_status"] == "ok" and r.get("rc") == "0" and int(r["consumed"]) == seg_len(segs))
                if not sanity[key]:
                    acc.notes.append("builder sanity failed for %s %s: %s || %s" % (shape_text(shape), case["syn"], seg_hex(segs), r["_raw"]))
            return sanity[key]

        def body(case):
            case = dict(case)
            shape = next(s for s in spec["shapes"] if s["name"] == case["shape"])
            if not materialise(spec, case):
                acc.excluded["no-such-combination"] += 1
                return
            kc = known_class_of(case)
            if kc:
                acc.excluded["known:" + kc] += 1
                return
            sig = (case["fam"], case["syn"], tuple(case.get("pathkinds", ())))
            if any(f[1:] == sig for f in found):
                acc.excluded["already-reported-by-this-worker"] += 1
                return
            if case["fam"] == "mut" and (shape["name"], case["syn"]) in hung:
                acc.excluded["after-timeout-of-same-type-and-syntax"] += 1
                return
            if case["fam"] == "nest" and not sane(shape, case):
                acc.excluded["builder-sanity"] += 1
                return
            try:
                tc = time.time()
                probs, reply, bound, parts = run_one(d, shape, infos[shape["name"]], case)
                tc = time.time() - tc
                if tc > stats["slowest"][0]:
                    stats["slowest"] = (round(tc, 2), "%s | %s %s ctx=%s stk=%s n=%d | %s" % (
                        shape_text(shape), case["syn"], case["segs"][:80], case["ctx"], case["stk"], case["n"], reply["_raw"][:120]))
            except drv.DriverCrash as e:
                raise Fail(h("driver", case["fam"], case["syn"]), "the C15 driver itself died: %s" % str(e)[-1500:], make_replay(spec, case))
            if probs is None:
                acc.excluded["nocodec." + case["syn"]] += 1
                return
            cname = class_name(case, shape)
            nt = nontrivial(case)
            acc.case(h(shape_text(shape), case["fam"], case["syn"], case["segs"], case["ctx"], case["stk"]) if nt else None,
                     [cname, "rc.%s|%s" % (reply.get("rc", reply["_status"]), case["fam"]), "stk." + case["stk"], "ctx.%s" % case["ctx"]])
            stats["all"][cname] += 1
            if nt:
                stats["nt"][cname] += 1
            probs = [p for p in probs if p[0] != "timeout"] if probs else probs
            if reply["_status"] == "killed" and reply.get("sig") == "14":
                acc.excluded["timeout-inconclusive"] += 1
                hung.add((shape["name"], case["syn"]))
                acc.notes.append("child hit the %d s alarm (inconclusive for C15; termination is C04): %s | %s %s" % (
                    ALARM_S, shape_text(shape), case["syn"], case["segs"][:200]))
                return
            if reply["_status"] == "ok":
                su = int(reply["su"])
                if su >= 0:
                    key = "%s|ctx=%s" % (case["syn"], case["ctx"])
                    stats["su_max"][key] = max(stats["su_max"].get(key, 0), su)
                hv = max(int(reply["peak"]), int(reply["maxreq"]))
                ratio = hv / float(bound)
                if ratio > stats["ratio_all"]:
                    stats["ratio_all"] = ratio
                    stats["ratio_all_case"] = "%s | %s %s n=%d | %s | bound %d" % (
                        shape_text(shape), case["syn"], case["segs"][:80], case["n"], reply["_raw"][:120], bound)
                if case["fam"] in ("big", "zwmax") and reply.get("rc") == "0":
                    stats["ratio_honest"] = max(stats["ratio_honest"], ratio)
                    acc.extra["honest_accepted"] += 1
            if probs:
                verdict = probs[0][0]
                text = "%s\n%s input: %s (%d octets) ctx=%s stack=%s\n%s\nheap bound parts: %s" % (
                    shape_text(shape), case["syn"], case["segs"][:300], case["n"], case["ctx"], case["stk"],
                    "\n".join(p[1] for p in probs), json.dumps(parts))
                raise Fail(h(verdict, case["syn"], case["fam"], tuple(case.get("pathkinds", ())) or shape["kind"]), text,
                           make_replay(spec, case))
            if acc.evaluations % 97 == 1:
                acc.sample({"type": shape_text(shape), "class": cname, "input": case["segs"][:120], "n": case["n"], "ctx": case["ctx"],
                            "stack": case["stk"], "reply": reply["_raw"][:160]})

        left = ncases
        rounds = 0
        while left > 0 and rounds < 8:
            before = acc.evaluations + sum(acc.excluded.values())
            f = pipeline.run_given(case_strategy(spec), body, left, wseed * 100 + rounds)
            done = acc.evaluations + sum(acc.excluded.values()) - before
            rounds += 1
            if f is None:
                break
            if f.key == "flaky":
                acc.notes.append(f.summary[:500])
            else:
                acc.violation(f.key, f.summary, f.replay)
                c = f.replay
                found.add((f.summary.split("\n")[0][:10], c["fam"], c["syn"], tuple(c.get("pathkinds", ()))))
            left -= max(done, 1)
            try:
                d.kill()
            except Exception:
                pass
            d = open_driver(mb)
        d.close()
    finally:
        mb.cleanup()
    acc.extra["worker_seconds"] += int(time.time() - t0)
    return acc, stats


def make_replay(spec, case):
    shape = next(s for s in spec["shapes"] if s["name"] == case["shape"])
    c = {k: v for k, v in case.items()}
    c["spec"] = {"tagdefault": spec["tagdefault"], "shapes": [shape]}
    c["type_text"] = shape_text(shape)
    return c


def replay_case(case):
    """-> (violated, text): fresh build, fresh driver."""
    spec = case["spec"]
    shape = spec["shapes"][0]
    case = dict(case)
    if "segs" not in case and not materialise(spec, case):
        return False, "the case does not exist for this type"
    with build_module(module_text(spec)) as mb:
        d = open_driver(mb)
        try:
            info = d.cmd("info %s" % shape["name"])
            probs, reply, bound, parts = run_one(d, shape, info, case)
        finally:
            d.kill()
    if probs is None:
        return False, "no codec"
    probs = [p for p in probs if p[0] != "timeout"]
    text = "%s\n%s ctx=%s stack=%s input %s (%d octets)\nreply: %s\nbound %d %s" % (
        shape_text(shape), case["syn"], case["ctx"], case["stk"], case["segs"][:400], case["n"], reply["_raw"], bound, json.dumps(parts))
    if probs:
        return True, text + "\n" + "\n".join(p[1] for p in probs)
    return False, text + "\nproperty holds on this case"


# =================================================================== libFuzzer backstop (thorough tier)
FUZZ_SYN = ["ber", "uper", "oer", "xer"]


def fuzz_build(spec, workdir):
    import subprocess
    rc, out = drv.run_asn1c(module_text(spec), workdir)
    if rc != 0:
        return None
    gen_dir = os.path.join(workdir, "gen")
    srcs = drv.generated_sources(gen_dir)
    flags = [f for f in build.VARIANT_FLAGS["fuzz"] if f != "-fsanitize=fuzzer-no-link"] + [
        "-fsanitize=fuzzer", "-w", "-I" + gen_dir, "-I" + os.path.join(build.REPO, "skeletons"), "-I" + build.CDIR]
    exe = os.path.join(workdir, "c15_fuzz")
    r = subprocess.run([build.CLANG] + flags + [os.path.join(build.CDIR, "c15_fuzz.c")] + srcs + [build.skel_lib("fuzz"), "-lm", "-o", exe],
                       stdout=subprocess.PIPE, stderr=subprocess.STDOUT)
    if r.returncode != 0:
        raise RuntimeError("fuzz target build failed: " + r.stdout.decode(errors="replace")[-2000:])
    return exe


def fuzz_worker(spec, seed, seconds):
    """One libFuzzer campaign (fork mode, so that a hanging or dying unit does not end it) over all types and syntaxes of
    one template module.  Artefacts are replayed through the plain driver and judged by the check's own oracles."""
    import re
    import subprocess
    acc = Acc()
    work = drv.mkwork("c15fuzz")
    mb = None
    try:
        mb = build_module(module_text(spec))
        d = open_driver(mb)
        names = d.cmd("list")["_raw"].split()[1:]
        exe = fuzz_build(spec, work)
        if exe is None:
            acc.extra["fuzz_modules_unbuildable"] += 1
            return acc
        corpus, arts = os.path.join(work, "corpus"), os.path.join(work, "artifacts") + "/"
        os.makedirs(corpus)
        os.makedirs(arts)
        k = 0
        for s in spec["shapes"]:
            if s["name"] not in names:
                continue
            ti = names.index(s["name"])
            for si, syn in enumerate(FUZZ_SYN):
                for depth, size in ((1, 1), (3, 17), (6, 3)):
                    base = valid_small(s, syn, {"depth": depth, "size": size, "path": ("list", "seq", "self")})
                    if base is None or seg_len(base) > 4000:
                        continue
                    with open(os.path.join(corpus, "s%04d" % k), "wb") as f:
                        f.write(seg_bytes(base) + bytes([ti, si]))
                    k += 1
        acc.extra["fuzz_seed_inputs"] += k
        env = dict(os.environ)
        env.update(drv.SAN_ENV)
        cmd = [exe, corpus, "-fork=1", "-ignore_timeouts=1", "-ignore_ooms=0", "-ignore_crashes=0", "-max_total_time=%d" % seconds,
               "-seed=%d" % (seed % (1 << 31) or 1), "-max_len=4096", "-timeout=5", "-malloc_limit_mb=64", "-rss_limit_mb=2048",
               "-artifact_prefix=" + arts, "-verbosity=0"]
        # fork mode leaves grandchildren behind when it is interrupted: own session, output to a file, group kill
        logp = os.path.join(work, "fuzz.log")
        with open(logp, "wb") as lf:
            pr = subprocess.Popen(cmd, stdout=lf, stderr=subprocess.STDOUT, env=env, cwd=work, start_new_session=True)
            try:
                pr.wait(timeout=seconds + 60)
            except subprocess.TimeoutExpired:
                acc.extra["fuzz_campaigns_cut_off"] += 1
            finally:
                try:
                    os.killpg(pr.pid, 9)
                except OSError:
                    pass
                pr.wait()
        with open(logp, "rb") as lf:
            out = lf.read().decode(errors="replace")
        execs = 0
        for m in re.finditer(r"^#(\d+):", out, re.M):
            execs = max(execs, int(m.group(1)))
        acc.evaluations += execs
        acc.extra["fuzz_executions"] += execs
        acc.extra["fuzz_campaigns"] += 1
        for fn in sorted(os.listdir(corpus)):
            with open(os.path.join(corpus, fn), "rb") as f:
                acc.nontrivial.add(h("fuzz", f.read()))
        for fn in sorted(os.listdir(arts)):
            kind = fn.split("-")[0]
            if kind not in ("crash", "oom", "leak"):
                acc.extra["fuzz_%s_artifacts_ignored" % kind] += 1
                continue
            with open(os.path.join(arts, fn), "rb") as f:
                data = f.read()
            if len(data) < 2:
                continue
            name, syn = names[data[-2] % len(names)], FUZZ_SYN[data[-1] % 4]
            shape = next((s for s in spec["shapes"] if s["name"] == name), None)
            if shape is None:
                continue
            case = {"fam": "fuzz", "shape": name, "syn": syn, "ctx": "d", "stk": "m", "segs": seg_hex([(data[:-2], 1)]), "n": len(data) - 2,
                    "artifact": fn}
            probs, reply, bound, parts = run_one(d, shape, d.cmd("info %s" % name), case)
            probs = [p for p in (probs or []) if p[0] != "timeout"]
            if not probs:
                acc.notes.append("libFuzzer artefact %s (%s %s, %d octets) does not violate C15 when replayed on the plain build: %s" % (
                    fn, shape_text(shape)[:100], syn, case["n"], reply["_raw"][:160]))
                acc.extra["fuzz_artifacts_not_c15"] += 1
                continue
            if probs[0][0] == "stack-exhaustion":
                pseudo = {"fam": "nest", "syn": syn, "pathkinds": ["CHOICE"] if shape["kind"] in ("rch", "rmix") else [shape["kind"]]}
                kc = known_class_of(pseudo)
                if kc:
                    acc.excluded["known:" + kc] += 1
                    continue
            acc.violation(h("fuzz", probs[0][0], syn, shape["kind"]),
                          "libFuzzer artefact %s confirmed by the plain-build driver\n%s\n%s input %s\n%s" % (
                              fn, shape_text(shape), syn, case["segs"][:400], "\n".join(p[1] for p in probs)), make_replay(spec, case))
        d.close()
        acc.sample({"fuzz_module": [shape_text(s)[:60] for s in spec["shapes"][:4]], "executions": execs, "seed_inputs": k})
    finally:
        if mb is not None:
            mb.cleanup()
        shutil.rmtree(work, ignore_errors=True)
    return acc


def extra_probes(chk):
    """Probes of classes that are only *assumed* known (test override); listed ones are run by runner.regression_and_probes."""
    for cls in sorted(assumed()):
        if KNOWN.is_known(PID, cls):
            continue
        path = os.path.join(REPLAY_DIR, PID, "known", cls + ".json")
        if not os.path.exists(path):
            continue
        with open(path) as f:
            j = json.load(f)
        violated, _ = replay_case(j.get("case", j))
        chk.acc.extra["known_probes"] += 1
        if violated:
            chk.acc.known_hits[cls] += 1


def main(argv):
    a = runner.parse_args(argv)
    if a.replay:
        build.warm(("plain",))
        return runner.do_replay(PID, replay_case, a.replay)
    chk = Check(PID, "fault_enumeration", RULE, ASSUMPTIONS)
    nm = a.modules or chk.pick(32, 96)
    nc = a.values or chk.pick(900, 4000)
    _, _, bt = build.warm(("plain",))
    chk.extra_coverage["build_s"] = round(bt, 1)
    t1 = time.time()
    runner.regression_and_probes(chk, replay_case)
    extra_probes(chk)
    chk.extra_coverage["replays_and_probes_s"] = round(time.time() - t1, 1)
    if assumed():
        chk.acc.notes.append("TEST OVERRIDE %s=%s: these classes are treated as known findings" % (ENV_ASSUME, ",".join(sorted(assumed()))))
    specs = pipeline.draw_modules(chk.seed, nm, strategy=module_spec())
    args = [(s, chk.seed * 7919 + i, nc) for i, s in enumerate(specs)]
    t1 = time.time()
    su_max, nt, allc = {}, Counter(), Counter()
    ratio_honest = ratio_all = 0.0
    ratio_case, slowest = "", []
    for kind, r in run_pool(worker, args, a.workers):
        if kind != "ok":
            chk.error("worker failed: " + r[-3000:])
            continue
        acc, stats = r
        chk.acc.merge(acc)
        for k, v in stats["su_max"].items():
            su_max[k] = max(su_max.get(k, 0), v)
        nt.update(stats["nt"])
        allc.update(stats["all"])
        ratio_honest = max(ratio_honest, stats["ratio_honest"])
        if stats["ratio_all"] > ratio_all:
            ratio_all, ratio_case = stats["ratio_all"], stats["ratio_all_case"]
        slowest.append(stats["slowest"])
    chk.extra_coverage["pool_s"] = round(time.time() - t1, 1)
    chk.extra_coverage["modules_drawn"] = len(specs)
    chk.extra_coverage["cases_per_class_all"] = dict(sorted(allc.items()))
    chk.extra_coverage["cases_per_class_nontrivial"] = dict(sorted(nt.items()))
    chk.extra_coverage["max_stack_used_by_surviving_decodes"] = dict(sorted(su_max.items()))
    chk.extra_coverage["max_heap_ratio_honest"] = round(ratio_honest, 5)
    chk.extra_coverage["max_heap_ratio_all_surviving"] = round(ratio_all, 5)
    chk.extra_coverage["max_heap_ratio_case"] = ratio_case
    chk.extra_coverage["slowest_cases_s"] = sorted(slowest, reverse=True)[:4]
    chk.extra_coverage["heap_bound"] = ("max(peak live bytes, largest request) <= A + B*n; E = S + 96; B = 8*4*E (+ 416*E with zero-width "
                                        "elements in UPER/OER); A = 64Ki + 64Ki*U + F + S (+ 208*E); see vf/c15.py docstring")
    if chk.thorough or os.environ.get("VERIF_C15_FUZZ_SECONDS"):
        secs = int(os.environ.get("VERIF_C15_FUZZ_SECONDS") or 300)
        build.skel_lib("fuzz")
        t1 = time.time()
        fspecs = pipeline.draw_modules(chk.seed + 1, 16, strategy=module_spec())
        for kind, r in run_pool(fuzz_worker, [(sp, chk.seed * 31 + i, secs) for i, sp in enumerate(fspecs)], a.workers):
            if kind == "ok":
                chk.acc.merge(r)
            else:
                chk.error("fuzz worker failed: " + r[-3000:])
        chk.extra_coverage["fuzz_s"] = round(time.time() - t1, 1)
    if chk.acc.excluded.get("builder-sanity"):
        chk.error("%d nesting cases were skipped because the library rejected the depth-3 instance of a constructive "
                  "builder (see notes): the check did not test what it claims" % chk.acc.excluded["builder-sanity"])
    t1 = time.time()
    runner.confirm(chk, replay_case)
    chk.extra_coverage["confirm_s"] = round(time.time() - t1, 1)
    return chk.finish(nm * nc // 3, chk.pick(1500, 30000))


if __name__ == "__main__":
    sys.exit(main(sys.argv[1:]))
