"""C19 — codecs are reentrant: concurrent use equals sequential use, without data races.

Hypothesis draws modules (vf/gen.py), the asn1c from /repo compiles them, the generated code + the skeleton
library + c/mt_driver.c are built with -fsanitize=thread.  Per module Hypothesis then draws *script sets*:
N in {2,4,8,16} threads, each with a deterministic script of codec calls over its own structures (values are
injected as reference DER from vf/ref_ber.py; the other four syntaxes are reached by encode -> decode chains
inside the script), plus a seed for the schedule perturbation.  The driver runs all scripts concurrently R times
(first, in a process that is renewed every FRESH sets, so that one-time initialisation is reached by several threads
at once), then every script alone.

Oracle 1 (differential): every recorded result of a concurrent run equals the result of the solo run.
Oracle 2: ThreadSanitizer reports nothing (halt_on_error; nothing of /repo or of the generated code is suppressed;
c/mt_tsan_libc.supp names three glibc-internal time-zone functions whose private lock TSan cannot see).

Code-generation options vary per module (default, -fwide-types, -findirect-choice); a fixed catalogue module
(catalogue()) joins the drawn ones under each option set.
"""
import os
import re
import sys

from hypothesis import strategies as st

from . import gen, drv, build, ref_ber, pipeline, runner
from .common import Acc, h, KNOWN
from .model import Module, T, Member, Cons
from .pipeline import Fail

PID = "C19"
RULE = ("modules drawn by Hypothesis over the supported type algebra (time types, REAL, OBJECT IDENTIFIER, constrained "
        "strings, SET OF, CHOICE, recursive types), built with -fsanitize=thread; per module Hypothesis draws script "
        "sets: N in {2,4,8,16} threads x a deterministic script each (decode BER/OER/UPER/XER/CXER, encode "
        "DER/OER/UPER/XER/CXER, asn_check_constraints incl. failing values, asn_fprint and xer_fprint to a memory "
        "stream, compare_struct, copy by DER round trip, decode of truncated/bit-flipped/extended input, "
        "ASN_STRUCT_FREE, asn_random_fill) over values injected as reference DER, with a seeded sched_yield/spin "
        "perturbation between calls; the driver runs all scripts concurrently R times, then every script alone; every call's "
        "(rc, consumed/encoded, errno of a failed asn_encode, hash of the bytes produced) must equal the solo result "
        "and ThreadSanitizer must stay silent; non-trivial = the per-thread call logs show at least two threads "
        "executing the same library function family on the same type descriptor within the run; distinct by script set")
ASSUMPTIONS = [
    "the harness does not own the scheduler: a race that needs one specific interleaving AND is invisible to "
    "ThreadSanitizer's happens-before analysis (e.g. hidden behind a libc lock, or inside uninstrumented libc such as "
    "random()/mktime()/strerror()) can be missed; a race on instrumented memory is reported whatever the interleaving "
    "was, because after the start barrier no two script threads are ordered",
    "TSan keeps a bounded access history (4 shadow cells per 8 bytes, history_size default): a conflicting access that "
    "was evicted before its partner ran is not reported",
    "asn_random_fill draws from libc's global random(): it is executed concurrently (TSan oracle) but its results are "
    "not compared",
    "the driver checks has_codec before calling a codec, so the NULL-codec entries of SET/ANY for OER/PER are not called",
    "glibc's time-zone state is guarded by a libc-internal lock that TSan cannot see: reports whose racing access lies "
    "inside tzset_internal/__tzfile_read/__tzset_parse_tz (libc frames) are suppressed, and TZ is set to a fixed POSIX "
    "string so that local time does not depend on the host; nothing in /repo code is suppressed",
    "a result mismatch (oracle 1) depends on winning a race: a candidate is confirmed by re-running the same input with "
    "400 repetitions in up to 5 fresh processes AND by a clean control run of the same work one thread at a time",
    "memory errors without a data race are not this check's business (TSan build has no ASan)",
]
SUPP = os.path.join(build.CDIR, "mt_tsan_libc.supp")     # glibc-internal tz lock only; nothing of /repo is suppressed
TSAN_ENV = {"TSAN_OPTIONS": "halt_on_error=1:exitcode=66:report_thread_leaks=1:second_deadlock_stack=1:suppressions=" + SUPP,
            # local time must not depend on the host: a POSIX TZ string needs no zoneinfo file and has a non-zero offset
            "TZ": "EST5EDT,M3.2.0,M11.1.0"}
BUILD_KW = dict(driver_src="mt_driver.c", wrap=False, link_flags=("-pthread",))
# "plain" (no TSan: oracle 1 alone) only for overhead measurements and sensitivity experiments by hand
VARIANT = os.environ.get("VERIF_C19_VARIANT", "tsan")
THREADS = [2, 4, 8, 16]
SYN = ["ber", "oer", "uper", "xer", "cxer"]
# code-generation options change which skeleton files carry the load (INTEGER.c/REAL.c instead of Native*.c, pointer CHOICE)
FLAG_SETS = [("-fcompound-names",), ("-fcompound-names", "-fwide-types"), ("-fcompound-names", "-findirect-choice"),
             ("-fcompound-names",), ("-fcompound-names", "-fwide-types")]
POOL = 5                      # values per type
FRESH = 6                     # script sets per driver process
REPLAY_REPS = 400             # a schedule-dependent mismatch needs many repetitions to show up again on demand
ATTEMPTS = 5                  # fresh processes tried by one replay before it says "holds"
I64_MAX = (1 << 63) - 1

# Known-finding classes: name -> predicate(type features, op) that EXCLUDES the class by construction.
# (none on the current tree: the check found no violation of C19; the mechanism is kept for the day it does)
KNOWN_CLASSES = {}


def _assumed_known():
    # test-only: VERIF_C19_ASSUME_KNOWN=class1,class2 behaves as if known_findings.txt listed these classes
    return {c for c in os.environ.get("VERIF_C19_ASSUME_KNOWN", "").split(",") if c}


def known_skip(feats, op):
    for cls, pred in KNOWN_CLASSES.items():
        if (KNOWN.is_known(PID, cls) or cls in _assumed_known()) and pred(feats, op):
            return cls
    return None


# ------------------------------------------------------------------ value pools
def rfill_safe(mod, t, _seen=None):
    """asn_random_fill is a test helper with its own asserts (asn_random_between: range < 2^63-1, lb <= ub in
    intmax_t): types whose INTEGER constraints span that much are not given to it."""
    _seen = _seen if _seen is not None else set()
    if t.kind == "REF":
        if t.ref in _seen:
            return True
        _seen.add(t.ref)
        return rfill_safe(mod, mod.lookup(t.ref), _seen)
    if t.kind in ("INTEGER", "ENUMERATED") and t.cons:
        for c in [t.cons]:
            for lo, hi in list(c.ranges) + list(c.ext_ranges or []):
                if lo is None or hi is None:
                    continue
                if hi > I64_MAX or lo < -I64_MAX - 1 or hi - lo >= I64_MAX - 1:
                    return False
    for m in t.members:
        if not rfill_safe(mod, m.type, _seen):
            return False
    if t.elem is not None and not rfill_safe(mod, t.elem, _seen):
        return False
    return True


EXTRA_TIMES = {
    # local time (no zone: mktime path), explicit offsets (timegm path), minutes/seconds omitted, fractions
    "GeneralizedTime": ["20240229120000", "20240229120000+0130", "2024022912-0500", "202402291200Z",
                        "20240229120000.250+0000", "19700101000000Z", "20380119031408Z", "2024133112"],
    "UTCTime": ["2402291200Z", "240229120000+0130", "240229120000-0500", "2402291200", "991231235959Z", "24133112Z"],
}


def catalogue():
    """A fixed module that every run includes under every flag set, so that the code paths the property's anchors
    name are always exercised by several threads (wide INTEGERs, REAL, time types, OBJECT IDENTIFIER, permitted
    alphabets with a PER character map, long strings, SET OF, CHOICE, SET, a recursive type)."""
    ts = [
        ("KInt", T("INTEGER")),
        ("KIntC", T("INTEGER", cons=Cons("value", [(-5, 300)]))),
        ("KIntU", T("INTEGER", cons=Cons("value", [(0, 4294967295)]))),
        ("KIntSeq", T("SEQOF", elem=T("INTEGER"))),
        ("KReal", T("REAL")),
        ("KEnum", T("ENUMERATED", named=[("a", 0), ("b", 5), ("c", -3)])),
        ("KGT", T("GeneralizedTime")),
        ("KUT", T("UTCTime")),
        ("KOid", T("OID")),
        ("KRoid", T("RELOID")),
        ("KBits", T("BITSTRING", size=Cons("size", [(0, 40)]))),
        ("KOct", T("OCTETSTRING")),
        ("KIA5", T("IA5String", alpha=Cons("from", [(0x30, 0x39), (0x41, 0x46)]), size=Cons("size", [(1, 200)]))),
        ("KVis", T("VisibleString", size=Cons("size", [(0, 300)]))),
        ("KBmp", T("BMPString", alpha=Cons("from", [(0x41, 0x5a)]))),
        ("KUtf8", T("UTF8String")),
        ("KNum", T("NumericString")),
        ("KSeq", T("SEQUENCE", members=[Member("i", T("INTEGER")), Member("r", T("REAL"), optional=True),
                                        Member("t", T("GeneralizedTime"), optional=True),
                                        Member("s", T("IA5String", size=Cons("size", [(0, 150)]))),
                                        Member("o", T("OID"), optional=True)], ext=True)),
        ("KSetOf", T("SETOF", elem=T("VisibleString"))),
        ("KChoice", T("CHOICE", members=[Member("i", T("INTEGER")), Member("r", T("REAL")), Member("t", T("UTCTime")),
                                          Member("o", T("OID")), Member("s", T("REF", ref="KSetOf"))])),
        ("KSet", T("SET", members=[Member("b", T("BOOLEAN")), Member("i", T("INTEGER"), optional=True),
                                   Member("e", T("REF", ref="KEnum"))])),
        ("KRec", gen.RECURSIVE_TEMPLATES[0]("KRec")),
        ("KTree", gen.RECURSIVE_TEMPLATES[2]("KTree")),
    ]
    return Module("C19Cat", "AUTOMATIC", ts)


WIDE_INTS = [1 << 64, -(1 << 100), (1 << 130) - 1, -(1 << 63) - 1]     # hex-dump paths of INTEGER_t printers


def value_pool(mod, cfg, seed):
    """[(type name, [reference DER...], features, rfill ok)] — POOL values per type, drawn by Hypothesis."""
    info = []
    for ti, (tname, t) in enumerate(mod.types):
        vals = []

        def body(v, vals=vals):
            vals.append(v)
        try:
            pipeline.run_given(gen.values(mod, t, cfg), body, POOL, seed * 131 + ti, shrink=False)
            # two long values: multi-octet BER lengths, PER length determinants above 127, printer buffer flushes
            pipeline.run_given(gen.values(mod, t, cfg, max_len=260), body, 2, seed * 137 + ti, shrink=False)
        except Exception:
            continue
        rt = mod.resolve(t)
        if rt.kind in EXTRA_TIMES:
            vals += EXTRA_TIMES[rt.kind]
        if rt.kind == "INTEGER" and not rt.cons and cfg.wide_ints:
            vals += WIDE_INTS
        ders = []
        for v in vals:
            try:
                d = ref_ber.encode(mod, t, v)
            except Exception:
                continue
            if len(d) <= 1500 and d not in ders:
                ders.append(d)
        if ders:
            feats = pipeline.type_features(mod, t)
            # recursive types: asn_random_fill nests them ~30 deep and the DER encoder's size pre-pass is exponential
            # in the nesting depth (minutes under TSan) - a cost matter, not a reentrancy one
            # ObjectDescriptor has no random_fill ("Not supported") and the constructed fillers call the NULL entry
            rf = "no:integer-range" if not rfill_safe(mod, t) else "no:recursive" if "recursive" in feats \
                else "no:ObjectDescriptor-has-no-filler" if "ObjectDescriptor" in feats else "ok"
            info.append((tname, ders, feats, rf))
    return info


# ------------------------------------------------------------------ script sets
OPS = st.one_of(
    st.tuples(st.just("e"), st.integers(0, 4)),
    st.tuples(st.just("rt"), st.integers(0, 4)),
    st.tuples(st.just("rt"), st.integers(1, 4)),
    st.tuples(st.just("k")),
    st.tuples(st.just("p")),
    st.tuples(st.just("x")),
    st.tuples(st.just("bad"), st.integers(0, 4), st.integers(0, 2), st.integers(0, 4000)),
    st.tuples(st.just("trunc"), st.integers(0, 4000)),
    st.tuples(st.just("c2"), st.integers(0, POOL + 8)),
    st.tuples(st.just("copy")),
    st.tuples(st.just("r"), st.sampled_from([1, 8, 64, 300])),
)
EPISODE = st.tuples(st.integers(0, 10 ** 6), st.integers(0, POOL + 8), st.lists(OPS, min_size=2, max_size=8))
SCRIPT = st.lists(EPISODE, min_size=1, max_size=2)


@st.composite
def script_set(draw):
    n = draw(st.sampled_from(THREADS))
    mode = draw(st.sampled_from(["twin", "same-type", "same-type", "mixed", "mixed"]))
    pseed = draw(st.integers(0, (1 << 32) - 1))
    if mode == "twin":
        s = draw(SCRIPT)
        scripts = [s] * n
    elif mode == "same-type":
        tix = draw(st.integers(0, 10 ** 6))
        scripts = [[(tix, vi, ops) for (_, vi, ops) in draw(SCRIPT)] for _ in range(n)]
    else:
        scripts = [draw(SCRIPT) for _ in range(n)]
    return {"n": n, "mode": mode, "pseed": pseed, "scripts": scripts}


def render_script(info, script, acc=None):
    """Abstract episodes -> driver ops.  Slots: 0 the value, 1 scratch, 2 a second value, 3 the copy."""
    out = []
    used = set()
    for tix, vix, ops in script:
        tname, ders, feats, rfill_ok = info[tix % len(info)]
        used.add(tname)
        der = ders[vix % len(ders)]
        out.append("d,0,%s,0,h%s" % (tname, der.hex()))
        for op in ops:
            k = op[0]
            cls = known_skip(feats, op)
            if cls:
                if acc is not None:
                    acc.excluded["known:" + cls] += 1
                continue
            if k == "e":
                out.append("e,0,%d,0" % op[1])
            elif k == "rt":
                out += ["e,0,%d,1" % op[1], "d,1,%s,%d,b1" % (tname, op[1]), "c,0,1", "k,1", "f,1"]
            elif k in ("k", "p", "x"):
                out.append("%s,0" % k)
            elif k == "bad":
                out += ["e,0,%d,1" % op[1], "m,1,2,%d,%d" % (op[2], op[3]), "d,1,%s,%d,b2" % (tname, op[1]), "p,1", "f,1"]
            elif k == "trunc":
                cut = der[:op[1] % (len(der) + 1)]
                out += ["d,1,%s,0,%s" % (tname, "h" + cut.hex() if cut else "-"), "f,1"]
            elif k == "c2":
                out += ["d,2,%s,0,h%s" % (tname, ders[op[1] % len(ders)].hex()), "c,0,2", "c,2,0", "f,2"]
            elif k == "copy":
                out += ["e,0,0,3", "d,3,%s,0,b3" % tname, "c,0,3", "x,3", "f,3"]
            elif k == "r":
                if rfill_ok == "ok":
                    out.append("r,%s,%d" % (tname, op[1]))
                elif acc is not None:
                    acc.excluded["random_fill." + rfill_ok[3:]] += 1
        out.append("f,0")
    return ";".join(out), used


def render_set(info, x, reps, acc=None, verb="run"):
    scripts, used = [], set()
    for s in x["scripts"]:
        text, u = render_script(info, s, acc)
        scripts.append(text)
        used |= u
    return "%s %d %d %d %s" % (verb, x["n"], reps, x["pseed"], "|".join(scripts)), used


# ------------------------------------------------------------------ oracles
TSAN_RE = re.compile(r"WARNING: ThreadSanitizer: ([^\n(]+)")
SUMMARY_RE = re.compile(r"SUMMARY: ThreadSanitizer: ([^\n]+)")


def classify_crash(e):
    """DriverCrash -> (class, text).  class: 'tsan:<where>' | 'crash-concurrent' | 'hang-concurrent' | 'crash-alone'."""
    err = e.stderr or ""
    m = TSAN_RE.search(err)
    if m:
        s = SUMMARY_RE.search(err)
        where = s.group(1).strip() if s else m.group(1).strip()
        # stable key: kind + function, without build paths and line/column numbers
        fn = re.search(r" in (\S+)$", where)
        kind = m.group(1).strip()
        # first frame inside the library or the generated code names the class better than an interceptor does
        lib = re.search(r"#\d+ (\S+) \S*/(?:skeletons|gen)/\S+", err[m.start():])
        key = "tsan:%s:%s" % (kind.replace(" ", "-"), lib.group(1) if lib else fn.group(1) if fn else re.sub(r"/\S*/", "", where))
        start = err.find("WARNING: ThreadSanitizer")
        return key, "ThreadSanitizer report (oracle 2):\n" + err[start:start + 3500]
    phases = re.findall(r"#phase (\w+) (\d+) (\d+)", err)
    last = phases[-1][0] if phases else "?"
    tail = "\n".join(l for l in err.splitlines() if not l.startswith("#phase"))[-2500:]
    if e.why.startswith("hang"):
        return ("hang-concurrent" if last == "mt" else "hang-alone"), "%s in phase %s\n%s" % (e.why, last, tail)
    if last == "mt":
        return "crash-concurrent", "driver died in the concurrent phase (%s) after every script had run alone\n%s" % (e.why, tail)
    return "crash-alone", "driver died while a script ran alone (phase %s, %s)\n%s" % (last, e.why, tail)


def check_reply(reply):
    """Oracle 1 over a completed run.  Returns (class, text) or None."""
    if reply.get("_status") != "ok":
        raise RuntimeError("harness error: driver refused the script set: " + reply["_raw"][:300])
    if reply.get("mism") != "0":
        kind = {"d": "decode", "e": "encode", "k": "check", "p": "print", "x": "xer_fprint", "c": "compare", "f": "free",
                "m": "derive"}.get(reply.get("mkind"), reply.get("mkind"))
        syn = SYN[int(reply.get("msyn", 0))] if reply.get("mkind") in ("d", "e") else ""
        return ("mismatch:%s%s" % (kind, "." + syn if syn else ""),
                "oracle 1: in concurrent repetition %s, thread %s, op #%s (%s %s on type %s) returned "
                "st:errno:a:b:hash = %s but the same script run alone returned %s" % (
                    reply.get("mrep"), reply.get("mthr"), reply.get("mop"), kind, syn, reply.get("mtype"),
                    reply.get("got"), reply.get("want")))
    return None


def account(acc, reply, x, line):
    shared = int(reply.get("shared", 0))
    nt = h(line) if shared >= 1 and int(reply.get("threads", 0)) >= 2 else None
    classes = ["threads.%d" % x["n"], "mode." + x["mode"]]
    for k, v in reply.items():
        if k.startswith("f."):
            classes.append("fn." + k[2:])
            acc.extra["calls." + k[2:]] += int(v)
    if int(reply.get("decfail", 0)):
        classes.append("has.decode-failure")
    if int(reply.get("encfail", 0)):
        classes.append("has.encode-failure")
    if int(reply.get("chkfail", 0)):
        classes.append("has.constraint-failure")
    # how many threads ran the same function family on the same descriptor (the most crowded pair of this set)
    classes.append("threads-on-one-function+descriptor.%s" % reply.get("maxthr", "0"))
    acc.case(nt, classes)
    for k in ("calls", "shared", "executed", "skipped", "decok", "decfail", "encok", "encfail", "chkfail", "yields"):
        acc.extra["ops." + k if k not in ("calls", "shared") else k] += int(reply.get(k, 0))
    acc.extra["script_sets"] += 1
    acc.extra["concurrent_runs"] += int(reply.get("reps", 0))
    acc.extra["threads_started_concurrently"] += int(reply.get("reps", 0)) * int(reply.get("threads", 0))


def control_run(mb, line):
    """A crash/hang in the concurrent phase: does the same work, one thread at a time, crash as well?"""
    d = mb.driver(timeout=60, env=TSAN_ENV)
    try:
        for _ in range(3):
            d.cmd("runseq" + line[3:])
        return False
    except drv.DriverCrash:
        return True
    finally:
        d.kill()


# ------------------------------------------------------------------ worker
def worker(mod_json, wseed, nsets, cfg_kw, reps, shrink_budget=24):
    import time
    t0 = time.time()
    acc = Acc()
    mod = Module.from_json(mod_json)
    cfg = gen.Cfg(**cfg_kw)
    flags = FLAG_SETS[wseed % len(FLAG_SETS)]
    acc.extra["modules.flags." + "+".join(f.lstrip("-") for f in flags[1:]) if len(flags) > 1 else "modules.flags.default"] += 1
    mb, mod, rejected = pipeline.compile_module(mod, flags, VARIANT, **BUILD_KW)
    for r in rejected:
        acc.extra["types_rejected_by_asn1c"] += 1
        acc.notes.append("rejected %s at %s rc=%s: %s" % (r["type"], r["stage"], r["rc"], r["output"][-200:]))
    if mb is None:
        acc.extra["modules_unbuildable"] += 1
        return acc
    acc.extra["modules"] += 1
    try:
        if "-fwide-types" in flags:
            cfg = gen.Cfg(**dict(cfg_kw, wide_ints=True))     # INTEGER_t carries values beyond 64 bits (hex dump paths)
        info = value_pool(mod, cfg, wseed)
        if not info:
            acc.extra["modules_without_values"] += 1
            return acc
        acc.extra["types"] += len(info)
        acc.extra["values_in_pools"] += sum(len(i[1]) for i in info)
        state = {"fails": 0, "best": None, "sess": pipeline.Session(mb, timeout=60, env=TSAN_ENV), "n": 0, "exit": None}

        def fresh_process():
            # the concurrent phase of the FIRST set of a process is where one-time initialisation can race:
            # start a new driver process every FRESH sets
            rc, err = state["sess"].close()
            if (rc != 0 or "WARNING: ThreadSanitizer" in err) and state["exit"] is None:
                state["exit"] = (rc, err)
            state["sess"] = pipeline.Session(mb, timeout=60, env=TSAN_ENV)
            acc.extra["driver_processes"] += 1

        def body(x):
            line, used = render_set(info, x, reps, acc)
            replay = {"module": mod.subset(sorted(used)).to_json(), "line": line, "flags": list(flags)}
            f = None
            state["n"] += 1
            if state["n"] % FRESH == 0:
                fresh_process()
            sess = state["sess"]
            try:
                reply = sess.cmd(line)
            except drv.DriverCrash as e:
                cls, text = classify_crash(e)
                if cls in ("crash-alone", "hang-alone"):
                    # not a statement about concurrency: the call does not return when run alone either
                    acc.excluded[cls] += 1
                    if len(acc.notes) < 30:
                        acc.notes.append("%s (other properties own this): %s || %s" % (cls, text[-400:], line[:300]))
                    return
                if cls in ("crash-concurrent", "hang-concurrent") and control_run(mb, line):
                    acc.excluded["crash-also-when-sequential"] += 1
                    acc.notes.append("crash reproduced one thread at a time (random_fill values?): %s || %s" % (text[-400:], line[:300]))
                    return
                f = Fail(h(cls), "%s\nscript set (%d threads, mode %s):\n%s" % (text, x["n"], x["mode"], line[:3000]), replay)
            else:
                p = check_reply(reply)
                if p is None:
                    account(acc, reply, x, line)
                    if acc.evaluations % 29 == 1:
                        acc.sample({"threads": x["n"], "mode": x["mode"], "types": sorted(used)[:8], "calls": reply.get("calls"),
                                    "shared_function_descriptor_pairs": reply.get("shared"), "script0": line.split("|")[0][:400]})
                    return
                f = Fail(h(p[0]), "%s\nscript set (%d threads, mode %s):\n%s" % (p[1], x["n"], x["mode"], line[:3000]), replay)
            state["fails"] += 1
            if state["best"] is None or len(f.replay["line"]) <= len(state["best"].replay["line"]):
                state["best"] = f
            raise f

        def bounded(x):
            # a failing case costs a driver restart (TSan halts): bound the shrinker's work
            if state["fails"] >= shrink_budget:
                raise state["best"]
            body(x)
        f = pipeline.run_given(script_set(), bounded, nsets, wseed)
        if f is not None:
            if f.key == "flaky":
                acc.notes.append(f.summary[:500])
                f = state["best"]
            elif state["best"] is not None:
                f = state["best"]
            if f is not None:
                acc.violation(f.key, f.summary, f.replay)
        rc, err = state["sess"].close()
        acc.extra["driver_processes"] += 1
        if state["exit"] is not None:
            rc, err = state["exit"]
        if rc != 0 or "WARNING: ThreadSanitizer" in err:
            acc.extra["driver_nonzero_exit"] += 1
            if f is None:
                acc.violation(h("exit", err[-200:]), "driver exit status %s with stderr:\n%s" % (rc, err[-2500:]),
                              {"module": mod.to_json(), "line": "list", "flags": list(flags)})
    finally:
        mb.cleanup()
    acc.extra["worker_seconds"] += int(time.time() - t0)
    acc.timing = (mod.name, round(time.time() - t0, 1))
    return acc


# ------------------------------------------------------------------ replay
def _attempt(mb, line):
    """One fresh driver process running one line.  Returns (class or None, text)."""
    d = mb.driver(timeout=300, env=TSAN_ENV)
    rc_err = None
    try:
        reply = d.cmd(line)
    except drv.DriverCrash as e:
        return classify_crash(e)
    finally:
        try:
            rc_err = d.close()
        except Exception:
            d.kill()
    if rc_err and (rc_err[0] != 0 or "WARNING: ThreadSanitizer" in rc_err[1]):
        return "exit", "driver exit status %s:\n%s" % (rc_err[0], rc_err[1][-2500:])
    p = check_reply(reply)
    if p:
        return p
    return None, reply["_raw"][:600]


def replay_case(case):
    """Fresh build + fresh processes.  Returns (violated, text).
    A ThreadSanitizer report does not depend on winning a race and shows on the first attempt.  A result mismatch or a
    crash in the concurrent phase (oracle 1) depends on the interleaving, so the same deterministic input is run with
    far more repetitions than in the campaign, in up to ATTEMPTS fresh processes; when it shows, the control experiment
    (runseq: identical work, identical repetitions, one thread at a time) must be clean, otherwise the call is not
    deterministic even alone and the case says nothing about concurrency.  "exact": true (regression replays) keeps the
    recorded repetition count and makes one attempt."""
    mod = Module.from_json(case["module"])
    line = case["line"]
    toks = line.split(" ", 3)
    attempts = 1
    if toks[0] == "run" and not case.get("exact"):
        toks[2] = str(max(int(toks[2]), REPLAY_REPS))
        line = " ".join(toks)
        attempts = ATTEMPTS
    text = ""
    with drv.ModuleBuild(mod.render(), tuple(case.get("flags", drv.DEFAULT_FLAGS)), VARIANT, **BUILD_KW) as mb:
        for i in range(attempts):
            cls, text = _attempt(mb, line)
            if cls is None:
                continue
            if cls in ("crash-alone", "hang-alone"):
                return False, "not a concurrency failure: " + text
            if cls.startswith("tsan:") or not line.startswith("run "):
                return True, text
            ccls, ctext = _attempt(mb, "runseq" + line[3:])
            if ccls is not None:
                return False, "the same work run one thread at a time fails as well (%s): not a concurrency failure\n%s" % (ccls, ctext[-800:])
            return True, text + "\n[attempt %d/%d; control: the same work run one thread at a time with the same %s repetitions " \
                "gave results identical to the solo run]" % (i + 1, attempts, toks[2])
    return False, text


def main(argv):
    a = runner.parse_args(argv)
    thorough = a.tier == "thorough"
    nm = a.modules or (240 if thorough else 40)
    nv = a.values or (120 if thorough else 100)
    reps = 6 if thorough else 4
    return runner.run_module_check(
        PID, "exploration", RULE, worker, replay_case, argv,
        n_modules=(nm, nm), n_values=(nv, nv), variants=(VARIANT,), extra_worker_args=(reps,),
        cfg_kw={"violate": 0.15}, assumptions=ASSUMPTIONS, extra_modules=[catalogue()] * 3,
        min_evaluations=nm * nv // 2, min_nontrivial=nm * nv // 4)


if __name__ == "__main__":
    sys.exit(main(sys.argv[1:]))
