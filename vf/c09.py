"""C09 — PER/OER-visible constraints are the set-theoretic effective constraint."""
import re
import sys

from hypothesis import strategies as st, given, settings, seed as hseed, HealthCheck, Phase

from . import gen, drv, build, ref_ber, ref_per, ref_oer, pipeline, runner
from .common import h, KNOWN, Acc, Check, run_pool
from .model import Module, T, Cons, val_to_json

PID = "C09"
RULE = ("constraint expression trees over INTEGER values and SIZE (leaves: single value, a..b, MIN..b, a..MAX; nodes: "
        "union, intersection, EXCEPT, serial application, subtype chains through type references, an extension marker with "
        "or without additions on the last applied constraint) drawn by Hypothesis over the universe 0..7 plus 64-bit boundary "
        "constants (thorough tier: additionally the exhaustive enumeration of all trees of depth <= 2 over 0..7); the "
        "reference evaluates the tree set-theoretically and applies the visibility rules of X.691 10.3 / X.696 8.2 to get "
        "(lb, ub, extensible); compared (1) with the bounds asn1c -E -F -print-constraints prints, (2) with the UPER and OER "
        "bytes the compiled codec produces for every value in the root set and, if extensible, outside it (reference "
        "encoders parameterised with the reference bounds), which also makes two definitions with equal effective "
        "constraints encode identically; non-trivial = tree has >= 2 operators or an extension marker or MIN/MAX; distinct by tree text")
INF = float("inf")
UNIVERSE = list(range(0, 8))
BIG = [-(1 << 63), -(1 << 31) - 1, -(1 << 31), -32769, -32768, -129, -128, -1, 127, 128, 255, 256, 32767, 65535, 65536,
       (1 << 31) - 1, 1 << 31, (1 << 32) - 1, 1 << 32, (1 << 63) - 1]


# ------------------------------------------------------------------ interval sets
def norm(iv):
    iv = sorted((a, b) for a, b in iv if a <= b)
    out = []
    for a, b in iv:
        if out and a <= out[-1][1] + 1:
            out[-1] = (out[-1][0], max(out[-1][1], b))
        else:
            out.append((a, b))
    return out


def union(x, y):
    return norm(x + y)


def inter(x, y):
    out = []
    for a, b in x:
        for c, d in y:
            lo, hi = max(a, c), min(b, d)
            if lo <= hi:
                out.append((lo, hi))
    return norm(out)


def diff(x, y):
    out = list(x)
    for c, d in y:
        nxt = []
        for a, b in out:
            if d < a or c > b:
                nxt.append((a, b))
                continue
            if a < c:
                nxt.append((a, c - 1))
            if d < b:
                nxt.append((d + 1, b))
        out = nxt
    return norm(out)


ALL = [(-INF, INF)]


# ------------------------------------------------------------------ trees
def leaf_strategy(universe):
    v = st.sampled_from(universe)
    return st.one_of(
        v.map(lambda a: ("val", a)),
        st.tuples(v, v).map(lambda p: ("range", min(p), max(p))),
        v.map(lambda a: ("range", None, a)),
        v.map(lambda a: ("range", a, None)),
    )


def tree_strategy(universe, depth):
    if depth == 0:
        return leaf_strategy(universe)
    sub = tree_strategy(universe, depth - 1)
    return st.one_of(
        leaf_strategy(universe),
        st.tuples(st.sampled_from(["union", "inter", "except"]), sub, sub),
    )


def text(n):
    k = n[0]
    if k == "val":
        return str(n[1])
    if k == "range":
        return "%s..%s" % ("MIN" if n[1] is None else n[1], "MAX" if n[2] is None else n[2])
    op = {"union": "|", "inter": "^", "except": "EXCEPT"}[k]
    return "(%s) %s (%s)" % (text(n[1]), op, text(n[2]))


def ev(n, visible):
    """Set of a tree; visible=True applies X.691 10.3: 'E1 EXCEPT E2' is seen as E1."""
    k = n[0]
    if k == "val":
        return [(n[1], n[1])]
    if k == "range":
        return [(-INF if n[1] is None else n[1], INF if n[2] is None else n[2])]
    a, b = ev(n[1], visible), ev(n[2], visible)
    if k == "union":
        return union(a, b)
    if k == "inter":
        return inter(a, b)
    return a if visible else diff(a, b)


def ops(n):
    return 0 if n[0] in ("val", "range") else 1 + ops(n[1]) + ops(n[2])


def has_minmax(n):
    if n[0] == "range":
        return n[1] is None or n[2] is None
    return n[0] not in ("val",) and (has_minmax(n[1]) or has_minmax(n[2]))


@st.composite
def spec_strategy(draw, universe):
    """A definition: 1..3 serially applied constraints (some through a type reference), optional extension on the last."""
    n = draw(st.sampled_from([1, 1, 2, 2, 3]))
    trees = [draw(tree_strategy(universe, draw(st.integers(0, 2)))) for _ in range(n)]
    via_ref = [draw(st.booleans()) for _ in range(n - 1)]
    ext = draw(st.sampled_from([None, None, "plain", "adds"]))
    adds = draw(tree_strategy(universe, 1)) if ext == "adds" else None
    what = draw(st.sampled_from(["value", "value", "size"]))
    return {"trees": trees, "via_ref": via_ref, "ext": ext, "adds": adds, "what": what}


def evaluate(spec):
    """Returns (true root intervals, visible root intervals, extensible, additions intervals) or None if degenerate."""
    true_set, vis = ALL, ALL
    if spec["what"] == "size":
        true_set = vis = [(0, INF)]
    for tr in spec["trees"] + ([spec["adds"]] if spec["adds"] else []):
        # no empty subexpression anywhere (left to interpretation), and X.680: the values a serially applied
        # constraint mentions must be values of the parent type
        for node in _nodes(tr):
            if not ev(node, False):
                return None
            if node[0] in ("val", "range") and tr is not spec["adds"]:
                for x in node[1:]:
                    if x is not None and not _contains(true_set, x):
                        return None
        if tr is spec["adds"]:
            break
        true_set = inter(true_set, ev(tr, False))
        vis = inter(vis, ev(tr, True))
    if not true_set or not vis:
        return None
    adds = ev(spec["adds"], False) if spec["adds"] else []
    if spec["what"] == "size":
        adds = inter(adds, [(0, INF)])
    # X.696 8.2: an extensible constraint is not OER-visible, the other serially applied ones still are
    oer_vis = [(0, INF)] if spec["what"] == "size" else ALL
    ntr = len(spec["trees"])
    for i, tr in enumerate(spec["trees"]):
        if i == ntr - 1 and spec["ext"] is not None:
            continue
        oer_vis = inter(oer_vis, ev(tr, True))
    spec["_oer_vis"] = oer_vis
    return true_set, vis, spec["ext"] is not None, adds


def render_spec(spec, name):
    """ASN.1 text: list of (typename, definition text); the last one is the type under test."""
    base = "INTEGER" if spec["what"] == "value" else "OCTET STRING"
    wrap = (lambda s: "(%s)" % s) if spec["what"] == "value" else (lambda s: "(SIZE(%s))" % s)
    defs = []
    cur = base
    acc_txt = ""
    k = 0
    trees = spec["trees"]
    for i, tr in enumerate(trees):
        body = text(tr)
        last = i == len(trees) - 1
        if last and spec["ext"]:
            body += ", ..."
            if spec["adds"]:
                body += ", " + text(spec["adds"])
        acc_txt += " " + wrap(body)
        if not last and spec["via_ref"][i]:
            nm = "%sP%d" % (name, k)
            k += 1
            defs.append((nm, cur + acc_txt))
            cur, acc_txt = nm, ""
    defs.append((name, cur + acc_txt))
    return defs


def bounds(iv):
    lb = None if iv[0][0] == -INF else int(iv[0][0])
    ub = None if iv[-1][1] == INF else int(iv[-1][1])
    return lb, ub


def members(iv, lo, hi, cap=24):
    out = []
    for a, b in iv:
        a2 = int(max(a, lo)) if a != -INF else lo
        b2 = int(min(b, hi)) if b != INF else hi
        if a2 > b2:
            continue
        cands = sorted({a2, b2, min(a2 + 1, b2), max(b2 - 1, a2), (a2 + b2) // 2})
        out += cands
    return sorted(set(out))[:cap]


PRINT_RE = re.compile(r"^-- PER-visible constraints \(([^)]*)\):\s*(.*)$")


def parse_printed(line, what):
    """'(1..5 | 8..10,...)' or ' (SIZE(1..5))' -> (lb, ub, ext) ; returns None when not understood."""
    s = line.strip()
    if what == "size":
        m = re.search(r"SIZE\((.*)\)\)", s)
        if not m:
            return None
        s = m.group(1)
    else:
        m = re.match(r"\((.*?)\)\s*(\(SIZE.*)?$", s)
        if not m:
            return None
        s = m.group(1)
    ext = "..." in s
    s = s.split(",...")[0].split(", ...")[0]
    lo, hi = [], []
    for part in s.split("|"):
        part = part.strip()
        if ".." in part:
            a, b = part.split("..")
        else:
            a = b = part
        lo.append(None if a.strip() == "MIN" else int(a))
        hi.append(None if b.strip() == "MAX" else int(b))
    lb = None if any(x is None for x in lo) else min(lo)
    ub = None if any(x is None for x in hi) else max(hi)
    return lb, ub, ext


def worker(specs_json, wseed, probe=False):
    acc = Acc()
    is_known = (lambda pid, cls: False) if probe else KNOWN.is_known
    specs = specs_json
    names, lines, info = [], [], {}
    for i, spec in enumerate(specs):
        evd = evaluate(spec)
        if evd is None:
            acc.excluded["empty-result-set"] += 1
            continue
        true_set, vis, ext, adds = evd
        lb, ub = bounds(vis)
        if spec["what"] == "size":
            lb = max(lb or 0, 0)
        tl, tu = bounds(true_set)
        # representable in the native C types the generated code uses, and inside what UPER tables can hold
        if (lb is not None and lb < -(1 << 63)) or (ub is not None and ub > (1 << 63) - 1):
            acc.excluded["bounds-beyond-int64"] += 1
            continue
        name = "T%d" % i
        defs = render_spec(spec, name)
        for nm, body in defs:
            lines.append("%s ::= %s" % (nm, body))
        names.append(name)
        info[name] = (spec, true_set, vis, ext, adds, lb, ub)
    if not names:
        return acc
    text_mod = "M DEFINITIONS AUTOMATIC TAGS ::= BEGIN\n\n" + "\n\n".join(lines) + "\n\nEND\n"
    # (1) what asn1c prints
    work = drv.mkwork("c09")
    import os
    import shutil
    import subprocess
    printed = {}
    try:
        src = os.path.join(work, "m.asn1")
        with open(src, "w") as f:
            f.write(text_mod)
        r = subprocess.run([build.asn1c_binary(), "-E", "-F", "-print-constraints", src], stdout=subprocess.PIPE,
                           stderr=subprocess.PIPE, timeout=120)
        cur = None
        if r.returncode == 0:
            for line in r.stdout.decode(errors="replace").splitlines():
                m = re.match(r"^([A-Za-z0-9]+) ::= ", line)
                if m:
                    cur = m.group(1)
                m = PRINT_RE.match(line)
                if m and cur:
                    printed[cur] = m.group(2)
    finally:
        shutil.rmtree(work, ignore_errors=True)
    # (2) the compiled codecs; drop what asn1c refuses (counted)
    refused = set()
    mb = None
    try:
        try:
            mb = drv.ModuleBuild(text_mod)
        except drv.CompileError as e:
            # find offenders one by one with the compiler only
            for name in names:
                spec = info[name][0]
                defs = render_spec(spec, name)
                t1 = "M DEFINITIONS AUTOMATIC TAGS ::= BEGIN\n" + "\n".join("%s ::= %s" % d for d in defs) + "\nEND\n"
                d = drv.mkwork("c09p")
                try:
                    rc, out = drv.run_asn1c(t1, d)
                    if rc != 0:
                        refused.add(name)
                        acc.excluded["refused-by-asn1c"] += 1
                        acc.notes.append("asn1c refuses %s: %s" % (t1.replace("\n", " ")[:200], out[-200:].replace("\n", " ")))
                finally:
                    shutil.rmtree(d, ignore_errors=True)
            keep = [n for n in names if n not in refused]
            if not keep:
                return acc
            lines2 = []
            for n in keep:
                for nm, body in render_spec(info[n][0], n):
                    lines2.append("%s ::= %s" % (nm, body))
            text_mod = "M DEFINITIONS AUTOMATIC TAGS ::= BEGIN\n\n" + "\n\n".join(lines2) + "\n\nEND\n"
            names = keep
            mb = drv.ModuleBuild(text_mod)
        d = mb.driver(timeout=30)
        for name in names:
            spec, true_set, vis, ext, adds, lb, ub = info[name]
            what = spec["what"]
            ttext = " ; ".join("%s ::= %s" % x for x in render_spec(spec, name))
            nontrivial = sum(ops(t) for t in spec["trees"]) + (len(spec["trees"]) - 1) >= 2 or ext or \
                any(has_minmax(t) for t in spec["trees"])
            key = h(ttext.replace(name, "T"))
            classes = ["what." + what, "ext" if ext else "noext", "serial.%d" % len(spec["trees"])] + \
                sorted({t[0] for tr in spec["trees"] for t in _nodes(tr)})
            acc.case(key if nontrivial else None, classes)
            known_adds = spec["ext"] == "adds" and is_known(PID, "ext-additions.merged-into-per-root")
            replay = {"spec": spec, "name": name}
            # reference model type
            model = Module("M", "AUTOMATIC", [])
            if what == "value":
                mt = T("INTEGER", cons=Cons("value", [(lb, ub)], ext))
            else:
                mt = T("OCTETSTRING", size=Cons("size", [(lb, ub)], ext))
            olb, oub = bounds(spec["_oer_vis"])
            if what == "value":
                mt_oer = T("INTEGER", cons=None if (olb is None and oub is None) else Cons("value", [(olb, oub)], False))
            else:
                mt_oer = T("OCTETSTRING", size=Cons("size", [(max(olb or 0, 0), oub)], False))
            # (1) printed bounds
            if name in printed:
                pp = parse_printed(printed[name], what)
                if pp is not None and not known_adds and not (what == "value" and ext and lb is None and
                                                              is_known(PID, "int.no-lower-bound.ext-bit-dropped.uper")):
                    plb, pub, pext = pp
                    if what == "size":
                        plb = plb or 0
                    if (plb, pub, pext) != (lb, ub, ext):
                        acc.violation(h("print", key), "%s\nasn1c -print-constraints says PER-visible %s i.e. (lb=%s, ub=%s, ext=%s); "
                                      "the effective constraint is (lb=%s, ub=%s, ext=%s)" % (ttext, printed[name].strip(), plb, pub,
                                                                                            pext, lb, ub, ext), dict(replay, part="print"))
                acc.extra["printed_compared"] += 1
            # (2) bytes for values in and around the root
            lo = (lb if lb is not None else (tl_or(true_set, 0) - 3)) - 2
            hi = (ub if ub is not None else (tu_or(true_set, 0) + 3)) + 2
            if what == "size":
                lo = max(lo, 0)
                hi = min(hi, 40)
            in_root = [v for v in members(true_set, lo, hi) if -(1 << 63) <= v <= (1 << 63) - 1]   # native C range
            out_root = []
            if ext:
                cand = members(adds, lo - 5, hi + 5) if adds else []
                cand += [x for x in (lo, hi, (lb or 0) - 1, (ub or 0) + 1) if x >= (0 if what == "size" else -(1 << 63))]
                parents = [(0, INF)] if what == "size" else ALL
                for tr in spec["trees"][:-1]:
                    parents = inter(parents, ev(tr, False))
                floor = 0 if (lb is not None and lb >= 0) else -(1 << 63)      # unsigned C representation
                out_root = [v for v in sorted(set(cand)) if not _contains(true_set, v) and _contains(parents, v)
                            and floor <= v <= (1 << 63) - 1][:8]
            if what == "size":
                # a test point is a string of that many octets: keep it encodable (the 64K fragmentation point included)
                dropped = [x for x in in_root + out_root if x > 70000]
                if dropped:
                    acc.excluded["size test points above 70000 (not materialised)"] += len(dropped)
                in_root = [x for x in in_root if x <= 70000]
                out_root = [x for x in out_root if x <= 70000]
            for v, is_root in [(x, True) for x in in_root] + [(x, False) for x in out_root]:
                if known_adds:
                    # the merged root changes the layout of every value of the type
                    acc.excluded["known:ext-additions.merged-into-per-root"] += 1
                    continue
                val = v if what == "value" else bytes([0x41]) * v
                der = ref_ber.encode(model, mt, val)
                try:
                    want_u = ref_per.encode(model, mt, val)
                    want_o = ref_oer.encode(model, mt_oer, val)
                except ref_per.RefExcluded:
                    continue
                r = d.cmd("enc %s %s uper,oer" % (name, drv.hexs(der)))
                acc.extra["values_encoded"] += 1
                if "inject" in r:
                    acc.excluded["inject-failed"] += 1
                    continue
                for syn, want in (("uper", want_u), ("oer", want_o)):
                    got = r.get(syn)
                    if syn == "uper" and what == "value" and ext and lb is None and \
                            is_known(PID, "int.no-lower-bound.ext-bit-dropped.uper"):
                        acc.excluded["known:int.no-lower-bound.ext-bit-dropped.uper"] += 1
                        continue
                    if syn == "uper" and what == "size" and ext and (ub is None or ub >= 65536) and \
                            is_known(PID, "size.ext-root-above-64K.uper"):
                        acc.excluded["known:size.ext-root-above-64K.uper"] += 1
                        continue
                    if got == "fail":
                        acc.violation(h(syn, key), "%s\nvalue %s (%s the root): %s encoder fails; effective constraint (lb=%s, ub=%s, "
                                      "ext=%s) gives %s" % (ttext, v, "in" if is_root else "outside", syn, lb, ub, ext, want.hex()),
                                      dict(replay, part=syn, value=v))
                    elif got not in (None, "nocodec") and drv.unhex(got) != want:
                        acc.violation(h(syn, key), "%s\nvalue %s (%s the root): %s bytes %s, the effective constraint (lb=%s, ub=%s, "
                                      "ext=%s) gives %s" % (ttext, v, "in" if is_root else "outside", syn, got, lb, ub, ext, want.hex()),
                                      dict(replay, part=syn, value=v))
            if acc.evaluations % 23 == 1:
                acc.sample({"definition": ttext, "effective": {"lb": lb, "ub": ub, "ext": ext},
                            "printed": printed.get(name, "").strip()})
        d.close()
    finally:
        if mb:
            mb.cleanup()
    return acc


def _nodes(n):
    yield n
    if n[0] not in ("val", "range"):
        yield from _nodes(n[1])
        yield from _nodes(n[2])


def _contains(iv, v):
    return any(a <= v <= b for a, b in iv)


def tl_or(iv, d):
    return int(iv[0][0]) if iv[0][0] != -INF else (int(iv[0][1]) if iv[0][1] != INF else d)


def tu_or(iv, d):
    return int(iv[-1][1]) if iv[-1][1] != INF else (int(iv[-1][0]) if iv[-1][0] != -INF else d)


def replay_case(case):
    acc = worker([_fix(case["spec"])], 0, probe=bool(case.get("probe")))
    if acc.violations:
        return True, "\n".join(v["summary"] for v in acc.violations)
    return False, "effective constraint respected"


def _fix(spec):
    def t(n):
        return tuple(t(x) if isinstance(x, list) else x for x in n)
    s = dict(spec)
    s["trees"] = [t(x) for x in spec["trees"]]
    s["adds"] = t(spec["adds"]) if spec["adds"] else None
    return s


def enumerate_small():
    """All single-constraint definitions with trees of depth <= 1 over 0..3, each extension flavour (thorough tier)."""
    u = [0, 1, 2, 3]
    leaves = [("val", a) for a in u] + [("range", a, b) for a in u for b in u if a < b] + \
        [("range", None, a) for a in (0, 2)] + [("range", a, None) for a in (1, 3)]
    trees = list(leaves) + [(op, a, b) for op in ("union", "inter", "except") for a in leaves for b in leaves]
    out = []
    for tr in trees:
        for ext in (None, "plain"):
            out.append({"trees": [tr], "via_ref": [], "ext": ext, "adds": None, "what": "value"})
    return out


def main(argv):
    a = runner.parse_args(argv)
    if a.replay:
        build.warm()
        return runner.do_replay(PID, replay_case, a.replay)
    chk = Check(PID, "exploration", RULE, [
        "visibility rules used: EXCEPT is seen as its left operand (X.691 10.3.x), an extensible constraint is not "
        "OER-visible, only the bounds of the visible root matter; trees whose result set is empty are excluded",
        "an extension marker is generated on the last applied constraint only"])
    n = a.modules or chk.pick(1500, 30000)
    build.warm()
    runner.regression_and_probes(chk, replay_case)
    specs = []

    @hseed(chk.seed)
    @settings(max_examples=n, database=None, deadline=None, suppress_health_check=list(HealthCheck), phases=[Phase.generate])
    @given(st.one_of(spec_strategy(UNIVERSE), spec_strategy(UNIVERSE), spec_strategy(UNIVERSE + BIG)))
    def collect(s):
        specs.append(s)
    collect()
    if chk.thorough:
        specs += enumerate_small()
        chk.extra_coverage["exhaustive_small_universe_trees"] = len(enumerate_small())
    batch = 60
    args = [(specs[i:i + batch], chk.seed + i) for i in range(0, len(specs), batch)]
    for kind, r in run_pool(worker, args, a.workers):
        if kind == "ok":
            chk.acc.merge(r)
        else:
            chk.error("worker failed: " + r[-3000:])
    runner.confirm(chk, replay_case)
    return chk.finish(200, 50)


if __name__ == "__main__":
    sys.exit(main(sys.argv[1:]))
