"""C20 — unber/enber are inverse on well-formed BER; unber is memory-safe on arbitrary input.

Command-line contract used here (asn1-tools/unber/unber.c, libasn1_unber_tool.c, asn1-tools/enber/enber.c,
doc/man/unber.man.md, enber.man.md):

  unber -p -      "-p  Do not attempt pretty-printing of known ASN.1 types ... This option is required if the
                  unber(1) output is used as an input to enber(1)"; "-" is the standard input; exit status 0, or
                  EX_DATAERR (65) with a diagnostic on stderr.
  enber -         converts that text back; 0 or EX_DATAERR (65) with a diagnostic.
  output lines    <P|C|I O="off" T="[CLASS n]" TL="tl_len" V="v_len|Indefinite" [A="type"]> ; a primitive value is
                  written as &#xNN; octets on the same line and closed by </P>; a definite constructed TLV is
                  closed by </C O="end offset" T=".." [A=".."] L="total size">, an indefinite one by
                  </I O="offset of the end-of-contents octets" T="[UNIVERSAL 0]" TL="2" L="total size">;
                  indentation is 4 spaces per level.
  limits          tag numbers up to 2^30-1 (ber_fetch_tag keeps 9 spare bits of a 32-bit ber_tlv_tag_t before the
                  last octet, and stores number<<2); TL headers up to 32 octets (tagbuf[32] in process_deeper);
                  lengths up to RSSIZE_MAX.  The generator stays inside: tag <= 2^30-1, TL <= 6+9 octets.
"""
import argparse
import functools
import glob
import json
import os
import re
import resource
import shutil
import subprocess
import sys
import time
from collections import Counter

from hypothesis import given, settings, seed as hseed, HealthCheck, Phase, strategies as st
from hypothesis import errors as herrors

from . import build, gen, pipeline, ref_ber, runner
from .common import Check, Acc, KNOWN, REPLAY_DIR, NCPU, h, run_pool
from .model import Module

PID = "C20"
MAX_TAG = (1 << 30) - 1
K_NONMIN = "ber.nonminimal-length.roundtrip"
K_DEEP = "unber.deep-nesting.stack-overflow"
K_INTUB = "unber.pretty-integer.shift-ub"
DEEP_SAFE = 2000          # nesting depth every build survives with an 8 MiB stack (ASan frames ~0.8 KiB)
TIMEOUT = 20
EX_DATAERR = 65
SAN_EXIT = 99

RULE = ("documents = concatenations of 1..4 top-level TLVs built constructively as trees (any class, tag numbers at "
        "the 1/2/3/4/5-octet boundaries up to 2^30-1, definite or indefinite constructed TLVs, nesting to depth 40, "
        "primitive contents of all octet values incl. < & > newline NUL 0xff and long-form lengths up to 70000), plus "
        "reference-encoder (vf/ref_ber) BER variants of values of generated types; length octets minimal (padded "
        "long forms are a separate class). Oracle A: enber(unber -p x) == x through the real ASan/UBSan binaries; "
        "oracle B: every O=/T=/TL=/V=/L= field, the P/C/I form, the indentation level and the printed octets equal "
        "what the reference TLV parser computes; safety: unber -p and unber (pretty-printing) on the document, on "
        "Hypothesis-drawn mutants (truncation, bit flips, length edits, tag swaps, splices, inserts, non-minimal "
        "re-encodings), on random/structured bytes, on deterministic corner inputs (deep nesting, huge lengths) and "
        "a libFuzzer campaign over unber_stream(): exit status 0 or 65 with a diagnostic, never a signal, sanitizer "
        "report or hang. non-trivial = nesting >= 2 or an indefinite length or a multi-octet tag; distinct by x")
ASSUMPTIONS = [
    "tag numbers <= 2^30-1 and TL headers <= 15 octets (the tool's documented-in-source limits are 2^30-1 and 32)",
    "non-minimal *tag* encodings (leading 0x80 octet, high-tag form for numbers < 31) are not well-formed BER "
    "(X.690 8.1.2.2, 8.1.2.4.2 c); they only appear among the safety inputs",
    "an empty primitive [UNIVERSAL 0] directly inside an indefinite-length TLV is the end-of-contents marker, so the "
    "generator gives such a child one content octet",
    "the A=\"type\" attribute (a 'likely name') is not compared",
    "a hang is reported only if the same input times out (%d s) three times" % TIMEOUT,
    "enber on damaged text is exercised but gives no verdict (the property only constrains unber there)",
]

FLAKY = (herrors.Flaky, herrors.FlakyFailure) if hasattr(herrors, "FlakyFailure") else (herrors.Flaky,)
CLSN = ["UNIVERSAL", "APPLICATION", "CONTEXT", "PRIVATE"]


class Fail(Exception):
    def __init__(self, key, summary, replay):
        Exception.__init__(self, summary)
        self.key, self.summary, self.replay = key, summary, replay


# ------------------------------------------------------------------ tools
_TOOLS = {}
_ENV = None
_ENV_NOLEAK = None


def tool(name):
    if name not in _TOOLS:
        _TOOLS[name] = build.tool_binary(name, "asan")
    return _TOOLS[name]


def env():
    global _ENV
    if _ENV is None:
        e = dict(os.environ)
        e["ASAN_OPTIONS"] = ("detect_leaks=1:allocator_may_return_null=1:detect_stack_use_after_return=0:"
                             "abort_on_error=0:exitcode=%d" % SAN_EXIT)
        e["UBSAN_OPTIONS"] = "print_stacktrace=1:halt_on_error=1:exitcode=%d" % SAN_EXIT
        e["LSAN_OPTIONS"] = "exitcode=%d" % SAN_EXIT
        _ENV = e
    return _ENV


def env_noleak():
    """enber never frees its line collector (process() in enber.c) - a leak at exit of a filter program is not
    what the property is about, so LeakSanitizer is off for enber (ASan/UBSan stay on)."""
    global _ENV_NOLEAK
    if _ENV_NOLEAK is None:
        e = dict(env())
        e["ASAN_OPTIONS"] = e["ASAN_OPTIONS"].replace("detect_leaks=1", "detect_leaks=0")
        _ENV_NOLEAK = e
    return _ENV_NOLEAK


def set_stack_limit():
    """The depth at which unbounded recursion overflows depends on the stack limit: pin it to 8 MiB."""
    want = 8 << 20
    try:
        soft, hard = resource.getrlimit(resource.RLIMIT_STACK)
        if hard == resource.RLIM_INFINITY or hard >= want:
            resource.setrlimit(resource.RLIMIT_STACK, (want, hard))
    except (ValueError, OSError):
        pass


def run(argv, data, timeout=TIMEOUT, environ=None):
    """-> (rc, stdout, stderr, timed_out)"""
    try:
        r = subprocess.run(argv, input=data, stdout=subprocess.PIPE, stderr=subprocess.PIPE, timeout=timeout,
                           env=environ or env())
        return r.returncode, r.stdout, r.stderr, False
    except subprocess.TimeoutExpired as e:
        return None, e.stdout or b"", e.stderr or b"", True


def unber(x, mode, timeout=TIMEOUT):
    """With -p the tool allocates nothing (print_V only collects values for pretty-printing), so the LeakSanitizer
    pass at exit (half of the run time of such a small process) is kept for the pretty-printing runs only."""
    if mode == "-p":
        return run([tool("unber"), "-p", "-"], x, timeout, env_noleak())
    return run([tool("unber"), "-"], x, timeout)


def enber(text, timeout=TIMEOUT):
    return run([tool("enber"), "-"], text, timeout, env_noleak())


SAN_RE = re.compile(rb"AddressSanitizer|LeakSanitizer|UndefinedBehaviorSanitizer|MemorySanitizer|runtime error:|"
                    rb"Assertion .* failed|ERROR: libFuzzer")


def tail(b, n=700):
    t = b.decode("latin-1")
    return t if len(t) <= n else t[:250] + " ... " + t[-(n - 250):]


def short_hex(x, n=160):
    s = x.hex()
    return s if len(s) <= n else "%s...(%d octets)" % (s[:n], len(x))


SIG_RE = re.compile(r"SUMMARY: (\w+): (\S+)(?: (\S+:\d+)(?::\d+)?)?")


def signature(text):
    """Root-cause key of a sanitizer report (sanitizer, kind, file:line) so that one defect is reported once."""
    m = SIG_RE.search(text)
    if m:
        return " ".join(g for g in m.groups() if g)
    if "Cannot encode TL" in text:
        return "enber: Cannot encode TL in the given number of bytes"
    return None


def fail_key(oracle, text, *parts):
    sg = signature(text)
    return h("signature", sg) if sg else h(oracle, *parts)


def safety_verdict(rc, err, timed_out, what):
    """None if the run terminated the way the property allows, else a description."""
    if timed_out:
        return "%s did not terminate within %d s" % (what, TIMEOUT)
    if rc < 0:
        return "%s was killed by signal %d; stderr: %s" % (what, -rc, tail(err))
    if SAN_RE.search(err) or rc == SAN_EXIT:
        return "%s: sanitizer/assert report (exit %d): %s" % (what, rc, tail(err, 1200))
    if rc not in (0, EX_DATAERR):
        return "%s: undocumented exit status %d; stderr: %s" % (what, rc, tail(err))
    if rc == EX_DATAERR and not err.strip():
        return "%s: exit status %d without a diagnostic on stderr" % (what, rc)
    return None


# An INTEGER/ENUMERATED identifier octet, a length of 9..16 (short or long form) and a negative first content octet:
# a superset (decided on the input bytes alone) of what makes the pretty-printer evaluate ASN_INTEGER_MIN.
INTUB_RE = re.compile(rb"[\x02\x0a](?:[\x09-\x10]|[\x81-\xfe]\x00*[\x09-\x10])[\x80-\xff]", re.S)


def pretty_mode_for(acc, y):
    """'pretty', or '-p' when the input belongs to the recorded class K_INTUB (excluded by construction, counted)."""
    if KNOWN.is_known(PID, K_INTUB) and INTUB_RE.search(y):
        acc.excluded["known:%s (input run with -p instead of pretty-printing)" % K_INTUB] += 1
        return "-p"
    return "pretty"


def safety(x, mode):
    """unber [-p] on arbitrary bytes.  A timeout counts only if it happens three times."""
    what = "unber %s-" % ("-p " if mode == "-p" else "")
    rc, out, err, to = unber(x, mode)
    if to:
        for _ in range(2):
            rc, out, err, to = unber(x, mode)
            if not to:
                break
    return safety_verdict(rc, err, to, what)


# ------------------------------------------------------------------ reference structure
def parse_all(x):
    """All top-level TLVs of x by the strict reference parser."""
    out, off = [], 0
    while off < len(x):
        n = ref_ber.parse_tlv(x, off)
        out.append(n)
        off = n["end"]
    return out


def expected_lines(nodes, level=0, out=None):
    out = [] if out is None else out
    for n in nodes:
        if not n["constructed"]:
            out.append(("P", level, n["off"], n["cls"], n["num"], n["hlen"], n["length"], n["value"]))
        elif n["length"] is None:
            out.append(("I", level, n["off"], n["cls"], n["num"], n["hlen"], None))
            expected_lines(n["children"], level + 1, out)
            out.append(("/I", level, n["end"] - 2, n["end"] - n["off"]))
        else:
            out.append(("C", level, n["off"], n["cls"], n["num"], n["hlen"], n["length"]))
            expected_lines(n["children"], level + 1, out)
            out.append(("/C", level, n["end"], n["cls"], n["num"], n["end"] - n["off"]))
    return out


TAG_RE = r'\[(?:(UNIVERSAL|APPLICATION|PRIVATE) )?(\d+)\]'
OPEN_RE = re.compile(r'^( *)<([PCI]) O="(\d+)" T="%s" TL="(\d+)" V="(Indefinite|\d+)"(?: A="[^"<>]*")?>(.*)$' % TAG_RE,
                     re.S)
CLOSE_C_RE = re.compile(r'^( *)</C O="(\d+)" T="%s"(?: A="[^"<>]*")? L="(\d+)">$' % TAG_RE)
CLOSE_I_RE = re.compile(r'^( *)</I O="(\d+)" T="\[UNIVERSAL 0\]" TL="2" L="(\d+)">$')
CLSID = {None: 2, "UNIVERSAL": 0, "APPLICATION": 1, "PRIVATE": 3}


class FormatError(Exception):
    pass


def _level(sp, line):
    if len(sp) % 4:
        raise FormatError("indentation is not a multiple of 4: %r" % line[:120])
    return len(sp) // 4


def parse_unber_text(text):
    """unber -p output -> the same tuples expected_lines() produces."""
    out = []
    lines = text.decode("latin-1").split("\n")
    if lines and lines[-1] == "":
        lines.pop()
    for line in lines:
        m = OPEN_RE.match(line)
        if m:
            sp, form, off, cn, num, tl, v, rest = m.groups()
            lv = _level(sp, line)
            if form == "P":
                if v == "Indefinite" or not rest.endswith("</P>"):
                    raise FormatError("malformed <P> line: %r" % line[:160])
                body = rest[:-4]
                hx = body.replace("&#x", "").replace(";", "")
                try:
                    val = bytes.fromhex(hx)
                except ValueError:
                    raise FormatError("value is not a sequence of &#xNN;: %r" % line[:160])
                if len(body) != 6 * len(val) or hx != hx.lower():
                    raise FormatError("value is not a sequence of &#xNN;: %r" % line[:160])
                out.append(("P", lv, int(off), CLSID[cn], int(num), int(tl), int(v), val))
            else:
                if rest != "" or (form == "I") != (v == "Indefinite"):
                    raise FormatError("malformed <%s> line: %r" % (form, line[:160]))
                out.append((form, lv, int(off), CLSID[cn], int(num), int(tl), None if form == "I" else int(v)))
            continue
        m = CLOSE_C_RE.match(line)
        if m:
            sp, off, cn, num, ln = m.groups()
            out.append(("/C", _level(sp, line), int(off), CLSID[cn], int(num), int(ln)))
            continue
        m = CLOSE_I_RE.match(line)
        if m:
            sp, off, ln = m.groups()
            out.append(("/I", _level(sp, line), int(off), int(ln)))
            continue
        raise FormatError("unrecognised line: %r" % line[:200])
    return out


def show_line(t):
    if t is None:
        return "(nothing)"
    if t[0] == "P":
        return "<P level=%d O=%d T=[%s %d] TL=%d V=%d value=%s>" % (t[1], t[2], CLSN[t[3]], t[4], t[5], t[6],
                                                                      short_hex(t[7], 40))
    if t[0] in ("C", "I"):
        return "<%s level=%d O=%d T=[%s %d] TL=%d V=%s>" % (t[0], t[1], t[2], CLSN[t[3]], t[4], t[5],
                                                           "Indefinite" if t[6] is None else t[6])
    if t[0] == "/C":
        return "</C level=%d O=%d T=[%s %d] L=%d>" % (t[1], t[2], CLSN[t[3]], t[4], t[5])
    return "</I level=%d O=%d L=%d>" % (t[1], t[2], t[3])


def check_document(x, nodes=None):
    """Oracles A and B on a well-formed document.  -> None or (oracle, text)."""
    if nodes is None:
        nodes = parse_all(x)
    rc, text, err, to = unber(x, "-p")
    if to:
        for _ in range(2):
            rc, text, err, to = unber(x, "-p")
            if not to:
                break
    bad = safety_verdict(rc, err, to, "unber -p -")
    if bad:
        return "safety", bad
    if rc != 0:
        return "roundtrip", "unber -p rejects a well-formed document (exit %d): %s" % (rc, tail(err))
    # oracle B
    try:
        got = parse_unber_text(text)
    except FormatError as e:
        return "fields", "unber -p output does not follow the documented line format: %s" % e
    exp = expected_lines(nodes)
    if got != exp:
        i = 0
        while i < len(got) and i < len(exp) and got[i] == exp[i]:
            i += 1
        return "fields", ("line %d of the unber -p output disagrees with the TLV structure of x:\n  printed : %s\n"
                          "  expected: %s" % (i + 1, show_line(got[i] if i < len(got) else None),
                                              show_line(exp[i] if i < len(exp) else None)))
    # oracle A
    rc2, back, err2, to2 = enber(text)
    bad = safety_verdict(rc2, err2, to2, "enber -")
    if bad:
        return "roundtrip", "enber on the output of unber -p: " + bad
    if rc2 != 0:
        return "roundtrip", "enber rejects the output of unber -p (exit %d): %s" % (rc2, tail(err2))
    if back != x:
        i = 0
        while i < len(back) and i < len(x) and back[i] == x[i]:
            i += 1
        return "roundtrip", ("enber(unber -p x) != x: first difference at offset %d (x has %d octets, result %d): "
                             "x[%d:]=%s result[%d:]=%s" % (i, len(x), len(back), i, short_hex(x[i:], 40), i,
                                                           short_hex(back[i:], 40)))
    return None


# ------------------------------------------------------------------ features
def _depth(n):
    if not n["constructed"]:
        return 0
    return 1 + max([_depth(k) for k in n["children"]] or [0])


def flatten(nodes, out=None, parent=None):
    out = [] if out is None else out
    for n in nodes:
        out.append((n, parent))
        if n["constructed"]:
            flatten(n["children"], out, n)
    return out


def _bucket(d):
    for lo, hi in ((0, 0), (1, 1), (2, 3), (4, 9), (10, 19), (20, 39)):
        if lo <= d <= hi:
            return "%d" % lo if lo == hi else "%d-%d" % (lo, hi)
    return "40+"


def features(x, nodes):
    fl = flatten(nodes)
    depth = max(_depth(n) for n in nodes)
    cl = {"depth." + _bucket(depth), "toplevel.%d" % min(len(nodes), 4)}
    nt = depth >= 2
    for n, parent in fl:
        cl.add("class." + CLSN[n["cls"]].lower())
        if n["length"] is None:
            nt = True
            cl.add("indefinite")
            if parent is not None and parent["length"] is not None:
                cl.add("indefinite-inside-definite")
            if parent is not None and parent["length"] is None:
                cl.add("indefinite-inside-indefinite")
            if not n["children"]:
                cl.add("indefinite.empty")
        else:
            if parent is not None and parent["length"] is None:
                cl.add("definite-inside-indefinite")
            ln = n["length"]
            if ln >= 128:
                cl.add("len.long-form")
            if ln >= 256:
                cl.add("len.2+octets")
            if ln >= 65536:
                cl.add("len.3+octets")
            if n["constructed"] and ln == 0:
                cl.add("constructed.empty")
        num = n["num"]
        if num >= 31:
            nt = True
            cl.add("tag.multi-octet")
            if num >= 1 << 21:
                cl.add("tag.>=2^21")
            if num >= 1 << 28:
                cl.add("tag.>=2^28")
            if num == MAX_TAG:
                cl.add("tag.2^30-1")
        if n["cls"] == 0 and num == 0:
            cl.add("tag.universal-0")
        if not n["constructed"]:
            v = n["value"]
            if any(c in v for c in b"<&>"):
                cl.add("content.xml-special")
            if b"\n" in v or b"\x00" in v:
                cl.add("content.newline-or-nul")
            if b"\xff" in v:
                cl.add("content.0xff")
    return nt, depth, sorted(cl)


# ------------------------------------------------------------------ generator: TLV trees
TAG_BOUNDS = [0, 1, 2, 3, 4, 5, 6, 9, 10, 12, 13, 16, 17, 19, 22, 23, 24, 28, 30, 31, 32, 127, 128, 129, 16383,
              16384, 16385, (1 << 21) - 1, 1 << 21, (1 << 21) + 1, (1 << 28) - 1, 1 << 28, MAX_TAG - 1, MAX_TAG]
TAGNUM_ST = st.one_of(st.integers(0, 30), st.integers(0, 30), st.sampled_from(TAG_BOUNDS), st.integers(31, MAX_TAG))
CLS_ST = st.integers(0, 3)
DEPTH_ST = st.sampled_from([0, 1, 1, 2, 2, 2, 3, 3, 4, 5, 6, 8, 12, 20, 30, 40])
SIB_SPINE_ST = st.sampled_from([0, 0, 0, 0, 1, 1, 2])
SIB_ST = st.sampled_from([0, 1, 1, 2, 2, 3])
PAD_ST = st.sampled_from([0] * 8 + [1, 1, 2, 3])       # extra length octets (only used when probing K_NONMIN)
SPECIAL = list(b"<&>\n\r\x00\xff\"';#x /=")
LONG_SIZES = [127, 128, 129, 255, 256, 257, 1000, 1365, 1366, 4095, 4096, 8191, 8192, 16383, 16384, 65535, 65536,
              70000]


def _repeat(t):
    n, unit = t
    return (unit * (n // len(unit) + 1))[:n]


CONTENT_ST = st.one_of(
    st.binary(max_size=10),
    st.binary(max_size=10),
    st.binary(max_size=24),
    st.lists(st.sampled_from(SPECIAL), max_size=8).map(bytes),
    st.text(max_size=8).map(lambda s: s.encode("utf-8", "surrogatepass")),
    st.lists(st.integers(0, (1 << 40)), min_size=1, max_size=6).map(lambda a: b"".join(ref_ber.base128(v) for v in a)),
    st.tuples(st.sampled_from(LONG_SIZES[:8]), st.binary(min_size=1, max_size=4)).map(_repeat),
    st.tuples(st.sampled_from(LONG_SIZES), st.binary(min_size=1, max_size=3)).map(_repeat),
)


def _gen_node(draw, depth_left, spine, parent_indef, info, nonmin):
    cls = draw(CLS_ST)
    num = draw(TAGNUM_ST)
    pad = draw(PAD_ST)
    if pad and not nonmin:
        info["excl:known:%s (padded length forced minimal)" % K_NONMIN] += 1
        pad = 0
    tag = (CLSN[cls], num)
    if depth_left > 0:
        constructed = True if spine else draw(st.integers(0, 3)) == 0
    else:
        constructed = draw(st.integers(0, 5)) == 0        # an empty constructed leaf
    if not constructed:
        content = draw(CONTENT_ST)
        if parent_indef and cls == 0 and num == 0 and not content:
            content = b"\x00"
            info["eoc-lookalike-given-content"] += 1
        if pad:
            info["nonminimal-length"] += 1
        return ref_ber.enc_tag(tag, False) + ref_ber.enc_len(len(content), pad) + content
    indef = draw(st.booleans())
    kids = []
    if depth_left > 0:
        if spine:
            for _ in range(draw(SIB_SPINE_ST)):
                kids.append(_gen_node(draw, min(depth_left - 1, 1), False, indef, info, nonmin))
            kids.append(_gen_node(draw, depth_left - 1, True, indef, info, nonmin))
            for _ in range(draw(SIB_SPINE_ST)):
                kids.append(_gen_node(draw, min(depth_left - 1, 1), False, indef, info, nonmin))
        else:
            for _ in range(draw(SIB_ST)):
                kids.append(_gen_node(draw, depth_left - 1, False, indef, info, nonmin))
    body = b"".join(kids)
    if indef:
        return ref_ber.enc_tag(tag, True) + b"\x80" + body + b"\x00\x00"
    if pad:
        info["nonminimal-length"] += 1
    return ref_ber.enc_tag(tag, True) + ref_ber.enc_len(len(body), pad) + body


class Doc(tuple):
    """(x, info) with a short repr (Hypothesis renders every example)."""

    def __repr__(self):
        return "Doc(%s)" % (short_hex(self[0], 64) if self[0] is not None else None)


@st.composite
def tree_doc(draw, nonmin=False):
    info = Counter()
    depth = draw(DEPTH_ST)
    ntop = draw(st.sampled_from([1, 1, 1, 2, 2, 3, 4]))
    at = draw(st.integers(0, ntop - 1))
    parts = [_gen_node(draw, depth if i == at else min(depth, 2), i == at, False, info, nonmin) for i in range(ntop)]
    info["src.tree"] = 1
    return Doc((b"".join(parts), info))


# ------------------------------------------------------------------ generator: reference encoder over generated types
class DocChooser(ref_ber.Chooser):
    """Replays a list of decisions; padded long-form lengths are forced minimal unless the class is probed."""

    def __init__(self, decisions, nonmin):
        self.it = iter(decisions)
        self.nonmin = nonmin
        self.forced = 0
        ref_ber.Chooser.__init__(self, self._draw)

    def _draw(self, n):
        return next(self.it, 0) % n

    def pick(self, label, n):
        r = ref_ber.Chooser.pick(self, label, n)
        if self.nonmin:
            return r
        if (label == "indef" and r == 2) or (label == "longlen" and r == 1):
            self.forced += 1
            self.used[label] -= 1
            if not self.used[label]:
                del self.used[label]
            return 0
        return r


TYPED_MAX = 200 * 1024


def _est_size(mod, t, depth=0):
    """Upper estimate of the encoded size of the values gen.values() draws for t (it picks sizes at the bounds of
    a SIZE constraint up to 70000): used to keep multi-megabyte SEQUENCE OF types out of the candidate list."""
    if depth > 6:
        return 64
    if t.kind == "REF":
        return _est_size(mod, mod.lookup(t.ref), depth + 1)
    n = 1
    if t.size is not None:
        ub, lb = t.size.ub(), t.size.lb() or 0
        n = min(ub, 70000) if ub is not None else lb + 17
    elif t.elem is not None or t.kind not in ("SEQUENCE", "SET", "CHOICE"):
        n = 17
    if t.elem is not None:
        return 8 + n * _est_size(mod, t.elem, depth + 1)
    if t.kind in ("SEQUENCE", "SET"):
        return 8 + sum(_est_size(mod, m.type, depth + 1) for m in t.members)
    if t.kind == "CHOICE":
        return 8 + max([_est_size(mod, m.type, depth + 1) for m in t.members] or [0])
    return 16 + 4 * n


def typed_doc(mods, cfg, nonmin=False):
    cands = [(m, n, t) for m in mods for n, t in m.types if _est_size(m, t) <= TYPED_MAX]
    if not cands:
        return None

    @functools.lru_cache(maxsize=None)
    def one(i):
        m, n, t = cands[i]
        return st.tuples(st.just(i), gen.values(m, t, cfg), st.lists(st.integers(0, 11), max_size=24))

    def encode(items):
        info = Counter()
        parts = []
        for i, v, dec in items:
            m, n, t = cands[i]
            ch = DocChooser(dec, nonmin)
            try:
                parts.append(ref_ber.encode(m, t, v, ch))
            except Exception as e:  # the reference cannot encode this value: counted, not a verdict
                info["excl:ref-encoder:%s" % type(e).__name__] += 1
                return Doc((None, info))
            if ch.forced:
                info["excl:known:%s (padded length forced minimal)" % K_NONMIN] += ch.forced
            for u in ch.used:
                info["var." + u] += 1
        info["src.typed"] = 1
        x = b"".join(parts)
        if len(x) > 4 * TYPED_MAX:     # safety net behind the static estimate
            info["excl:typed-document-over-800KiB"] += 1
            return Doc((None, info))
        if not x:
            info["excl:empty-encoding"] += 1
            return Doc((None, info))
        return Doc((x, info))

    return st.lists(st.integers(0, len(cands) - 1).flatmap(one), min_size=1, max_size=3).map(encode)


def doc_strategy(mods, nonmin=False):
    tree = tree_doc(nonmin)
    typed = typed_doc(mods, gen.Cfg(), nonmin) if mods else None
    if typed is None:
        return tree
    return st.integers(0, 3).flatmap(lambda k: typed if k == 0 else tree)


# ------------------------------------------------------------------ mutations
MUT_KINDS = ["truncate", "bitflip", "setbyte", "len+1", "len-1", "len->0x80", "len->0xff/0x84", "tagswap",
             "tag->high-form", "splice", "insert", "nonminimal-TL"]
MUT_ST = st.tuples(st.integers(0, len(MUT_KINDS) - 1), st.integers(0, 1 << 20), st.integers(0, 1 << 20))
INSERTS = [b"\x00\x00", b"\x80", b"\x30\x80", b"\x1f\x80\x80", b"\x24\x80", b"\x06\x03\xff\xff\xff", b"\x84\xff\xff\xff\xff"]


def _taglen(x, off):
    if x[off] & 31 != 31:
        return 1
    i = off + 1
    while x[i] & 0x80:
        i += 1
    return i - off + 1


def mutate(x, flat, spec):
    kind, a, b = spec
    name = MUT_KINDS[kind % len(MUT_KINDS)]
    n = len(x)
    bx = bytearray(x)
    node = flat[a % len(flat)][0]
    off = node["off"]
    tl = _taglen(x, off)
    if name == "truncate":
        return bytes(x[:a % n]), name
    if name == "bitflip":
        bx[(a >> 3) % n] ^= 1 << (a & 7)
    elif name == "setbyte":
        bx[a % n] = b & 0xff
    elif name == "len+1":
        bx[off + tl] = (bx[off + tl] + 1) & 0xff
    elif name == "len-1":
        bx[off + tl] = (bx[off + tl] - 1) & 0xff
    elif name == "len->0x80":
        bx[off + tl] = 0x80
    elif name == "len->0xff/0x84":
        bx[off + tl] = (0xff, 0x84, 0x88, 0x89, 0x81)[b % 5]
    elif name == "tagswap":
        o2 = flat[b % len(flat)][0]["off"]
        bx[off], bx[o2] = bx[o2], bx[off]
        if o2 == off:
            bx[off] ^= 0x20
    elif name == "tag->high-form":
        bx[off] = (bx[off] | 0x1f) if b & 1 else (b >> 1) & 0xff
    elif name == "splice":
        i, j = a % (n + 1), b % (n + 1)
        return bytes(x[:i] + x[j:]), name
    elif name == "insert":
        i = a % (n + 1)
        chunk = INSERTS[b % (len(INSERTS) + 2)] if b % (len(INSERTS) + 2) < len(INSERTS) else \
            bytes([0x9f if b & 64 else 0x04]) + b"\xff" * (b % 40)
        return bytes(x[:i] + chunk + x[i:]), name
    else:   # nonminimal-TL: same structure, padded identifier and/or length octets (may exceed the 32-octet TL buffer)
        tagb = bytes(x[off:off + tl])
        if b & 1:
            if tl == 1:
                tagb = bytes([tagb[0] | 0x1f]) + b"\x80" * ((b >> 1) % 4) + bytes([tagb[0] & 0x1f])
            else:
                tagb = tagb[:1] + b"\x80" * (1 + (b >> 1) % 4) + tagb[1:]
        lenb = bytes(x[off + tl:off + node["hlen"]])
        if node["length"] is not None:
            lenb = ref_ber.enc_len(node["length"], (b >> 4) % 30)
        return bytes(x[:off] + tagb + lenb + x[off + node["hlen"]:]), name
    return bytes(bx), name


# ------------------------------------------------------------------ hypothesis driver
def cap_shrinking(seconds):
    """Hypothesis shrinks for up to 5 minutes; a red run should still end in reasonable time."""
    try:
        import hypothesis.internal.conjecture.engine as eng
        if hasattr(eng, "MAX_SHRINKING_SECONDS"):
            eng.MAX_SHRINKING_SECONDS = seconds
    except Exception:
        pass


def run_given(strategy, body, n, seed_):
    cap_shrinking(120 if os.environ.get("VERIF_TIER") == "thorough" else 25)
    @hseed(seed_)
    @settings(max_examples=n, database=None, deadline=None, suppress_health_check=list(HealthCheck),
              phases=[Phase.generate, Phase.shrink], report_multiple_bugs=False)
    @given(strategy)
    def t(arg):
        try:
            body(arg)
        except Fail as f:
            seen.append(f.summary)
            raise
    seen = []
    try:
        t()
    except Fail as f:
        return f
    except FLAKY as e:
        return Fail("flaky", "unreproduced (flaky) failure; the failure that did not repeat was: %s" % (
            seen[-1][:1500] if seen else str(e)[:300]), {"flaky": True})
    return None


def _record(acc, fail):
    if fail is None:
        return
    if fail.replay.get("flaky"):
        acc.notes.append(fail.summary[:600])
        acc.extra["flaky_failures"] += 1
    else:
        acc.violation(fail.key, fail.summary, fail.replay)


def safety_case(acc, y, mode, origin):
    if mode == "pretty":
        mode = pretty_mode_for(acc, y)
    acc.extra["safety_runs"] += 1
    acc.extra["safety_runs.%s" % ("-p" if mode == "-p" else "pretty")] += 1
    bad = safety(y, mode)
    if bad:
        raise Fail(fail_key("safety", bad, mode, y), "%s input (%d octets) %s: %s" % (origin, len(y), short_hex(y), bad),
                   {"oracle": "safety", "mode": mode, "hex": y.hex(), "origin": origin})


def docs_worker(idx, seed_, n, mods_json, k_mut, nonmin):
    set_stack_limit()
    acc = Acc()
    t0 = time.time()
    mods = [Module.from_json(j) for j in mods_json]
    strat = st.tuples(doc_strategy(mods, nonmin), st.lists(MUT_ST, min_size=k_mut, max_size=k_mut))

    def body(arg):
        (x, info), muts = arg
        for k, v in info.items():
            if k.startswith("excl:"):
                acc.excluded[k[5:]] += v
        if x is None:
            return
        nodes = parse_all(x)      # a generator/reference disagreement is an error of the harness, not a verdict
        nt, depth, classes = features(x, nodes)
        classes += [k for k in info if not k.startswith("excl:")]
        key = h(x)
        acc.case(key if nt else None, classes)
        if nt:
            acc.sample({"x": short_hex(x, 120), "octets": len(x), "depth": depth,
                        "classes": [c for c in classes if not c.startswith("class.")][:10]}, limit=6)
        f = check_document(x, nodes)
        if f:
            oracle, text = f
            cls = ""
            if "Cannot encode TL" in text and (info.get("nonminimal-length") or nonmin):
                cls = " [class %s]" % K_NONMIN
            raise Fail(fail_key(oracle, text, x), "oracle %s%s on x=%s (%d octets): %s" % (oracle, cls, short_hex(x), len(x), text),
                       {"oracle": oracle, "hex": x.hex()})
        # the same document with pretty-printing (OID, strings, INTEGER ... formatting paths)
        if pretty_mode_for(acc, x) == "pretty":
            acc.extra["safety_runs"] += 1
            acc.extra["safety_runs.pretty"] += 1
            rc, out, err, to = unber(x, "pretty")
            bad = safety_verdict(rc, err, to, "unber -") if not to else safety(x, "pretty")
            if bad:
                raise Fail(fail_key("safety", bad, "pretty", x), "well-formed x=%s: %s" % (short_hex(x), bad),
                           {"oracle": "safety", "mode": "pretty", "hex": x.hex(), "origin": "well-formed document"})
            if rc != 0:
                acc.extra["pretty-mode-rejects-wellformed(not a verdict)"] += 1
                acc.notes.append("unber (pretty) exit %d on well-formed %s: %s" % (rc, short_hex(x, 80), tail(err, 200)))
        flat = flatten(nodes)
        for i, spec in enumerate(muts):
            y, name = mutate(x, flat, spec)
            acc.classes["mut." + name] += 1
            safety_case(acc, y, "-p" if (i + spec[1]) & 1 else "pretty", "mutated (%s)" % name)
        if len(x) <= 20 and int(key, 16) % 8 == 0:
            acc.extra["documents_truncated_at_every_offset"] += 1
            for i in range(len(x)):
                safety_case(acc, x[:i], "-p" if i & 1 else "pretty", "truncated")

    _record(acc, run_given(strat, body, n, seed_))
    acc.timing = ("docs[%d]" % idx, round(time.time() - t0, 1))
    return acc


CHUNKS = [b"\x30", b"\x31", b"\x30\x80", b"\xa0", b"\xbf", b"\x1f", b"\x9f", b"\x7f", b"\x04", b"\x24", b"\x06",
          b"\x0d", b"\x02", b"\x0a", b"\x01", b"\x0c", b"\x13", b"\x17", b"\x18", b"\x1e", b"\x1c", b"\x03", b"\x09",
          b"\x80", b"\x81", b"\x82", b"\x84", b"\x88", b"\x89", b"\xff", b"\x00", b"\x01", b"\x7f", b"\x00\x00",
          b"\xff\xff\xff\xff", b"\x81\x00", b"\x2b\x06\x01", b"\x80\x80\x80"]
RANDOM_ST = st.one_of(
    st.binary(max_size=48),
    st.lists(st.one_of(st.sampled_from(CHUNKS), st.sampled_from(CHUNKS), st.binary(min_size=1, max_size=3)),
             max_size=24).map(b"".join),
)


def random_worker(idx, seed_, n):
    set_stack_limit()
    acc = Acc()
    t0 = time.time()

    def body(y):
        acc.extra["random_inputs"] += 1
        try:
            parse_all(y)
            acc.extra["random_inputs_wellformed"] += 1
        except (ref_ber.TLVError, IndexError):
            pass
        safety_case(acc, y, "-p", "random")
        safety_case(acc, y, "pretty", "random")

    _record(acc, run_given(RANDOM_ST, body, n, seed_))
    acc.timing = ("random[%d]" % idx, round(time.time() - t0, 1))
    return acc


def nested_definite(depth, tag=0x30):
    body = b"\x05\x00"
    for _ in range(depth):
        body = bytes([tag]) + ref_ber.enc_len(len(body)) + body
    return body


def corner_inputs():
    """Deterministic inputs no small random document reaches. -> [(name, bytes, nesting depth)]"""
    out = [("empty", b"", 0)]
    for d in (50, 500, DEEP_SAFE, 10000, 100000):
        out.append(("indefinite-nesting-%d-unterminated" % d, b"\x30\x80" * d, d))
    for d in (500, DEEP_SAFE, 20000):
        out.append(("indefinite-nesting-%d-terminated" % d, b"\x30\x80" * d + b"\x00\x00" * d, d))
        out.append(("definite-nesting-%d" % d, nested_definite(d), d))
    out.append(("constructed-string-nesting-%d" % DEEP_SAFE, b"\x24\x80" * DEEP_SAFE, DEEP_SAFE))
    out += [
        ("tag-40-continuation-octets", b"\x1f" + b"\xff" * 40 + b"\x00", 0),
        ("tag-2^30", b"\x1f\x84\x80\x80\x80\x00\x01\x41", 0),
        ("length-0xff", b"\x04\xff", 0),
        ("length-8-octets-max", b"\x04\x88\x7f" + b"\xff" * 7 + b"A" * 64, 0),
        ("length-8-octets-negative", b"\x04\x88" + b"\xff" * 8, 0),
        ("length-9-octets", b"\x04\x89" + b"\x01" * 9, 0),
        ("length-126-octets", b"\x04\xfe" + b"\x00" * 126, 0),
        ("length-30-octets-of-zero", b"\x04\x9e" + b"\x00" * 29 + b"\x01\x41", 0),
        ("length-2^31-eof", b"\x04\x84\x80\x00\x00\x00AAAA", 0),
        ("constructed-length-2^40-eof", b"\x30\x85\x01\x00\x00\x00\x00\x02\x01\x05", 0),
        ("integer-9-octets", b"\x02\x09" + b"\x80" + b"\x00" * 8, 0),
        ("integer-8-octets-min", b"\x02\x08\x80" + b"\x00" * 7, 0),
        ("integer-empty", b"\x02\x00", 0),
        ("boolean-2-octets", b"\x01\x02\x00\xff", 0),
        ("oid-arc-overflow", b"\x06\x14" + b"\xff" * 19 + b"\x7f", 0),
        ("oid-unterminated-arc", b"\x06\x03\x2b\x86\x80", 0),
        ("oid-leading-0x80", b"\x06\x03\x80\x80\x01", 0),
        ("oid-empty", b"\x06\x00", 0),
        ("reloid-many-arcs", b"\x0d\x7f" + b"\x01" * 127, 0),
        ("oid-128K-1", b"\x06\x83\x01\xff\xff" + b"\x01" * 131071, 0),
        ("oid-128K", b"\x06\x83\x02\x00\x00" + b"\x81" * 131072, 0),
        ("octet-string-128K-1-text", b"\x04\x83\x01\xff\xff" + b"a<&>\x1b" * 26214 + b"z", 0),
        ("octet-string-128K", b"\x04\x83\x02\x00\x00" + b"\x00" * 131072, 0),
        ("utf8string-binary", b"\x0c\x06\xff\xfe\x00<&>", 0),
        ("context-primitive-text", b"\x80\x10" + b"Hello, <world>&\n\t\r\x1b!", 0),
        ("eoc-at-top-level", b"\x00\x00\x00\x00", 0),
        ("eoc-with-length", b"\x30\x80\x00\x01\x00\x00\x00", 0),
        ("primitive-indefinite", b"\x04\x80AAAA\x00\x00", 0),
        ("indefinite-in-short-definite", b"\x30\x02\x30\x80", 0),
        ("child-overruns-parent", b"\x30\x03\x04\x05AAAAA", 0),
        ("tl-crosses-parent-end", b"\x30\x03\x02\x01\x05\x1f", 0),
    ]
    return out


def corner_worker(seed_):
    set_stack_limit()
    acc = Acc()
    t0 = time.time()
    deep_known = KNOWN.is_known(PID, K_DEEP)
    for name, y, depth in corner_inputs():
        if depth > DEEP_SAFE and deep_known:
            acc.excluded["known:%s (nesting deeper than %d not fed to unber)" % (K_DEEP, DEEP_SAFE)] += 1
            continue
        for mode in ("-p", "pretty"):
            acc.extra["corner_inputs"] += 1
            acc.classes["corner." + name] += 1
            try:
                safety_case(acc, y, mode, "corner (%s)" % name)
            except Fail as f:
                if depth > DEEP_SAFE:
                    f.summary = "[class %s] nesting depth %d: %s" % (K_DEEP, depth, f.summary)
                    f.replay = {"oracle": "safety", "mode": mode, "origin": "corner (%s)" % name,
                                "repeat": _repeat_form(name, depth)}
                    f.key = h("deep-nesting")
                acc.violation(f.key, f.summary, f.replay)
    # no verdict: enber on damaged text (a line of 16382 characters that ends in T="[>)
    head = b'<P V="1"'
    line = head + b" " * (16382 - len(head) - 6) + b'T="[>\n'
    rc, out, err, to = enber(line)
    bad = safety_verdict(rc, err, to, "enber -")
    if bad:
        acc.extra["enber_garbage_anomalies(no verdict)"] += 1
        acc.notes.append("enber on damaged text (not part of the property; 16382-character line ending in T=\"[>): "
                         + bad[:500])
    acc.timing = ("corner", round(time.time() - t0, 1))
    return acc


def _repeat_form(name, depth):
    if name.startswith("indefinite") and name.endswith("unterminated"):
        return {"prefix": "", "unit": "3080", "times": depth, "suffix": ""}
    if name.startswith("indefinite"):
        return {"prefix": "", "unit": "3080", "times": depth, "suffix_unit": "0000"}
    return {"nested_definite": depth}


def enber_garbage_worker(seed_, n):
    """enber on damaged unber text: no verdict, anomalies are only noted."""
    set_stack_limit()
    acc = Acc()
    t0 = time.time()
    strat = st.tuples(tree_doc(False), st.lists(st.tuples(st.integers(0, 7), st.integers(0, 1 << 20),
                                                         st.integers(0, 255)), min_size=1, max_size=3))
    seen = set()

    def body(arg):
        (x, info), edits = arg
        rc, text, err, to = unber(x, "-p")
        if to or rc != 0 or not text:
            return
        t = bytearray(text)
        for kind, a, b in edits:
            i = a % len(t)
            if kind == 0:
                del t[i:]
            elif kind == 1:
                t[i] = b
            elif kind == 2:
                t[i:i] = bytes([b]) * (1 + a % 5)
            elif kind == 3:
                del t[i:i + 1 + b % 8]
            elif kind == 4:
                t[i:i] = b" " * (8150 + b)        # lines around enber's 8 KiB fgets() buffer
            elif kind == 5:
                t[i:i] = b"9" * (1 + b % 30)       # huge numbers in attributes
            elif kind == 6:
                t[i:i] = b"<P T=\"[" if b & 1 else b"&#x"
            else:
                t[i:i] = b"\n"
            if not t:
                return
        rc2, out, err2, to2 = enber(bytes(t))
        acc.extra["enber_garbage_inputs(no verdict)"] += 1
        bad = safety_verdict(rc2, err2, to2, "enber -")
        if bad and (rc2, err2[-80:]) not in seen and len(seen) < 5:
            seen.add((rc2, err2[-80:]))
            acc.extra["enber_garbage_anomalies(no verdict)"] += 1
            acc.notes.append("enber on damaged text (not part of the property): %s" % bad[:700])

    f = run_given(strat, body, n, seed_)
    if f is not None:
        acc.notes.append("enber garbage run stopped: " + f.summary[:300])
    acc.timing = ("enber-garbage", round(time.time() - t0, 1))
    return acc


def worker(kind, *args):
    return {"docs": docs_worker, "random": random_worker, "corner": corner_worker,
            "enber": enber_garbage_worker}[kind](*args)


# ------------------------------------------------------------------ libFuzzer campaign
def fuzz_binary():
    """clang -fsanitize=fuzzer,address,undefined over c/fuzz_unber.c + the tool's library source from REPO.
    While K_INTUB is a recorded finding, asn1p_itoa_s() alone is built without the shift check."""
    src = os.path.join(build.CDIR, "fuzz_unber.c")
    hsh = build._sha(build.tools_inputs() + [src])
    bdir = os.path.join(build.BUILD_ROOT, "c20-" + hsh)
    intub_known = KNOWN.is_known(PID, K_INTUB)
    exe = os.path.join(bdir, "fuzz_unber.known-intub" if intub_known else "fuzz_unber")
    if os.path.exists(exe):
        return exe
    with build.Lock("c20"):
        if os.path.exists(exe):
            return exe
        os.makedirs(bdir, exist_ok=True)
        cfg = build._config_h_dir(bdir)
        R = build.REPO
        flags = ["-g", "-O1", "-fsanitize=fuzzer,address,undefined", "-fno-sanitize-recover=undefined",
                 "-fno-sanitize=pointer-overflow", "-fno-omit-frame-pointer", "-w", "-DHAVE_CONFIG_H", "-I" + cfg,
                 "-I" + os.path.join(R, "skeletons"), "-I" + os.path.join(R, "libasn1common"),
                 "-I" + os.path.join(R, "libasn1parser"), "-I" + os.path.join(R, "libasn1fix"),
                 "-I" + os.path.join(R, "asn1-tools", "unber")]
        if intub_known:
            ign = os.path.join(bdir, "ignorelist.txt")
            with open(ign, "w") as f:
                f.write("[shift-base|shift-exponent|shift]\nfun:asn1p_itoa_s\n")
            flags.append("-fsanitize-ignorelist=" + ign)
        srcs = [src, os.path.join(R, "asn1-tools/unber/libasn1_unber_tool.c")]
        srcs += [os.path.join(R, "libasn1common", f) for f in
                 ("asn1_ref.c", "asn1_buffer.c", "asn1_namespace.c", "genhash.c")]
        tmp = exe + ".tmp%d" % os.getpid()
        build._run([build.CLANG] + flags + srcs + [build.skel_lib("asan"), "-lm", "-o", tmp], what="build fuzz_unber")
        os.rename(tmp, exe)
        build._prune(bdir)
    return exe


def fuzz_seed_corpus(seed_, count=24):
    docs = []

    @hseed(seed_)
    @settings(max_examples=count, database=None, deadline=None, suppress_health_check=list(HealthCheck),
              phases=[Phase.generate])
    @given(tree_doc(False))
    def collect(d):
        if len(d[0]) <= 2000:
            docs.append(d[0])
    collect()
    docs += [bytes.fromhex("30800201053005040361623c0000a0030101ff0500"),
             bytes.fromhex("06062b0601040101"), bytes.fromhex("0c0548656c6c6f"), bytes.fromhex("0d03010203"),
             bytes.fromhex("020500ffffffff"), bytes.fromhex("1f83ffffff7f0141"), b"\x30\x80" * 40]
    return docs


def fuzz_start(chk, seconds):
    exe = fuzz_binary()
    work = os.path.join(os.path.dirname(exe), "run-%d-%d" % (chk.seed, os.getpid()))
    shutil.rmtree(work, ignore_errors=True)
    corpus, art = os.path.join(work, "corpus"), os.path.join(work, "artifacts")
    os.makedirs(corpus)
    os.makedirs(art)
    n = 0
    for i, d in enumerate(fuzz_seed_corpus(chk.seed)):
        for opt in (0x21, 0x20, 0x22 if i % 3 == 0 else 0x25):    # -p / pretty / -m or -1 -p; indent 4
            with open(os.path.join(corpus, "seed-%03d-%02x" % (i, opt)), "wb") as f:
                f.write(bytes([opt]) + d)
            n += 1
    log = os.path.join(work, "fuzz.log")
    cmd = [exe, corpus, "-max_len=4096", "-seed=%d" % ((chk.seed * 2654435761 + 20) % 0xffffffff or 1),
           "-max_total_time=%d" % seconds, "-timeout=%d" % TIMEOUT, "-artifact_prefix=" + art + "/",
           "-print_final_stats=1", "-rss_limit_mb=2048"]
    p = subprocess.Popen(cmd, stdout=subprocess.DEVNULL, stderr=open(log, "wb"), env=env())
    return {"proc": p, "work": work, "art": art, "log": log, "exe": exe, "seconds": seconds, "seeds": n,
            "corpus": corpus, "t0": time.time()}


def run_fuzz_binary(data, times=1):
    """Replay one input through the fuzz target. -> (failing_count, text)"""
    exe = fuzz_binary()
    path = os.path.join(os.path.dirname(exe), "replay-%d.bin" % os.getpid())
    with open(path, "wb") as f:
        f.write(data)
    fails, text = 0, ""
    try:
        for _ in range(times):
            rc, out, err, to = run([exe, path, "-timeout=%d" % TIMEOUT, "-rss_limit_mb=2048"], b"", timeout=4 * TIMEOUT)
            if to or rc != 0:
                fails += 1
                text = "fuzz_unber on %s: %s" % (short_hex(data), "no result in %d s" % (4 * TIMEOUT) if to else
                                                 "exit %d: %s" % (rc, tail(err, 1500)))
            else:
                text = "fuzz_unber accepts the input"
    finally:
        try:
            os.unlink(path)
        except OSError:
            pass
    return fails, text


def fuzz_finish(chk, fz):
    p = fz["proc"]
    try:
        p.wait(timeout=fz["seconds"] + 180)
    except subprocess.TimeoutExpired:
        p.kill()
        p.wait()
        chk.acc.notes.append("libFuzzer did not stop %d s after its budget; killed" % 180)
    with open(fz["log"], "rb") as f:
        log = f.read()
    m = re.search(rb"stat::number_of_executed_units:\s*(\d+)", log)
    execs = int(m.group(1)) if m else 0
    if not m:
        ms = re.findall(rb"#(\d+)\s", log)
        execs = int(ms[-1]) if ms else 0
    cov = re.findall(rb"cov: (\d+)", log)
    kept = len(os.listdir(fz["corpus"]))
    chk.extra_coverage["fuzz"] = {"target": "c/fuzz_unber.c over unber_stream()" + (
        " (asn1p_itoa_s built without the shift check: known class %s)" % K_INTUB
        if KNOWN.is_known(PID, K_INTUB) else ""), "seconds": fz["seconds"],
                                  "executions": execs, "seed_inputs": fz["seeds"], "corpus_after": kept,
                                  "edges_covered": int(cov[-1]) if cov else None,
                                  "wall_s": round(time.time() - fz["t0"], 1), "exit": p.returncode}
    chk.acc.extra["fuzz_executions"] += execs
    if execs == 0:
        chk.error("libFuzzer campaign executed nothing: " + tail(log, 1500))
    found = os.path.join(REPLAY_DIR, PID, "found")
    for path in sorted(glob.glob(os.path.join(fz["art"], "*"))):
        name = os.path.basename(path)
        with open(path, "rb") as f:
            data = f.read()
        kind = name.split("-")[0]
        if kind in ("crash", "leak"):
            m = SAN_RE.search(log)
            at = max(0, m.start() - 200) if m else max(0, len(log) - 1500)
            sm = re.search(rb"SUMMARY: [^\n]*", log)
            fails, text = 1, "libFuzzer %s artefact; report: %s\n%s" % (
                kind, log[at:at + 1500].decode("latin-1"), sm.group(0).decode("latin-1") if sm else "")
        elif kind == "timeout":
            fails, text = run_fuzz_binary(data, 3)
            if fails < 3:
                chk.acc.notes.append("libFuzzer timeout artefact %s did not reproduce standalone (%d/3)" % (name, fails))
                chk.acc.extra["fuzz_timeouts_unreproduced"] += 1
                continue
        else:
            chk.acc.notes.append("libFuzzer artefact %s ignored (only crash-/leak-/reproducible timeout- count)" % name)
            continue
        key = fail_key("fuzz", text, data)
        if any(v["key"] == key for v in chk.acc.violations):
            chk.acc.notes.append("libFuzzer artefact %s has the root cause of a violation already reported (%s)" % (
                name, signature(text)))
            continue
        os.makedirs(found, exist_ok=True)
        dest = os.path.join(found, "fuzz-" + name)
        shutil.copyfile(path, dest)
        chk.acc.violation(key, "fuzz_unber (first octet = options, rest = BER stream) input %s: %s" % (
            short_hex(data), text), {"oracle": "fuzz", "hex": data.hex(), "artifact": dest})
    shutil.rmtree(fz["work"], ignore_errors=True)


# ------------------------------------------------------------------ replay
def case_bytes(case):
    if "hex" in case:
        return bytes.fromhex(case["hex"])
    r = case["repeat"]
    if "nested_definite" in r:
        return nested_definite(r["nested_definite"])
    return (bytes.fromhex(r.get("prefix", "")) + bytes.fromhex(r["unit"]) * r["times"]
            + bytes.fromhex(r.get("suffix", "")) + bytes.fromhex(r.get("suffix_unit", "")) * r["times"])


def replay_case(case):
    set_stack_limit()
    x = case_bytes(case)
    oracle = case.get("oracle", "roundtrip")
    if oracle == "fuzz":
        fails, text = run_fuzz_binary(x)
        return fails > 0, text
    if oracle == "safety":
        bad = safety(x, case.get("mode", "-p"))
        return bad is not None, bad or "unber %s terminates cleanly on this input (%d octets)" % (
            case.get("mode", "-p"), len(x))
    try:
        nodes = parse_all(x)
    except ref_ber.TLVError as e:
        raise ValueError("replay input is not well-formed BER (%s): oracle %s does not apply" % (e, oracle))
    f = check_document(x, nodes)
    if f:
        return True, "oracle %s on x=%s: %s" % (f[0], short_hex(x), f[1])
    return False, "enber(unber -p x) == x and all printed fields agree (x=%s)" % short_hex(x)


# ------------------------------------------------------------------ main
def parse_args(argv):
    ap = argparse.ArgumentParser()
    ap.add_argument("--tier", default=os.environ.get("VERIF_TIER", "quick"), choices=["quick", "thorough"])
    ap.add_argument("--replay", default=None)
    ap.add_argument("--docs", type=int, default=None, help="number of documents (overrides the tier)")
    ap.add_argument("--fuzz-seconds", type=int, default=None)
    ap.add_argument("--workers", type=int, default=None)
    a = ap.parse_args(argv)
    os.environ["VERIF_TIER"] = a.tier
    return a


def main(argv):
    a = parse_args(argv)
    set_stack_limit()
    if a.replay:
        tool("unber"), tool("enber")
        return runner.do_replay(PID, replay_case, a.replay)
    chk = Check(PID, "exploration", RULE, ASSUMPTIONS)
    t1 = time.time()
    tool("unber"), tool("enber")
    fuzz_binary()
    chk.extra_coverage["build_s"] = round(time.time() - t1, 1)
    chk.extra_coverage["repo"] = build.REPO

    ndocs = a.docs or chk.pick(4400, 208000)
    fuzz_s = a.fuzz_seconds if a.fuzz_seconds is not None else chk.pick(20, 600)
    fz = fuzz_start(chk, fuzz_s) if fuzz_s > 0 else None

    t1 = time.time()
    runner.regression_and_probes(chk, replay_case)
    chk.extra_coverage["replays_and_probes_s"] = round(time.time() - t1, 1)

    t1 = time.time()
    mods = pipeline.draw_modules(chk.seed, chk.pick(10, 40), gen.Cfg(max_types=10, min_types=5))
    mods_json = [m.to_json() for m in mods]
    skipped = sum(1 for m in mods for n, t in m.types if _est_size(m, t) > TYPED_MAX)
    if skipped:
        chk.acc.excluded["generated types whose values may exceed 200 KiB (not used as typed-document sources)"] = skipped
    chk.extra_coverage["draw_modules_s"] = round(time.time() - t1, 1)

    W = a.workers or NCPU
    nchunks = max(1, min(3 * W, ndocs // 50))
    per = -(-ndocs // nchunks)
    k_mut = chk.pick(3, 2)
    nonmin_known = KNOWN.is_known(PID, K_NONMIN)
    args = [("corner", chk.seed)]
    nrand = chk.pick(1500, 20000)
    rchunks = max(1, min(W, nrand // 200))
    args += [("random", i, chk.seed * 104729 + i, -(-nrand // rchunks)) for i in range(rchunks)]
    args += [("enber", chk.seed * 31 + 5 + i, chk.pick(60, 600)) for i in range(4)]
    # padded long-form lengths are part of every document unless the class is a recorded (unrepaired) finding
    args += [("docs", i, chk.seed * 7919 + i, per, mods_json, k_mut, not nonmin_known) for i in range(nchunks)]
    t1 = time.time()
    best = {}
    for kind, r in run_pool(worker, args, W):
        if kind == "ok":
            for v in r.violations:      # one report per root cause: keep the smallest input
                size = len(v["replay"].get("hex", "")) or (1 << 30)
                if v["key"] not in best or size < best[v["key"]][0]:
                    best[v["key"]] = (size, v)
            r.violations = []
            chk.acc.merge(r)
        else:
            chk.error("worker failed: " + r[-3000:])
    per_oracle = Counter()
    for size, v in sorted(best.values(), key=lambda b: (b[0], b[1]["key"])):
        o = v["replay"].get("oracle")
        per_oracle[o] += 1
        if per_oracle[o] <= 4:          # distinct inputs with one unrecognised root cause: the smallest few are enough
            chk.acc.violations.append(v)
        else:
            chk.acc.extra["further_violations_not_listed.%s" % o] += 1
    chk.extra_coverage["pool_s"] = round(time.time() - t1, 1)
    chk.extra_coverage["documents_requested"] = ndocs
    if nonmin_known:
        chk.acc.notes.append("class %s is a recorded finding: padded long-form lengths are never generated "
                             "(drawn decisions are forced minimal and counted); its probe is replayed instead" % K_NONMIN)
    if fz:
        fuzz_finish(chk, fz)
    t1 = time.time()
    runner.confirm(chk, replay_case)
    chk.extra_coverage["confirm_s"] = round(time.time() - t1, 1)
    return chk.finish(min_evaluations=int(ndocs * 0.9), min_nontrivial=min(1000, ndocs // 4))


if __name__ == "__main__":
    sys.exit(main(sys.argv[1:]))
