"""C12 — compiler output is deterministic and invariant under the pretty-print round trip.

Metamorphic relations over generated modules (single- and multi-file) and the shipped corpus:
  R1  two runs of asn1c on the same input, with the environment perturbed (address-space randomisation is on,
      MALLOC_PERTURB_, different working directories and environment sizes), give byte-identical files;
  R2  the per-type .c/.h files do not depend on the order of the module files on the command line;
  R3  E(x) = `asn1c -E x` is accepted and E(E(x)) == E(x);
  R4  for generated modules without parameterized types, compile(E(x)) == compile(x) (same generated files).
"""
import hashlib
import os
import re
import shutil
import subprocess
import sys
import time

from hypothesis import strategies as st

from . import build, drv, gen, pipeline, runner, c10
from .common import Check, Acc, KNOWN, NCPU, h, run_pool

PID = "C12"
RULE = ("cases = generated modules (vf/gen.py with all features; fragments for value assignments, named numbers, COMPONENTS "
        "OF, classes/object sets, rarely used types; 1..3 module files connected by IMPORTS) and the shipped corpus "
        "(tests/tests-asn1c-compiler/*-OK.asn1, examples/*.asn1, legacy-syntax files left out); each case is compiled twice "
        "under different MALLOC_PERTURB_/working directory/environment size, with every permutation (up to 6) of the file "
        "list, printed with -E once and twice, and the printed text is compiled again; non-trivial = >= 2 files, or >= 10 "
        "assignments, or constraints/defaults/classes present; distinct by hash(files)")
ASSUME = ["address-space randomisation is whatever the kernel provides (randomize_va_space is read and reported)",
          "the same-code clause (R4) is evaluated only for modules asn1c accepts and which have no parameterized types",
          "copied skeleton files and the generated makefiles (which embed the invocation) are not compared"]
OPTIONSETS = [(), ("-fcompound-names",), ("-fwide-types", "-fcompound-names"), ("-no-gen-OER", "-findirect-choice")]
LEGACY = ("87-old-syntax-OK.asn1", "rfc3280-PKIX1Explicit88.asn1", "rfc3280-PKIX1Implicit88.asn1")


# ------------------------------------------------------------------ case generation
def _rename(text, prefix):
    return re.sub(r"(?<![\w-])T(\d+)(?![\w-])", lambda m: "%s%s" % (prefix, m.group(1)), text)


@st.composite
def case_strategy(draw):
    nfiles = draw(st.sampled_from([1, 1, 2, 3]))
    files = []
    classes = ["files.%d" % nfiles]
    param = False
    exported = []
    for fi in range(nfiles):
        cfg = gen.Cfg(max_types=draw(st.sampled_from([5, 10, 14])), min_types=3, wide_ints=False,
                      max_depth=draw(st.sampled_from([2, 3])))
        mod = draw(gen.module(cfg))
        mod.name = "M%d" % fi
        frags = []
        for i in range(draw(st.sampled_from([0, 0, 1, 2]))):
            f = draw(st.sampled_from([c10.f_values, c10.f_named, c10.f_neg_default, c10.f_components_of, c10.f_class,
                                      c10.f_strings, c10.f_param_type, c10.f_param_value, c10.f_keywords, c10.f_alphabet_edge,
                                      c10.f_alphabet_edge]))
            t, c = f(draw, fi * 10 + i)
            if c.startswith("param"):
                param = True
            frags.append(t)
            classes.append("frag." + c.split(".")[0])
        mod.extra_text = "\n".join(frags)
        text = _rename(mod.render(), "Q%dx" % fi)
        names = re.findall(r"(?m)^(Q%dx\d+) ::=" % fi, text)
        head = ""
        bymod = {}
        # a SEQUENCE with explicitly tagged components for COMPONENTS OF across modules (the tagging defaults differ);
        # from the second module on it includes the previous module's one, and a second type includes that in turn
        if nfiles > 1:
            head += "CoBase%d ::= SEQUENCE { a%d [%d] INTEGER, b%d [%d] BOOLEAN OPTIONAL%s }\n" % (
                fi, fi, 2 * fi, fi, 2 * fi + 1, ", COMPONENTS OF CoBase%d" % (fi - 1) if fi else "")
            if fi:
                bymod.setdefault("M%d" % (fi - 1), []).append("CoBase%d" % (fi - 1))
                head += "CoUse%d ::= SEQUENCE { COMPONENTS OF CoBase%d, zz%d NULL }\n" % (fi, fi - 1, fi)
                classes.append("components-of.cross-module")
        if fi > 0 and exported:
            # import one or two types of earlier modules and use them
            k = draw(st.integers(1, min(2, len(exported))))
            imp = exported[:k]
            for m_, n_ in imp:
                bymod.setdefault(m_, []).append(n_)
            head += "Use%d ::= SEQUENCE { %s }\n" % (fi, ", ".join("m%d %s OPTIONAL" % (j, n_) for j, (m_, n_) in enumerate(imp)))
            classes.append("imports")
        if bymod:
            head = "IMPORTS " + " ".join("%s FROM %s" % (", ".join(ns), m_) for m_, ns in sorted(bymod.items())) + ";\n" + head
        if head:
            text = text.replace("::= BEGIN\n", "::= BEGIN\n" + head, 1)
        for n_ in names[:2]:
            exported.insert(0, (mod.name, n_))
        files.append(["m%d.asn1" % fi, text])
    opts = list(draw(st.sampled_from(OPTIONSETS)))
    return {"files": files, "flags": opts, "classes": classes, "param": param, "origin": "generated"}


def fixed_cases():
    """a few hand-written modules that sit on table-size edges of the code generator (always run)"""
    out = []
    def q(c):
        return "{0, 0, %d, %d}" % (c >> 8, c & 255)
    k = 0
    for kind in ("BMPString", "UniversalString", "IA5String"):
        for top in (126, 127, 128, 254, 255, 256, 257):
            if kind == "IA5String" and top > 127:
                continue
            text = ("F%d DEFINITIONS AUTOMATIC TAGS ::= BEGIN\n"
                    "Name ::= %s (FROM (%s..%s | %s..%s))\n"
                    "Name2 ::= %s (FROM (\"A\"..\"Z\" | \"a\"..\"z\" | %s)) (SIZE(1..8))\n"
                    "Rec ::= SEQUENCE { a Name, b Name2 OPTIONAL }\nEND\n"
                    % (k, kind, q(32), q(min(top - 40, 100)), q(top - 30), q(top), kind, q(top)))
            out.append({"files": [["f%d.asn1" % k, text]], "flags": [], "classes": ["fixed", "fixed.alphabet-top-%d" % top],
                        "param": False, "origin": "generated"})
            k += 1
    return out


def corpus_cases():
    out = []
    root = os.path.join(build.REPO, "tests", "tests-asn1c-compiler")
    paths = sorted(p for p in os.listdir(root) if p.endswith("-OK.asn1"))
    paths = [os.path.join(root, p) for p in paths]
    ex = os.path.join(build.REPO, "examples")
    paths += sorted(os.path.join(ex, p) for p in os.listdir(ex) if p.endswith(".asn1"))
    for p in paths:
        b = os.path.basename(p)
        if b in LEGACY:
            continue
        with open(p, errors="replace") as f:
            text = f.read()
        big = len(text) > 200000      # rrc-7.1.0.asn1: one compilation takes about a minute
        if big and os.environ.get("VERIF_TIER", "quick") != "thorough":
            out.append({"files": [[b, text]], "flags": [], "classes": ["corpus", "corpus.print-only"], "param": True,
                        "origin": "corpus:" + b, "print_only": True})
            continue
        out.append({"files": [[b, text]], "flags": ["-fcompound-names"] if big else [], "classes": ["corpus"], "param": True,
                    "origin": "corpus:" + b})
    return out


# ------------------------------------------------------------------ running asn1c
def _asn1c(args, cwd, env_extra=None, timeout=120):
    env = dict(os.environ)
    env.update(env_extra or {})
    try:
        r = subprocess.run([build.asn1c_binary("plain")] + args, cwd=cwd, env=env, stdout=subprocess.PIPE,
                           stderr=subprocess.PIPE, timeout=timeout)
    except subprocess.TimeoutExpired:
        return -999, b"", b"TIMEOUT"
    return r.returncode, r.stdout, r.stderr


def _write(d, files):
    os.makedirs(d, exist_ok=True)
    for name, text in files:
        with open(os.path.join(d, name), "w") as f:
            f.write(text)


def _compile(work, sub, files, order, flags, env_extra=None):
    """asn1c in directory work/sub with the sources in the same directory; returns (rc, {file: sha}, stderr)."""
    d = os.path.join(work, sub)
    _write(d, files)
    rc, out, err = _asn1c(["-S", os.path.join(build.REPO, "skeletons"), "-pdu=all"] + list(flags) + [files[i][0] for i in order],
                          d, env_extra)
    got = {}
    if rc == 0:
        skel = set(os.listdir(os.path.join(build.REPO, "skeletons")))
        srcnames = set(n for n, _ in files)
        for n in sorted(os.listdir(d)):
            if n in skel or n in srcnames or n.startswith("Makefile") or n.endswith(".mk"):
                continue
            with open(os.path.join(d, n), "rb") as f:
                got[n] = f.read()
    return rc, got, (out + err).decode(errors="replace")


def _diff(a, b, ignore_cmdline=False):
    """first difference between two {name: bytes} maps, or None"""
    if set(a) != set(b):
        return "file sets differ: only in first %s, only in second %s" % (sorted(set(a) - set(b))[:5], sorted(set(b) - set(a))[:5])
    for n in sorted(a):
        x, y = a[n], b[n]
        if ignore_cmdline:
            x, y = _strip_cmd(x), _strip_cmd(y)
        if x != y:
            xl, yl = x.split(b"\n"), y.split(b"\n")
            for i, (p, q) in enumerate(zip(xl, yl)):
                if p != q:
                    return "%s line %d:\n  < %s\n  > %s" % (n, i + 1, p[:200].decode(errors="replace"), q[:200].decode(errors="replace"))
            return "%s: lengths differ (%d vs %d lines)" % (n, len(xl), len(yl))
    return None


def _strip_cmd(b):
    # the header comment records the command line (` * 	`asn1c ...``) and the file the module was found in
    return re.sub(rb"(?m)^ \* \t`asn1c [^\n]*\n", b"", b)


def _perms(n):
    if n == 1:
        return [[0]]
    if n == 2:
        return [[0, 1], [1, 0]]
    return [[0, 1, 2], [0, 2, 1], [1, 0, 2], [1, 2, 0], [2, 0, 1], [2, 1, 0]]


def evaluate(case):
    """Returns (signature or None, detail, info)."""
    files, flags = case["files"], case["flags"]
    info = {}
    work = drv.mkwork("c12")
    try:
        n = len(files)
        base_order = list(range(n))
        if case.get("print_only"):
            rc1, g1 = 1, {}
        # R1: same input, perturbed environment
        rc1, g1, e1 = (1, {}, "") if case.get("print_only") else _compile(work, "a", files, base_order, flags, {"MALLOC_PERTURB_": "85"})
        rc2, g2, e2 = (1, {}, "") if case.get("print_only") else _compile(
            work, "bbbbbbbbbbbbbbbbbbbbbbbbbbbbbbbb/cc", files, base_order, flags,
            {"MALLOC_PERTURB_": "170", "C12_PADDING": "x" * 4097})
        if rc1 < 0 or rc2 < 0:
            info["outcome"] = "died"
            return None, "asn1c died (C10's business)", info
        if rc1 != rc2:
            return "R1:exit-status", "two runs on the same input exit differently: %d vs %d\n%s\n---\n%s" % (rc1, rc2, e1[-600:], e2[-600:]), info
        info["outcome"] = "accepted" if rc1 == 0 else "rejected"
        if rc1 == 0:
            d = _diff(g1, g2)
            if d:
                return "R1:" + c10._norm(d.split("\n")[0]), "two runs on the same input differ: " + d, info
            info["files"] = len(g1)
            # R2: every order of the file list
            for order in _perms(n)[1:]:
                rc3, g3, e3 = _compile(work, "p" + "".join(map(str, order)), files, order, flags)
                if rc3 != 0:
                    return "R2:exit-status", "file order %s is rejected (rc %d) while %s is accepted:\n%s" % (order, rc3, base_order, e3[-800:]), info
                # the statement is about the per-type files; pdu_collection.c lists the PDUs in command-line order
                d = _diff(_pertype(g1), _pertype(g3), ignore_cmdline=True)
                if d:
                    return "R2:" + c10._norm(d.split("\n")[0]), "file order %s changes the generated code: %s" % (order, d), info
                info["orders"] = info.get("orders", 1) + 1
        # R3: print / parse fixpoint
        d0 = os.path.join(work, "e")
        _write(d0, files)
        rcE, E1, errE = _asn1c(["-E"] + [f[0] for f in files], d0)
        if rcE != 0:
            if rc1 == 0:
                return "R3:print-rejected", "asn1c -E fails (rc %d) on an input the compiler accepts:\n%s" % (rcE, errE.decode(errors="replace")[-600:]), info
            info["outcome"] = "unparsable"
            return None, "not parsable", info
        with open(os.path.join(d0, "E1.asn1"), "wb") as f:
            f.write(E1)
        rcE2, E2, errE2 = _asn1c(["-E", "E1.asn1"], d0)
        if rcE2 != 0:
            return "R3:reparse:" + c10._norm(errE2.decode(errors="replace").strip().split("\n")[0]), \
                "the text printed by asn1c -E is not accepted (rc %d):\n%s\n--- printed text (head)\n%s" % (
                    rcE2, errE2.decode(errors="replace")[-600:], E1.decode(errors="replace")[:1500]), info
        if E1 != E2:
            a, b = E1.split(b"\n"), E2.split(b"\n")
            i = next((i for i, (p, q) in enumerate(zip(a, b)) if p != q), min(len(a), len(b)))
            return "R3:not-a-fixpoint", "E(E(x)) != E(x) at line %d:\n  < %s\n  > %s" % (
                i + 1, a[i][:200].decode(errors="replace") if i < len(a) else "", b[i][:200].decode(errors="replace") if i < len(b) else ""), info
        info["fixpoint"] = 1
        # R4: same generated code from the printed text
        if rc1 == 0 and not case.get("param") and case["origin"] == "generated":
            # keep the file name of the (single) printed file equal to the first source so that the header comment agrees
            rc4, g4, e4 = _compile(work, "r", [[files[0][0], E1.decode(errors="replace")]], [0], flags)
            if rc4 != 0:
                return "R4:printed-text-rejected:" + c10._norm(e4.strip().split("\n")[0]), \
                    "the module printed by -E does not compile (rc %d) although the original does:\n%s" % (rc4, e4[-800:]), info
            d = _diff(_nofound(g1), _nofound(g4), ignore_cmdline=True)
            if d:
                return "R4:" + c10._norm(d.split("\n")[0]), "compile(E(x)) != compile(x): " + d, info
            info["samecode"] = 1
        return None, "ok", info
    finally:
        shutil.rmtree(work, ignore_errors=True)


def _pertype(g):
    return {n: b for n, b in g.items() if n != "pdu_collection.c"}


def _nofound(g):
    # ` * 	found in "m1.asn1"` names the source file, which differs for modules that came from other files
    return {n: re.sub(rb"/\* From module (\S+) in [^*\n]* \*/", rb"/* From module \1 */",
                      re.sub(rb'(?m)^ \* \tfound in "[^"\n]*"\n', b"", b)) for n, b in g.items()}


# ------------------------------------------------------------------ known classes
KNOWN_CLASSES = {}
KNOWN_TRIGGERS = {}


def known_class(sig, case):
    for cls, pred in KNOWN_CLASSES.items():
        if KNOWN.is_known(PID, cls) and pred(sig, case):
            return cls
    return None


def features(case):
    text = "\n".join(t for _, t in case["files"])
    cls = list(case["classes"])
    nassign = len(re.findall(r"(?m)^\s*[A-Za-z][\w-]*(?:\s*\{[^}]*\})?\s+(?:[\w.-]+\s+)?::=", text))
    for k in ("SIZE", "FROM", "DEFAULT", "CLASS", "..", "WITH COMPONENTS", "COMPONENTS OF", "IMPORTS", "[APPLICATION"):
        if k in text:
            cls.append("has." + k.replace(" ", "-"))
    for o in case["flags"] or ["none"]:
        cls.append("opt." + o)
    nt = len(case["files"]) >= 2 or nassign >= 10 or any(k in text for k in ("SIZE", "DEFAULT", "CLASS", "(", "FROM"))
    return nt, cls


def minimise(case, sig, budget=30):
    """drop assignments (per file) while the signature stays"""
    best = case
    used = 0
    for fi in range(len(case["files"])):
        parts = c10._blocks(best["files"][fi][1])
        i = 1
        while i < len(parts) and used < budget:
            cand = parts[:i] + parts[i + 1:]
            t2 = "".join(cand)
            if "END" not in t2:
                i += 1
                continue
            c2 = dict(best)
            c2["files"] = [list(f) for f in best["files"]]
            c2["files"][fi][1] = t2
            used += 1
            if evaluate(c2)[0] == sig:
                best, parts = c2, cand
            else:
                i += 1
    return best


def worker(cases, min_budget):
    acc = Acc()
    t0 = time.time()
    for case in cases:
        skip = None
        for cls, pred in KNOWN_TRIGGERS.items():
            if KNOWN.is_known(PID, cls) and pred(case):
                skip = cls
        if skip:
            acc.excluded["known:" + skip] += 1
            continue
        nt, cls = features(case)
        sig, detail, info = evaluate(case)
        cls.append("outcome." + info.get("outcome", "?"))
        if info.get("fixpoint"):
            cls.append("R3.fixpoint-checked")
        if info.get("samecode"):
            cls.append("R4.same-code-checked")
        if info.get("orders", 0) > 1:
            cls.append("R2.orders-%d" % info["orders"])
        acc.case(h(case["files"], case["flags"]) if nt else None, cls)
        acc.extra["generated_files_compared"] += info.get("files", 0)
        if nt and sig is None and info.get("outcome") == "accepted":
            acc.sample({"origin": case["origin"], "options": case["flags"], "files": [n for n, _ in case["files"]],
                        "classes": case["classes"][:8], "head": case["files"][-1][1][:240]}, limit=4)
        if sig is None:
            continue
        kc = known_class(sig, case)
        if kc:
            acc.excluded["known:%s (met)" % kc] += 1
            continue
        if min_budget and case["origin"] == "generated":
            try:
                c2 = minimise(case, sig, min_budget)
                s2, d2, _ = evaluate(c2)
                if s2 == sig:
                    case, detail = c2, d2
            except Exception as e:   # minimisation is a convenience
                acc.notes.append("minimise failed: %r" % (e,))
        acc.violation(h(sig), "%s\norigin %s options %s\n%s\n%s" % (
            sig, case["origin"], " ".join(case["flags"]) or "(none)", detail[:2500],
            "\n".join("--- %s\n%s" % (n, t[:1500]) for n, t in case["files"])[:4000]),
            {"files": case["files"], "flags": case["flags"], "param": case.get("param", False), "origin": case["origin"],
             "classes": case["classes"], "signature": sig})
    acc.timing = (cases[0]["origin"][:40] if cases else "chunk", round(time.time() - t0, 1))
    return acc


def slice_worker(seed, n, min_budget):
    return worker(pipeline.draw_modules(seed, n, None, case_strategy()), min_budget)


def replay_case(case):
    case = dict(case)
    case.setdefault("classes", [])
    case.setdefault("origin", "generated")
    sig, detail, info = evaluate(case)
    if sig is None:
        return False, detail
    if not case.get("probe"):
        kc = known_class(sig, case)
        if kc:
            return False, "known finding %s: %s" % (kc, sig)
    return True, "%s\n%s" % (sig, detail)


def main(argv):
    a = runner.parse_args(argv)
    build.asn1c_binary("plain")
    if a.replay:
        return runner.do_replay(PID, replay_case, a.replay)
    chk = Check(PID, "exploration", RULE, ASSUME)
    n = a.modules or chk.pick(1500, 12000)
    try:
        chk.extra_coverage["randomize_va_space"] = open("/proc/sys/kernel/randomize_va_space").read().strip()
    except OSError:
        pass
    t1 = time.time()
    runner.regression_and_probes(chk, replay_case)
    chk.extra_coverage["replays_and_probes_s"] = round(time.time() - t1, 1)
    W = a.workers or NCPU
    nslices = max(1, min(W, n // 30))
    per = -(-n // nslices)
    corpus = corpus_cases()
    t1 = time.time()
    args = [("gen", chk.seed * 1013 + i, per, chk.pick(20, 30)) for i in range(nslices)]
    csl = max(1, len(corpus) // 6)
    args += [("corpus", corpus[i:i + csl]) for i in range(0, len(corpus), csl)]
    args.append(("corpus", fixed_cases()))
    results = run_pool(_dispatch, args, W)
    chk.extra_coverage["pool_s"] = round(time.time() - t1, 1)
    chk.extra_coverage["corpus_files"] = len(corpus)
    best = {}
    for kind, r in results:
        if kind != "ok":
            chk.error("worker failed: " + r[-3000:])
            continue
        for v in r.violations:
            size = sum(len(t) for _, t in v["replay"]["files"])
            if v["key"] not in best or size < best[v["key"]][0]:
                best[v["key"]] = (size, v)
        r.violations = []
        chk.acc.merge(r)
    chk.acc.violations = [v for _, v in sorted(best.values(), key=lambda x: x[0])][:12]
    t1 = time.time()
    runner.confirm(chk, replay_case)
    chk.extra_coverage["confirm_s"] = round(time.time() - t1, 1)
    return chk.finish(min_evaluations=int(n * 0.75), min_nontrivial=n // 3)


def _dispatch(kind, *rest):
    if kind == "gen":
        return slice_worker(*rest)
    return worker(rest[0], 0)


if __name__ == "__main__":
    sys.exit(main(sys.argv[1:]))
