"""Reference decision for property C11: is a module ambiguous / inconsistent in the sense of the property's
statement?  Written from ITU-T X.680 (clause numbers of the 2008/2015 text, quoted from the printed standard, no code
or table shared with asn1c and none with vf/ref_ber.py).

Rules implemented
  31.2      a tagged type "[Class Number] Type" has the written tag as its (outermost) tag, whether the tagging is
            implicit or explicit; the tagging is explicit if EXPLICIT is written, or nothing is written and the module's
            TagDefault is EXPLICIT TAGS or empty, or nothing is written and Type is an untagged choice type (31.2.7 c);
            IMPLICIT shall not be written in front of an untagged choice type (31.2.8 - outside the property, reported as
            such)
  Table 1   universal class tag numbers of the built-in types
  16        a type reference has the tags of the type it references (the reference must be defined somewhere: 16.x /
            13.x "every typereference used shall be assigned")
  29.3/29.4 the alternatives of a CHOICE shall have distinct tags; an untagged CHOICE used as a component/alternative
            contributes the tags of all of its alternatives (recursively)
  27.3      the component types of a SET shall all have different tags
  25.6      in a SEQUENCE the tags of every series of consecutive OPTIONAL/DEFAULT components and of the component
            following the series shall be distinct (25.6.1, extension additions: treated conservatively, see below)
  25.3/27.2/29.2  automatic tagging is selected for a component list iff the module says AUTOMATIC TAGS and no
            component of the list is a TaggedType (decision per list); 25.8/29.x it then replaces every component type T
            by [CONTEXT i] IMPLICIT T (EXPLICIT for an untagged CHOICE), i = 0, 1, ... root components first, then the
            extension additions; a tagged extension addition with an untagged root is illegal (outside the property)
  25.10/27/29.5   the identifiers of the components / alternatives of one type shall be distinct
  20.3-20.6 ENUMERATED: identifiers distinct; values distinct; an item without a number gets the next free value;
            additions after "..." shall be in ascending order

The verdict has three outcomes.  'reject': the module shows one of the situations the property's statement names.
'accept': none of them, and nothing else this file knows to be illegal.  'outside': the module is illegal or borderline
only for a reason the statement does not cover (a collision that involves only extension additions, an OPTIONAL run that
meets the extension marker, IMPLICIT in front of an untagged CHOICE, a tagged addition under automatic tagging, a
reference loop); the generator must not produce such modules and the check never turns them into a verdict.
"""

# X.680 Table 1 (universal class tag assignments)
UNIVERSAL_NUMBER = {
    "BOOLEAN": 1, "INTEGER": 2, "BITSTRING": 3, "OCTETSTRING": 4, "NULL": 5, "OID": 6, "ObjectDescriptor": 7,
    "REAL": 9, "ENUMERATED": 10, "UTF8String": 12, "RELOID": 13, "SEQUENCE": 16, "SEQOF": 16, "SET": 17, "SETOF": 17,
    "NumericString": 18, "PrintableString": 19, "TeletexString": 20, "T61String": 20, "VideotexString": 21,
    "IA5String": 22, "UTCTime": 23, "GeneralizedTime": 24, "GraphicString": 25, "VisibleString": 26,
    "ISO646String": 26, "GeneralString": 27, "UniversalString": 28, "BMPString": 30,
}
LISTS = ("SEQUENCE", "SET", "CHOICE")

# problem kinds named by the statement
IN_STATEMENT = ("tag.choice", "tag.set", "tag.seq-run", "dup.identifier", "dup.enum-name", "dup.enum-value",
                "ref.undefined")


class Problem:
    def __init__(self, kind, where, detail, in_statement, data=None):
        self.kind, self.where, self.detail, self.in_statement = kind, where, detail, in_statement
        self.data = data        # tag problems: (container node, position i, position j, shared tags)

    def __repr__(self):
        return "%s%s at %s: %s" % ("" if self.in_statement else "(outside) ", self.kind, self.where, self.detail)


class Unresolved(Exception):
    pass


class Loop(Exception):
    pass


# An untagged extensible CHOICE can grow alternatives with any tag: its tag set also holds this wildcard, and so does the
# extension marker of the enclosing type.  Two wildcards in one group of tags that must be distinct make the insertion point
# of an unknown element ambiguous (X.680 clause 52.7, the 'A ::= SET { a A, b CHOICE { c C, d D, ... }, ... }' example):
# illegal, but not one of the situations the property names.
OPEN = ("OPEN", 0)


def fmt_tag(tag):
    cls, num = tag
    if tag == OPEN:
        return "<extension insertion point>"
    return "[%s%d]" % ("" if cls == "CONTEXT" else cls + " ", num)


class Analysis:
    def __init__(self, mod):
        self.mod = mod
        self.default = mod.tagdefault          # 'EXPLICIT' | 'IMPLICIT' | 'AUTOMATIC' | 'NONE' (no TagDefault written)
        self.defs = {}
        self.problems = []
        self.uses = {"auto": 0, "ref": 0, "nested": 0, "universal": 0, "literal": 0}
        for name, t in mod.types:
            if name in self.defs:
                self.problems.append(Problem("dup.typename", name, "type assigned twice", False))
            else:
                self.defs[name] = t

    # ---------------------------------------------------------------- tags
    def automatic(self, t):
        """25.3 / 27.2 / 29.2: is the automatic tagging transformation selected for this component list?"""
        if self.default != "AUTOMATIC" or t.kind not in LISTS:
            return False
        return not any(m.type.tag is not None for m in t.members)

    def untagged_choice(self, t, trail=()):
        """Is t (a Type without a written tag of its own) an untagged choice type, possibly through references?"""
        if t.tag is not None:
            return False
        if t.kind == "REF":
            if t.ref not in self.defs:
                raise Unresolved(t.ref)
            if t.ref in trail:
                raise Loop(t.ref)
            return self.untagged_choice(self.defs[t.ref], trail + (t.ref,))
        return t.kind == "CHOICE"

    def tags_of(self, t, trail=(), via=None):
        """The set of tags one of which is outermost in any value of t (29.4 for untagged choices)."""
        if t.tag is not None:
            if via is not None:
                via.add("literal")
            return frozenset([(t.tag[0], t.tag[1])])
        if t.kind == "REF":
            if t.ref not in self.defs:
                raise Unresolved(t.ref)
            if t.ref in trail:
                raise Loop(t.ref)
            if via is not None:
                via.add("ref")
            return self.tags_of(self.defs[t.ref], trail + (t.ref,), via)
        if t.kind == "CHOICE":
            if via is not None:
                via.add("nested")
            out = set()
            for s in self.component_tags(t, trail, via):
                out |= s
            if t.ext:
                out.add(OPEN)
            return frozenset(out)
        if via is not None:
            via.add("universal")
        return frozenset([("UNIVERSAL", UNIVERSAL_NUMBER[t.kind])])

    def component_tags(self, t, trail=(), via=None):
        """Tag set of every component / alternative of a SEQUENCE, SET or CHOICE, in textual order."""
        if self.automatic(t):
            if via is not None:
                via.add("auto")
            root = [i for i, m in enumerate(t.members) if not m.ext]
            adds = [i for i, m in enumerate(t.members) if m.ext]
            out = [None] * len(t.members)
            for n, i in enumerate(root + adds):          # root first, then the additions
                out[i] = frozenset([("CONTEXT", n)])
            return out
        return [self.tags_of(m.type, trail, via) for m in t.members]

    # ---------------------------------------------------------------- walking
    def run(self):
        for name, t in self.mod.types:
            self.visit(t, name)
        return self.problems

    def add(self, kind, where, detail, in_statement=None, data=None):
        self.problems.append(Problem(kind, where, detail, kind in IN_STATEMENT if in_statement is None else in_statement,
                                     data))

    def visit(self, t, where):
        if t.tag is not None:
            self.check_written_tag(t, where)
        k = t.kind
        if k == "REF":
            if t.ref not in self.defs:
                self.add("ref.undefined", where, "type reference %s is not assigned anywhere" % t.ref)
            else:
                try:
                    self.tags_of(t)
                except Loop as e:
                    self.add("ref.loop", where, "reference loop through %s" % e, False)
                except Unresolved:
                    pass            # reported where the dangling reference is written
        elif k == "ENUMERATED":
            self.check_enum(t, where)
        elif k in ("SEQOF", "SETOF"):
            self.visit(t.elem, where + ".<element>")
        elif k in LISTS:
            self.check_list(t, where)
            for m in t.members:
                self.visit(m.type, "%s.%s" % (where, m.name))

    def check_written_tag(self, t, where):
        cls, num, mode = t.tag
        if cls == "UNIVERSAL":
            self.add("tag.universal-class", where, "UNIVERSAL class in a user tag", False)
        if mode == "IMPLICIT":
            bare = _without_tag(t)
            try:
                if self.untagged_choice(bare):
                    self.add("tag.implicit-choice", where, "IMPLICIT written in front of an untagged CHOICE (31.2.8)", False)
            except (Unresolved, Loop):
                pass

    def check_enum(self, t, where):
        names = {}
        items = [(n, v, False) for n, v in t.named] + [(n, v, True) for n, v in t.ext_named]
        bare = bool(t.flags.get("bare"))
        values = {}
        nxt = 0
        last_add = None
        for idx, (n, v, is_add) in enumerate(items):
            if n in names:
                self.add("dup.enum-name", where, "enumeration identifier %s written twice (items %d and %d)" % (n, names[n], idx))
            else:
                names[n] = idx
            if bare:
                # 20.5: successive values starting at 0 (no numbered item exists in this rendering style)
                v = nxt
            nxt = max(nxt, v + 1)
            if v in values:
                self.add("dup.enum-value", where, "enumeration value %d used twice (items %d and %d)" % (v, values[v], idx))
            else:
                values[v] = idx
            if is_add:
                # 20.6: every addition is greater than the additions before it (an equal value is the duplicate above)
                if last_add is not None and v < last_add:
                    self.add("enum.addition-order", where, "addition value %d after %d" % (v, last_add), False)
                last_add = v if last_add is None else max(last_add, v)

    def check_list(self, t, where):
        mem = t.members
        # the model keeps extension additions behind the root (one marker, no second root list)
        seen_add = False
        for m in mem:
            if m.ext:
                seen_add = True
            elif seen_add:
                self.add("model.second-root", where, "root component after the additions is not modelled", False)
        # --- identifiers (25.10 / 27 / 29.5)
        first = {}
        for i, m in enumerate(mem):
            if m.name in first:
                self.add("dup.identifier", where, "identifier %s names components %d and %d" % (m.name, first[m.name], i))
            else:
                first[m.name] = i
        # --- automatic tagging legality
        if self.default == "AUTOMATIC" and not any(m.type.tag is not None for m in mem if not m.ext) and \
                any(m.type.tag is not None for m in mem if m.ext):
            self.add("tag.addition-tagged-root-untagged", where,
                     "tagged extension addition while the root is untagged under AUTOMATIC TAGS", False)
        # --- tags
        vias = [set() for _ in mem]
        sets = []
        auto = self.automatic(t)
        if auto:
            sets = self.component_tags(t)
            for v in vias:
                v.add("auto")
        else:
            for m, v in zip(mem, vias):
                try:
                    sets.append(self.tags_of(m.type, (), v))
                except Unresolved:
                    sets.append(None)           # dangling reference: reported by visit()
                except Loop:
                    sets.append(None)
        groups = []
        if t.kind in ("CHOICE", "SET"):
            groups.append((list(range(len(mem))), True))
        else:
            groups = self.sequence_groups(mem)
        kind = {"CHOICE": "tag.choice", "SET": "tag.set", "SEQUENCE": "tag.seq-run"}[t.kind]
        reported = set()
        used = set()
        for g, marker in groups:
            if len(g) >= 2:
                for i in g:
                    used |= vias[i]
            opens = [mem[i].name for i in g if sets[i] is not None and OPEN in sets[i]] + (["..."] if marker and t.ext else [])
            if len(opens) >= 2:
                self.add("ext.insertion-point", where, "more than one extension insertion point among %s" % ", ".join(opens),
                         False)
            for x in range(len(g)):
                for y in range(x + 1, len(g)):
                    i, j = g[x], g[y]
                    if sets[i] is None or sets[j] is None or (i, j) in reported:
                        continue
                    common = (sets[i] & sets[j]) - {OPEN}
                    if not common:
                        continue
                    reported.add((i, j))
                    both_adds = mem[i].ext and mem[j].ext
                    if t.kind == "SEQUENCE":
                        inside = not (mem[i].ext or mem[j].ext)
                    else:
                        inside = not both_adds
                    self.add(kind, where, "components %s and %s share %s" % (
                        mem[i].name, mem[j].name, ", ".join(fmt_tag(x) for x in sorted(common))), inside,
                        (t, i, j, frozenset(common)))
        if t.kind == "CHOICE" and not auto:
            # 29.x: the tags of extension additions shall be in canonical order among themselves (outside the property)
            prev = None
            for m, s in zip(mem, sets):
                if not m.ext or s is None:
                    continue
                real = [x for x in s if x != OPEN]
                if not real:
                    continue
                lo = min(_canon(x) for x in real)
                if prev is not None and lo <= prev:
                    self.add("tag.addition-order", where, "addition %s not in canonical tag order" % m.name, False)
                prev = max(_canon(x) for x in real)
        for v in used:
            self.uses[v] += 1
        return sets

    @staticmethod
    def sequence_groups(mem):
        """25.6: every maximal series of consecutive OPTIONAL/DEFAULT components together with the component that
        follows it.  Extension additions are treated as optional and as part of the series they touch (25.6.1 is
        stricter than this in some places and weaker in none): any collision that involves an addition is reported
        as outside the property.  -> [(positions, does the series touch the extension marker)]"""
        groups = []
        cur = []
        for i, m in enumerate(mem):
            opt = m.optional or m.has_default or m.ext
            if opt:
                cur.append(i)
            else:
                if cur:
                    groups.append((cur + [i], False))
                cur = []
        if cur:
            groups.append((cur, True))        # the series reaches the end of the list: the extension marker (if any)
        return groups


def _canon(tag):
    return ({"UNIVERSAL": 0, "APPLICATION": 1, "CONTEXT": 2, "PRIVATE": 3}[tag[0]], tag[1])


def _without_tag(t):
    from .model import T
    return T(t.kind, None, t.cons, t.size, t.alpha, t.members, t.ext, t.named, t.ext_named, t.elem, t.ref, t.flags)


def analyse(mod):
    """-> (verdict, problems, uses).  verdict: 'accept' | 'reject' | 'outside'."""
    a = Analysis(mod)
    probs = a.run()
    if any(p.in_statement for p in probs):
        v = "reject"
    elif probs:
        v = "outside"
    else:
        v = "accept"
    return v, probs, a.uses


def verdict(mod):
    return analyse(mod)[0]


# ---------------------------------------------------------------------- hand-derived self checks
def selftest():
    from .model import T, Member, Module

    def M(default, *types):
        return Module("M", default, list(types))

    def ch(*ms, **kw):
        return T("CHOICE", members=list(ms), **kw)

    I, B, N = (lambda **k: T("INTEGER", **k)), (lambda **k: T("BOOLEAN", **k)), (lambda **k: T("NULL", **k))
    R = lambda n, **k: T("REF", ref=n, **k)
    cases = [
        # two untagged INTEGERs: 29.3
        ("reject", M("IMPLICIT", ("T", ch(Member("a", I()), Member("b", I()))))),
        # the same under AUTOMATIC TAGS: [0] and [1]
        ("accept", M("AUTOMATIC", ("T", ch(Member("a", I()), Member("b", I()))))),
        # one written tag switches automatic tagging off: b and c are both UNIVERSAL 2
        ("reject", M("AUTOMATIC", ("T", T("SET", members=[Member("a", B(tag=("CONTEXT", 0, None))), Member("b", I()),
                                                          Member("c", I())])))),
        # class matters
        ("accept", M("EXPLICIT", ("T", ch(Member("a", I()), Member("b", B(tag=("CONTEXT", 2, None))),
                                        Member("c", B(tag=("APPLICATION", 2, None))), Member("d", B(tag=("PRIVATE", 2, None))))))),
        # looking through two levels of untagged CHOICE and a reference
        ("reject", M("EXPLICIT", ("T", ch(Member("a", N()), Member("b", R("C1")))),
                   ("C1", ch(Member("c", B()), Member("d", ch(Member("e", I()), Member("f", N()))))))),
        ("accept", M("EXPLICIT", ("T", ch(Member("a", N()), Member("b", R("C1", tag=("CONTEXT", 0, None))))),
                   ("C1", ch(Member("c", B()), Member("d", ch(Member("e", I()), Member("f", N()))))))),
        # automatic tags of a referenced CHOICE collide with a written [1]
        ("reject", M("AUTOMATIC", ("C", ch(Member("a", I()), Member("b", B()))),
                   ("S", T("SET", members=[Member("x", I(tag=("CONTEXT", 1, None))), Member("y", R("C"))])))),
        ("accept", M("AUTOMATIC", ("C", ch(Member("a", I()), Member("b", B()))),
                   ("S", T("SET", members=[Member("x", I(tag=("CONTEXT", 2, None))), Member("y", R("C"))])))),
        # 25.6
        ("reject", M("IMPLICIT", ("T", T("SEQUENCE", members=[Member("a", I(), optional=True), Member("b", B(), optional=True),
                                                               Member("c", I())])))),
        ("accept", M("IMPLICIT", ("T", T("SEQUENCE", members=[Member("a", I(), optional=True), Member("b", B()),
                                                               Member("c", I())])))),
        ("accept", M("IMPLICIT", ("T", T("SEQUENCE", members=[Member("a", I()), Member("b", I()), Member("c", I(), optional=True)])))),
        ("reject", M("NONE", ("T", T("SEQUENCE", members=[Member("a", I(), has_default=True, default=1, default_text="1"),
                                                           Member("c", R("A"))])), ("A", R("B")), ("B", I()))),
        # identifiers, enumerations, references
        ("reject", M("AUTOMATIC", ("T", T("SEQUENCE", members=[Member("a", I()), Member("a", B())])))),
        ("reject", M("AUTOMATIC", ("T", T("ENUMERATED", named=[("a", 0), ("b", 1), ("a", 2)], flags={"bare": True})))),
        ("reject", M("AUTOMATIC", ("T", T("ENUMERATED", named=[("a", 1), ("b", 2), ("c", 1)])))),
        ("accept", M("AUTOMATIC", ("T", T("ENUMERATED", named=[("a", 1), ("b", 2)], ext=True, ext_named=[("c", 0), ("d", 5)])))),
        ("reject", M("AUTOMATIC", ("T", T("ENUMERATED", named=[("a", 1), ("b", 2)], ext=True, ext_named=[("c", 2)])))),
        ("reject", M("AUTOMATIC", ("T", T("SEQOF", elem=R("Nowhere"))))),
        # outside the statement
        ("outside", M("IMPLICIT", ("T", ch(Member("a", I()), Member("x", B(tag=("CONTEXT", 1, None)), ext=True),
                                         Member("y", N(tag=("CONTEXT", 1, None)), ext=True), ext=True)))),
        ("outside", M("IMPLICIT", ("T", T("SEQUENCE", members=[Member("a", I(), optional=True),
                                                                Member("x", I(), ext=True)], ext=True)))),
        ("outside", M("AUTOMATIC", ("T", T("SEQUENCE", members=[Member("a", I()), Member("x", I(tag=("CONTEXT", 1, None)), ext=True)],
                                           ext=True)))),
        # 52.7: two extension insertion points
        ("outside", M("EXPLICIT", ("C", ch(Member("a", I(tag=("CONTEXT", 0, None))), ext=True)),
                    ("S", T("SEQUENCE", members=[Member("a", R("C"), optional=True)], ext=True)))),
        ("accept", M("EXPLICIT", ("C", ch(Member("a", I(tag=("CONTEXT", 0, None))), ext=True)),
                   ("S", T("SEQUENCE", members=[Member("a", R("C"), optional=True), Member("b", B())], ext=True)))),
        ("outside", M("EXPLICIT", ("C", ch(Member("a", I(tag=("CONTEXT", 0, None))), ext=True)),
                    ("S", T("SET", members=[Member("a", R("C")), Member("b", B())], ext=True)))),
        ("accept", M("EXPLICIT", ("C", ch(Member("a", I(tag=("CONTEXT", 0, None))), ext=True)),
                   ("S", T("SET", members=[Member("a", R("C")), Member("b", B())])))),
    ]
    bad = []
    for n, (want, mod) in enumerate(cases):
        got, probs, _ = analyse(mod)
        if got != want:
            bad.append("selftest %d: want %s got %s %r\n%s" % (n, want, got, probs, mod.render()))
    return bad


if __name__ == "__main__":
    import sys
    b = selftest()
    print("\n".join(b) if b else "ref_tags selftest ok")
    sys.exit(1 if b else 0)
