"""ASN.1 model: types, modules, rendering to ASN.1 text and JSON (for replay files)."""
import json

UNIV = {
    "BOOLEAN": 1, "INTEGER": 2, "BITSTRING": 3, "OCTETSTRING": 4, "NULL": 5, "OID": 6,
    "ObjectDescriptor": 7, "REAL": 9, "ENUMERATED": 10, "UTF8String": 12, "RELOID": 13,
    "SEQUENCE": 16, "SEQOF": 16, "SET": 17, "SETOF": 17,
    "NumericString": 18, "PrintableString": 19, "TeletexString": 20, "T61String": 20,
    "VideotexString": 21, "IA5String": 22, "UTCTime": 23, "GeneralizedTime": 24,
    "GraphicString": 25, "VisibleString": 26, "ISO646String": 26, "GeneralString": 27,
    "UniversalString": 28, "BMPString": 30,
}
ASN_NAME = {
    "BITSTRING": "BIT STRING", "OCTETSTRING": "OCTET STRING", "OID": "OBJECT IDENTIFIER",
    "RELOID": "RELATIVE-OID", "SEQOF": "SEQUENCE OF", "SETOF": "SET OF",
}
# character strings with a fixed number of octets per character (PER "known multiplier")
KM_STRINGS = {"NumericString": 1, "PrintableString": 1, "IA5String": 1, "VisibleString": 1,
              "ISO646String": 1, "BMPString": 2, "UniversalString": 4}
# value is a python str
STR_KINDS = set(KM_STRINGS) | {"UTF8String"}
# value is python bytes (opaque)
OPAQUE_KINDS = {"OCTETSTRING", "TeletexString", "T61String", "VideotexString", "GraphicString",
                "GeneralString", "ObjectDescriptor"}
TIME_KINDS = {"UTCTime", "GeneralizedTime"}
CONSTRUCTED = {"SEQUENCE", "SET", "CHOICE", "SEQOF", "SETOF"}

NUMERIC_ALPHA = " 0123456789"
PRINTABLE_ALPHA = "ABCDEFGHIJKLMNOPQRSTUVWXYZabcdefghijklmnopqrstuvwxyz0123456789 '()+,-./:=?"


def builtin_alphabet(kind):
    """(lo, hi) code point span, and explicit alphabet or None."""
    if kind == "NumericString":
        return sorted(ord(c) for c in NUMERIC_ALPHA)
    if kind == "PrintableString":
        return sorted(ord(c) for c in PRINTABLE_ALPHA)
    if kind == "IA5String":
        return range(0, 128)
    if kind in ("VisibleString", "ISO646String"):
        return range(32, 127)
    if kind == "BMPString":
        return range(0, 0xfffe)
    if kind == "UniversalString":
        return range(0, 0x80000000)
    return None


class Cons:
    """A constraint in 'set' normal form: root = union of ranges, optional extension.
    what: 'value' | 'size' | 'from'.  ranges: list of (lo, hi); lo/hi None means MIN/MAX.
    For 'from' the bounds are code points."""

    def __init__(self, what, ranges, ext=False, ext_ranges=None):
        self.what = what
        self.ranges = [tuple(r) for r in ranges]
        self.ext = ext
        self.ext_ranges = [tuple(r) for r in (ext_ranges or [])]

    def to_json(self):
        return {"what": self.what, "ranges": self.ranges, "ext": self.ext, "ext_ranges": self.ext_ranges}

    @staticmethod
    def from_json(j):
        if j is None:
            return None
        return Cons(j["what"], j["ranges"], j["ext"], j.get("ext_ranges"))

    def contains_root(self, v):
        return any((lo is None or v >= lo) and (hi is None or v <= hi) for lo, hi in self.ranges)

    def contains_ext(self, v):
        return any((lo is None or v >= lo) and (hi is None or v <= hi) for lo, hi in self.ext_ranges)

    def lb(self):
        los = [lo for lo, hi in self.ranges]
        return None if any(l is None for l in los) else min(los)

    def ub(self):
        his = [hi for lo, hi in self.ranges]
        return None if any(h is None for h in his) else max(his)

    def _r(self, lo, hi, chars):
        def f(x, m):
            if x is None:
                return m
            if chars:
                return _char_lit(x)
            return str(x)
        if lo == hi and lo is not None:
            return f(lo, None)
        return "%s..%s" % (f(lo, "MIN"), f(hi, "MAX"))

    def render_inner(self):
        chars = self.what == "from"
        s = " | ".join(self._r(lo, hi, chars) for lo, hi in self.ranges)
        if self.ext:
            s += ", ..."
            if self.ext_ranges:
                s += ", " + " | ".join(self._r(lo, hi, chars) for lo, hi in self.ext_ranges)
        return s

    def render(self):
        if self.what == "value":
            return "(%s)" % self.render_inner()
        if self.what == "size":
            return "(SIZE(%s))" % self.render_inner()
        return "(FROM(%s))" % self.render_inner()


def _char_lit(cp):
    if 32 <= cp < 127 and cp not in (34, 39):
        return '"%s"' % chr(cp)
    # quadruple form {group, plane, row, cell}
    return "{%d, %d, %d, %d}" % ((cp >> 24) & 0xff, (cp >> 16) & 0xff, (cp >> 8) & 0xff, cp & 0xff)


class Member:
    def __init__(self, name, type, optional=False, default=None, has_default=False, ext=False, default_text=None):
        self.default_text = default_text   # value notation fixed at generation time (needed through references)
        self.name = name
        self.type = type
        self.optional = optional
        self.default = default
        self.has_default = has_default
        self.ext = ext  # is an extension addition

    def to_json(self):
        return {"name": self.name, "type": self.type.to_json(), "optional": self.optional,
                "default": val_to_json(self.default), "has_default": self.has_default, "ext": self.ext,
                "default_text": self.default_text}

    @staticmethod
    def from_json(j):
        return Member(j["name"], T.from_json(j["type"]), j["optional"], val_from_json(j["default"]),
                      j["has_default"], j["ext"], j.get("default_text"))


class T:
    def __init__(self, kind, tag=None, cons=None, size=None, alpha=None, members=None, ext=False,
                 named=None, ext_named=None, elem=None, ref=None, flags=None):
        self.kind = kind
        self.tag = tag          # (cls, num, mode) cls in 'CONTEXT','APPLICATION','PRIVATE','UNIVERSAL'; mode None/'IMPLICIT'/'EXPLICIT'
        self.cons = cons        # value constraint (INTEGER)
        self.size = size        # SIZE constraint
        self.alpha = alpha      # FROM constraint
        self.members = members or []
        self.ext = ext          # extension marker present (SEQUENCE/SET/CHOICE/ENUMERATED)
        self.named = named or []        # [(name, value)] enumerated root / integer named numbers / bit names
        self.ext_named = ext_named or []
        self.elem = elem
        self.ref = ref
        self.flags = flags or {}   # 'bare': render ENUMERATED items without numbers

    def to_json(self):
        return {"kind": self.kind, "tag": self.tag,
                "cons": self.cons.to_json() if self.cons else None,
                "size": self.size.to_json() if self.size else None,
                "alpha": self.alpha.to_json() if self.alpha else None,
                "members": [m.to_json() for m in self.members], "ext": self.ext,
                "named": self.named, "ext_named": self.ext_named,
                "elem": self.elem.to_json() if self.elem else None, "ref": self.ref,
                "flags": self.flags}

    @staticmethod
    def from_json(j):
        if j is None:
            return None
        return T(j["kind"], tuple(j["tag"]) if j["tag"] else None, Cons.from_json(j["cons"]),
                 Cons.from_json(j["size"]), Cons.from_json(j["alpha"]),
                 [Member.from_json(m) for m in j["members"]], j["ext"],
                 [tuple(x) for x in j["named"]], [tuple(x) for x in j["ext_named"]],
                 T.from_json(j["elem"]), j["ref"], j.get("flags"))

    # ---------- rendering ----------
    def render(self, ind=1):
        s = ""
        if self.tag:
            cls, num, mode = self.tag
            s += "[%s%d] " % ("" if cls == "CONTEXT" else cls + " ", num)
            if mode:
                s += mode + " "
        k = self.kind
        pad = "    " * ind
        if k == "REF":
            s += self.ref
        elif k in ("SEQUENCE", "SET", "CHOICE"):
            parts = []
            ext_done = False
            for m in self.members:
                if m.ext and not ext_done:
                    parts.append("...")
                    ext_done = True
                ms = "%s %s" % (m.name, m.type.render(ind + 1))
                if m.optional:
                    ms += " OPTIONAL"
                elif m.has_default:
                    ms += " DEFAULT " + (m.default_text or render_value(m.type, m.default))
                parts.append(ms)
            if self.ext and not ext_done:
                parts.append("...")
            s += "%s {\n%s%s\n%s}" % (k, pad, (",\n" + pad).join(parts), "    " * (ind - 1))
        elif k in ("SEQOF", "SETOF"):
            s += "SEQUENCE" if k == "SEQOF" else "SET"
            if self.size:
                s += " " + self.size.render()
            s += " OF " + self.elem.render(ind)
            return s
        elif k == "ENUMERATED":
            bare = self.flags.get("bare")
            items = [n if bare else "%s(%d)" % (n, v) for n, v in self.named]
            if self.ext:
                items.append("...")
                items += [n if bare else "%s(%d)" % (n, v) for n, v in self.ext_named]
            s += "ENUMERATED { %s }" % ", ".join(items)
        else:
            s += ASN_NAME.get(k, k)
            if self.named and k in ("INTEGER", "BITSTRING"):
                s += " { %s }" % ", ".join("%s(%d)" % (n, v) for n, v in self.named)
        cs = []
        if self.cons:
            cs.append(self.cons.render())
        if self.size and k not in ("SEQOF", "SETOF"):
            cs.append(self.size.render())
        if self.alpha:
            cs.append(self.alpha.render())
        if len(cs) > 1 and self.size and self.alpha:
            # combine SIZE and FROM as an intersection in one constraint
            s += " (%s ^ %s)" % (self.size.render()[1:-1], self.alpha.render()[1:-1])
        elif cs:
            s += " " + " ".join(cs)
        return s


class Module:
    def __init__(self, name, tagdefault, types, extra_text=""):
        self.name = name
        self.tagdefault = tagdefault  # 'EXPLICIT' | 'IMPLICIT' | 'AUTOMATIC'
        self.types = list(types)      # [(name, T)]
        self.extra_text = extra_text  # raw assignments (classes, object sets) appended verbatim
        self._map = None

    def lookup(self, name):
        if self._map is None or len(self._map) != len(self.types):
            self._map = dict(self.types)
        return self._map[name]

    def resolve(self, t):
        n = 0
        while t.kind == "REF":
            t = self.lookup(t.ref)
            n += 1
            if n > 1000:
                raise ValueError("reference loop")
        return t

    def render(self):
        out = ["%s DEFINITIONS %s TAGS ::= BEGIN" % (self.name, self.tagdefault)]
        for n, t in self.types:
            out.append("%s ::= %s" % (n, t.render()))
        if self.extra_text:
            out.append(self.extra_text)
        out.append("END")
        return "\n\n".join(out) + "\n"

    def to_json(self):
        return {"name": self.name, "tagdefault": self.tagdefault,
                "types": [[n, t.to_json()] for n, t in self.types], "extra_text": self.extra_text}

    @staticmethod
    def from_json(j):
        return Module(j["name"], j["tagdefault"], [(n, T.from_json(t)) for n, t in j["types"]],
                      j.get("extra_text", ""))

    def subset(self, names):
        """Dependency closure of the given type names, in original order."""
        need = set()

        def walk(t):
            if t.kind == "REF":
                add(t.ref)
            for m in t.members:
                walk(m.type)
            if t.elem:
                walk(t.elem)

        def add(n):
            if n in need:
                return
            need.add(n)
            walk(self.lookup(n))
        for n in names:
            add(n)
        return Module(self.name, self.tagdefault, [(n, t) for n, t in self.types if n in need],
                      self.extra_text)


# ---------- values: JSON encoding (bytes/float/tuples are not JSON) ----------
def val_to_json(v):
    if isinstance(v, bool) or v is None or isinstance(v, int):
        return v
    if isinstance(v, float):
        return {"$f": v.hex() if v == v else "nan"}
    if isinstance(v, bytes):
        return {"$b": v.hex()}
    if isinstance(v, str):
        return {"$s": [ord(c) for c in v]} if any(ord(c) < 32 or ord(c) > 126 for c in v) else v
    if isinstance(v, tuple):
        return {"$t": [val_to_json(x) for x in v]}
    if isinstance(v, list):
        return [val_to_json(x) for x in v]
    if isinstance(v, dict):
        return {"$d": {k: val_to_json(x) for k, x in v.items()}}
    raise TypeError(type(v))


def val_from_json(j):
    if isinstance(j, list):
        return [val_from_json(x) for x in j]
    if isinstance(j, dict):
        if "$f" in j:
            return float("nan") if j["$f"] == "nan" else float.fromhex(j["$f"])
        if "$b" in j:
            return bytes.fromhex(j["$b"])
        if "$s" in j:
            return "".join(chr(c) for c in j["$s"])
        if "$t" in j:
            return tuple(val_from_json(x) for x in j["$t"])
        if "$d" in j:
            return {k: val_from_json(x) for k, x in j["$d"].items()}
    return j


def render_value(t, v):
    """ASN.1 value notation for DEFAULT clauses (only kinds the generators use there)."""
    k = t.kind
    if k == "BOOLEAN":
        return "TRUE" if v else "FALSE"
    if k == "INTEGER":
        return str(v)
    if k == "ENUMERATED":
        for n, x in t.named + t.ext_named:
            if x == v:
                return n
        raise ValueError("enum value")
    if k in STR_KINDS:
        return '"%s"' % v.replace('"', '""')
    if k == "NULL":
        return "NULL"
    raise ValueError("no value notation for " + k)


def val_repr(v, limit=200):
    s = json.dumps(val_to_json(v), sort_keys=True)
    return s if len(s) <= limit else s[:limit] + "...(%d chars)" % len(s)
