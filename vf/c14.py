"""C14 — structure lifecycle: leak-free and double-free-free after any outcome, RESET gives a fresh structure."""
import sys

from hypothesis import strategies as st

from . import gen, drv, ref_ber, ref_oer, ref_per, pipeline, valcheck, runner
from .common import h, KNOWN
from .c03 import ListChooser
from .model import val_to_json, val_from_json

PID = "C14"
RULE = ("histories of API calls on ONE structure pointer drawn by Hypothesis (decode prefix k, decode rest, decode garbage, "
        "decode valid, encode in any syntax, check, print, ASN_STRUCT_RESET, FREE_CONTENTS_ONLY, re-decode after reset "
        "compared with a decode into a fresh structure, ASN_STRUCT_FREE) executed by the driver with a wrapped-allocator "
        "ledger that must return to its starting level; plus allocation-fault enumeration: the decode (BER/OER/UPER/XER) and "
        "every encoder are first run counting allocations N and then re-run with the k-th allocation failing for EVERY "
        "k < N (sampled above 300), each time releasing whatever was built and re-checking the ledger; ASan reports double "
        "or invalid frees, LSan is checked at driver exit; non-trivial = the history contains a starved/failed decode or an "
        "injected allocation failure fired; distinct by (type, history)")
SYN_DEC = ["ber", "oer", "uper", "xer"]
SYN_ENC = ["der", "oer", "uper", "xer", "cxer"]


def strategy(mod, t, cfg, feats):
    step = st.one_of(
        st.tuples(st.just("prefix"), st.sampled_from(SYN_DEC), st.integers(0, 400)),
        st.tuples(st.just("rest"), st.just(""), st.just(0)),
        st.tuples(st.just("full"), st.sampled_from(SYN_DEC), st.just(0)),
        st.tuples(st.just("garbage"), st.sampled_from(SYN_DEC), st.integers(0, 1 << 30)),
        st.tuples(st.just("e"), st.sampled_from(SYN_ENC), st.just(0)),
        st.tuples(st.sampled_from(["k", "p", "r", "c", "f"]), st.just(""), st.just(0)),
        st.tuples(st.just("n"), st.sampled_from(SYN_DEC), st.just(0)),
    )
    return st.tuples(gen.values(mod, t, cfg), st.lists(step, min_size=1, max_size=10),
                     st.sampled_from(["dec:ber", "dec:oer", "dec:uper", "dec:xer", "enc:der", "enc:oer", "enc:uper",
                                      "enc:xer", "enc:cxer"]))


def value_of(x):
    return x[0]


def with_value(x, v2, mod, tname):
    return (v2,) + tuple(x[1:])


def make_replay(mod, tname, t, x):
    return {"module": mod.subset([tname]).to_json(), "type": tname,
            "x": {"value": val_to_json(x[0]), "history": [list(s) for s in x[1]], "oom": x[2]}}


def case_from_replay(mod, case):
    x = case["x"]
    return (val_from_json(x["value"]), [tuple(s) for s in x["history"]], x["oom"])


def run_case(sess, mod, tname, t, x, feats, acc):
    v, history, oom = x
    refder = ref_ber.encode(mod, t, v)
    replay = make_replay(mod, tname, t, x)
    if len(refder) > 6000 and not getattr(acc, "probe", False):
        # the allocation-fault enumeration re-runs a codec once per allocation: for values of tens of kilobytes that is
        # minutes per case and ends in the driver's reply timeout, which is not an oracle
        acc.excluded["value too large for the allocation-fault enumeration (> 6000 octets of DER)"] += 1
        return None
    # encodings of the value in every syntax, from the library itself (acceptance is not this property's business)
    r = sess.cmd("enc %s %s der,oer,uper,xer" % (tname, drv.hexs(refder)))
    if "inject" in r:
        acc.excluded["inject-failed"] += 1
        return None
    encs = {"ber": refder}
    for s in ("oer", "uper", "xer"):
        if r.get(s) not in (None, "fail", "nocodec", "badsyntax"):
            encs[s] = drv.unhex(r[s])
    # for every other history the BER/UPER/OER encodings come from the reference encoders with the additions of a
    # "later version" in them (unknown extension additions are skipped on paths of their own)
    if sum(len(str(h_)) for h_ in history) % 2 == 0:
        from .c03 import ListChooser as _LC
        for s_, enc_, label in (("ber", ref_ber.encode, "unknown-ext"), ("uper", ref_per.encode, "per-unknown-ext"),
                                ("oer", ref_oer.encode, "oer-unknown-ext")):
            if s_ not in encs:
                continue
            try:
                ch_ = _LC(["force:%s=1" % label, 1, 2, 1])
                ch_.no_mixed_chain = True
                e_ = enc_(mod, t, v, ch_)
                if ch_.used.get(label):
                    encs[s_] = e_
                    acc.extra["encodings_with_unknown_extension_additions"] += 1
            except Exception:       # RefExcluded and friends: keep the library's encoding
                pass
    steps = []
    pending = None          # (syntax, rest) after a prefix decode
    nontrivial = False
    for kind, syn, arg in history:
        if kind in ("prefix", "full", "garbage", "n") and syn not in encs:
            continue
        if kind == "prefix":
            e = encs[syn]
            k = arg % (len(e) + 1)
            steps.append("d:%s:%s" % (syn, drv.hexs(e[:k])))
            pending = (syn, e[k:])
            nontrivial = nontrivial or k < len(e)
        elif kind == "rest":
            if pending:
                steps.append("d:%s:%s" % (pending[0], drv.hexs(pending[1])))
                pending = None
        elif kind == "full":
            steps.append("d:%s:%s" % (syn, drv.hexs(encs[syn])))
        elif kind == "garbage":
            e = bytearray(encs[syn] or b"\x00")
            pos = arg % len(e)
            e[pos] ^= 1 << ((arg >> 8) % 8)
            if (arg >> 12) % 3 == 0:
                e = e[:pos + 1]
            steps.append("d:%s:%s" % (syn, drv.hexs(bytes(e))))
            nontrivial = True
        elif kind == "n":
            steps.append("r")
            steps.append("n:%s:%s" % (syn, drv.hexs(encs[syn])))
        elif kind == "e":
            steps.append("e:%s" % syn)
        else:
            steps.append(kind)
    probs = []
    classes = list(feats)
    if steps:
        reply = sess.cmd("hist %s %s" % (tname, ";".join(steps)))
        acc.extra["history_steps"] += len(steps)
        for k2, val in reply.items():
            if k2.startswith("s") and k2[1:].isdigit():
                classes.append("step." + val.split(":")[0])
                if "BAD" in val or "NONZERO" in val or "DIFF" in val:
                    probs.append(("hist." + val.split(":")[0], "history step %s = %s\n  history: %s\n  reply: %s" % (
                        k2, val, " ; ".join(s[:60] for s in steps), reply["_raw"][:500])))
        if reply.get("leak") not in ("0", None):
            probs.append(("hist.leak", "ledger after the final ASN_STRUCT_FREE is off by %s allocations\n  history: %s\n  reply: %s" % (
                reply.get("leak"), " ; ".join(s[:80] for s in steps), reply["_raw"][:500])))
    # allocation-fault enumeration for one operation
    op, syn = oom.split(":")
    data = None
    if op == "dec" and syn in encs:
        data = encs[syn]
    elif op == "enc":
        data = refder
    if data is not None:
        r2 = sess.cmd("oom %s %s %s %s" % (tname, op, syn if not (op == "dec" and syn == "ber") else "ber", drv.hexs(data)))
        if r2["_status"] == "ok":
            fired = int(r2.get("fired", 0))
            acc.extra["oom_points"] += int(r2.get("points", 0))
            acc.extra["oom_fired"] += fired
            classes.append("oom." + oom)
            if fired:
                nontrivial = True
            if "leak_at" in r2:
                probs.append(("oom.leak." + oom, "%s %s with allocation #%s failing: %s allocation(s) never released (of %s "
                              "allocations in the fault-free run)\n  input: %s" % (op, syn, r2["leak_at"], r2["leak"], r2.get("allocs"),
                                                                                 data.hex()[:300])))
            if "badret_at" in r2:
                probs.append(("oom.badret." + oom, "%s %s with allocation #%s failing returned an undefined code" % (op, syn, r2["badret_at"])))
    nt = h(t.render(), val_to_json(v), history, oom) if nontrivial else None
    return probs, classes, nt, replay


def main(argv):
    return runner.run_module_check(
        PID, "fault_enumeration", RULE, valcheck.worker, lambda case: valcheck.replay_case(sys.modules[__name__], case), argv,
        n_modules=(30, 300), n_values=(25, 80), extra_worker_args=("vf.c14",),
        assumptions=["allocation faults are injected with -Wl,--wrap=malloc,calloc,realloc,free around everything linked "
                     "into the driver; allocations inside libc itself (none on these paths) are not seen",
                     "only documented API sequences are generated (no use after free)"])


if __name__ == "__main__":
    sys.exit(main(sys.argv[1:]))
