"""Generic worker for 'module x value x something' properties.

A check module (vf.cNN) provides:
    PID
    strategy(mod, t, cfg, feats)      -> Hypothesis strategy of the per-type example x (must contain the value)
    run_case(sess, mod, tname, t, x, feats, acc) -> (problems, classes, nontrivial_key, replay)
        problems: list of (class, text); [] when the property held; None when the case was skipped
    case_from_replay(mod, case)       -> x   (inverse of the 'x' part of replay)
    wants(mod, tname, t, feats)       -> bool (optional: skip types the property does not speak about)
"""
import importlib
import os

from hypothesis import strategies as st

from . import gen, drv, pipeline, reduce
from .common import Acc, h
from .model import Module, val_to_json, val_from_json, val_repr
from .pipeline import Fail


TYPE_BUDGET_S = 150


def worker(mod_json, wseed, nvalues, cfg_kw, spec_name, flags=drv.DEFAULT_FLAGS, variant="asan"):
    import time as _time
    _t0 = _time.time()
    spec = importlib.import_module(spec_name)
    if hasattr(spec, "flags_for"):
        flags = spec.flags_for(wseed)
    acc = Acc()
    mod = Module.from_json(mod_json)
    if mod.name.startswith("CatHuge"):
        nvalues = max(5, nvalues // 8)
    cfg = gen.Cfg(**cfg_kw)
    if "-fwide-types" in flags and getattr(spec, "WIDE_VALUES_WITH_WIDE_TYPES", False):
        cfg.wide_ints = True        # INTEGER_t carries values beyond 64 bits
    mb, mod, rejected = pipeline.compile_module(mod, flags, variant)
    for r in rejected:
        acc.extra["types_rejected_by_asn1c"] += 1
        acc.notes.append("rejected %s at %s rc=%s: %s || %s" % (r["type"], r["stage"], r["rc"], r["output"][-300:], r["text"][:400]))
    if mb is None:
        acc.extra["modules_unbuildable"] += 1
        return acc
    acc.extra["modules"] += 1
    try:
        sess = pipeline.Session(mb, **getattr(spec, "DRIVER_KW", {"timeout": 25}))
        for ti, (tname, t) in enumerate(mod.types):
            feats = pipeline.type_features(mod, t)
            if hasattr(spec, "wants") and not spec.wants(mod, tname, t, feats):
                acc.extra["types_outside_property"] += 1
                continue
            ttext = t.render()
            if not mod.name.startswith("Cat") and pipeline.min_element_count(mod, t) > 3000:
                # nested collections with large SIZE lower bounds: every value has thousands of elements and the Python
                # reference encoders need seconds for each; such types are left to the catalogue (flat 16K/64K cases)
                acc.extra["types_with_huge_minimal_values(skipped)"] += 1
                continue
            acc.extra["types"] += 1
            strat = spec.strategy(mod, t, cfg, feats)

            hung = []
            _tt = _time.time()

            def body(x, tname=tname, t=t, feats=feats, ttext=ttext, hung=hung, _tt=_tt):
                if hung:
                    raise hung[0]      # a hang costs a full timeout per run: do not let the shrinker repeat it
                if _time.time() - _tt > TYPE_BUDGET_S:
                    # a few types (recursive trees of collections) cost seconds per value in the Python reference
                    # encoders: the remaining values of such a type are not run (counted; never a verdict)
                    acc.extra["values_not_run(type budget of %ds used up)" % TYPE_BUDGET_S] += 1
                    return
                try:
                    res = spec.run_case(sess, mod, tname, t, x, feats, acc)
                except drv.DriverCrash as e:
                    if e.why.startswith("hang") and not getattr(spec, "HANG_IS_VERDICT", False):
                        # termination belongs to C04/C07; elsewhere a reply timeout is a cost problem of the harness
                        # (large values under the sanitizers), counted and never a verdict
                        acc.extra["reply_timeouts(inconclusive)"] += 1
                        acc.notes.append("reply timeout on %s ::= %s (inconclusive)" % (tname, ttext[:200]))
                        return
                    replay = spec.make_replay(mod, tname, t, x)
                    f = Fail(h(ttext, "hang" if e.why.startswith("hang") else "crash"),
                             "driver crashed/hung on %s ::= %s\ncase %s\n%s" % (
                                 tname, ttext[:600], val_repr(replay.get("x"), 400), str(e)[-1800:]), replay)
                    if e.why.startswith("hang"):
                        hung.append(f)
                    raise f
                if res is None:
                    return
                problems, classes, nt, replay = res
                acc.case(nt, classes)
                if problems:
                    raise Fail(h(ttext, problems[0][0]), "%s ::= %s\ncase %s\n%s" % (
                        tname, ttext, val_repr(replay.get("x"), 600), "\n".join(p[1] for p in problems[:6])), replay)
                if acc.evaluations % 101 == 1:
                    acc.sample({"type": "%s ::= %s" % (tname, ttext[:300]), "case": val_repr(replay.get("x"), 200)})
            f = None
            if os.environ.get("VERIF_HEARTBEAT"):
                with open(os.path.join(os.environ["VERIF_HEARTBEAT"], "hb-%d.txt" % os.getpid()), "w") as _hb:
                    _hb.write("%s wseed=%s nvalues=%s\n%s ::= %s\n" % (mod.name, wseed, nvalues, tname, ttext))
            if hasattr(spec, "boundary_cases") and mod.name.startswith("Cat"):
                # catalogue types: a deterministic list of boundary values first (every enumeration item, every
                # alternative, every OPTIONAL component alone, range end points), then the random draws
                for x in spec.boundary_cases(mod, t):
                    acc.extra["catalogue_boundary_cases"] += 1
                    try:
                        body(x)
                    except Fail as e:
                        f = e
                        break
            if f is None:
                f = pipeline.run_given(strat, body, nvalues, wseed * 1000 + ti)
            if _time.time() - _tt > 90:
                acc.notes.append("slow type (%ds for %d values): %s ::= %s" % (_time.time() - _tt, nvalues, tname, ttext[:300]))
                acc.extra["types_slower_than_90s"] += 1
            if f is not None:
                if f.key == "flaky":
                    acc.notes.append(f.summary[:500])
                else:
                    try:
                        f = minimise(spec, f, 40 if nvalues > 60 else 14, flags, variant)
                    except Exception as e:
                        acc.notes.append("minimise failed: %r" % (e,))
                    acc.violation(f.key, f.summary, f.replay)
                if len(acc.violations) >= 4:
                    break
        rc, err = sess.close()
        if rc != 0 or "ERROR" in err:
            acc.notes.append("driver exit status %s: %s" % (rc, err[-800:]))
            acc.extra["driver_nonzero_exit"] += 1
            if "LeakSanitizer" in err:
                acc.extra["lsan_reports"] += 1
    finally:
        mb.cleanup()
    acc.extra["worker_seconds"] += int(_time.time() - _t0)
    acc.timing = (mod.name, round(_time.time() - _t0, 1))
    return acc


def eval_case(spec, mod, tname, x, flags=drv.DEFAULT_FLAGS, variant="asan", probe=False):
    """Fresh build + fresh process.  Returns (class or None, text).
    probe=True: the case is the probe of a known finding, by-construction exclusions are off."""
    t = mod.lookup(tname)
    feats = pipeline.type_features(mod, t)
    with drv.ModuleBuild(mod.render(), flags, variant) as mb:
        d = mb.driver(**getattr(spec, "DRIVER_KW", {}))
        try:
            sess = _OneShot(d)
            a = Acc()
            a.probe = probe
            res = spec.run_case(sess, mod, tname, t, x, feats, a)
        except drv.DriverCrash as e:
            return "crash", str(e)[-2500:]
        finally:
            d.kill()
    if res is None or not res[0]:
        return None, "property holds on this case"
    return res[0][0][0], "\n".join(p[1] for p in res[0][:6])


class _OneShot:
    def __init__(self, d):
        self.d = d

    def cmd(self, line):
        return self.d.cmd(line)


def replay_case(spec, case, flags=drv.DEFAULT_FLAGS, variant="asan"):
    mod = Module.from_json(case["module"])
    if "flags" not in case and hasattr(spec, "FLAG_SETS"):
        # a replay without recorded flags is tried under every flag set of the check
        for fs in spec.FLAG_SETS:
            c2 = dict(case, flags=list(fs))
            bad, text = replay_case(spec, c2, flags, variant)
            if bad:
                return bad, text
        return False, text
    x = spec.case_from_replay(mod, case)
    cls, text = eval_case(spec, mod, case["type"], x, tuple(case.get("flags", flags)), variant,
                          probe=bool(case.get("probe")))
    return cls is not None, text


def minimise(spec, f, budget, flags, variant):
    case = f.replay
    mod = Module.from_json(case["module"])
    x = spec.case_from_replay(mod, case)
    cls, _ = eval_case(spec, mod, case["type"], x, flags, variant)
    if cls is None:
        return f
    v = spec.value_of(x)

    def still(m, n, v2):
        return eval_case(spec, m, n, spec.with_value(x, v2, m, n), flags, variant)[0] == cls
    m2, n2, v2, log = reduce.reduce_case(mod, case["type"], v, still, budget)
    if not log:
        return f
    x2 = spec.with_value(x, v2, m2, n2)
    replay = spec.make_replay(m2, n2, m2.lookup(n2), x2)
    cls2, text = eval_case(spec, m2, n2, x2, flags, variant)
    if cls2 is None:
        return f
    return Fail(f.key, "%s ::= %s\ncase %s\n%s\n[reduced from a larger type by: %s]" % (
        n2, m2.lookup(n2).render(), val_repr(replay.get("x"), 600), text, " ".join(log)), replay)
