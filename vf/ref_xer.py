"""XER layout variants.

XER *bytes* are never judged (C02 excludes XER); what C03 needs is the family of alternative valid
XML documents for one value.  Element naming is taken from the library's own CANONICAL-XER output;
this module re-renders that document, walking it in parallel with the ASN.1 type so that it knows
where X.693 allows layout freedom:
  * white space and comments between the child elements of SEQUENCE/SET/CHOICE/SEQUENCE OF/SET OF,
  * <a></a> versus <a/> for elements with empty content,
  * white space around the text of INTEGER/ENUMERATED/BOOLEAN/REAL/NULL bodies,
  * character references (&#65; &#x41;) instead of literal characters in character strings,
  * an XML prolog and white space before/after the document element.
"""
import re

from .model import STR_KINDS

TOKEN = re.compile(rb"<[^>]*>|[^<]+")


class Node:
    def __init__(self, name):
        self.name = name
        self.kids = []      # Node or bytes (text)
        self.selfclosed = False


def parse(doc):
    """Tiny XML tree builder for the library's canonical output (no comments, no PIs)."""
    root = Node(None)
    stack = [root]
    for tok in TOKEN.findall(doc):
        if tok.startswith(b"</"):
            stack.pop()
        elif tok.startswith(b"<"):
            selfc = tok.endswith(b"/>")
            n = Node(tok[1:-2 if selfc else -1].strip())
            n.selfclosed = selfc
            stack[-1].kids.append(n)
            if not selfc:
                stack.append(n)
        else:
            stack[-1].kids.append(tok)
    if len(stack) != 1 or len(root.kids) != 1:
        raise ValueError("unbalanced XML from the library")
    return root.kids[0]


WS = [b"", b" ", b"\n", b"\t\r\n  ", b"<!-- c -->", b" <!--x--> \n", b"<!---->"]
NUMERIC = {"INTEGER", "ENUMERATED", "BOOLEAN", "REAL", "NULL"}
CONSTR = {"SEQUENCE", "SET", "CHOICE", "SEQOF", "SETOF"}


def render(mod, t, node, ch, depth=0):
    rt = mod.resolve(t)
    k = rt.kind
    name = node.name
    if k in CONSTR:
        kids = [x for x in node.kids if isinstance(x, Node)]
        out = b""
        for kid in kids:
            out += WS[ch.pick("xer-ws", len(WS))]
            out += render(mod, child_type(mod, rt, kid), kid, ch, depth + 1)
        if k == "SEQUENCE" and rt.ext and ch.pick("xer-unknown-ext", 5) == 1:
            # an extension addition of a later version, unknown to the decoder: at the insertion point (the model keeps
            # the additions at the end of the component list)
            out += (b"<zzUnknown>7</zzUnknown>", b"<zzUnknown/>", b"<zzUnknown><a>1</a><b/></zzUnknown>",
                    b"<zzU1>x</zzU1><zzU2></zzU2>")[ch.pick("xer-unknown-ext-form", 4)]
            kids = kids or [None]
        if kids:
            out += WS[ch.pick("xer-ws", len(WS))]
        elif ch.pick("xer-ws-empty", 3) == 1:
            out = b" "
        if not out and ch.pick("xer-selfclose", 2) == 1:
            return b"<" + name + b"/>"
        return b"<" + name + b">" + out + b"</" + name + b">"
    # primitive: children are text and/or empty elements such as <true/>
    if node.selfclosed:
        return b"<" + name + b"/>"
    body = b""
    for x in node.kids:
        if isinstance(x, Node):
            body += b"<" + x.name + b"/>"
        else:
            body += x
    if k in NUMERIC:
        pre = (b"", b" ", b"\n\t")[ch.pick("xer-num-ws", 3)]
        post = (b"", b" ", b"\r\n")[ch.pick("xer-num-ws", 3)]
        if body or k == "NULL":
            body = pre + body + post if (body or pre or post) else body
    elif k in STR_KINDS and body and b"<" not in body:
        body = charrefs(body, ch)
    if not body and ch.pick("xer-selfclose", 2) == 1:
        return b"<" + name + b"/>"
    return b"<" + name + b">" + body + b"</" + name + b">"


def charrefs(body, ch):
    """Replace some plain ASCII letters/digits by numeric character references."""
    if ch.pick("xer-charref", 3) != 1:
        return body
    out = b""
    i = 0
    while i < len(body):
        c = body[i]
        if c == 0x26:                       # an entity: copy it whole
            j = body.find(b";", i)
            if j < 0:
                j = i
            out += body[i:j + 1]
            i = j + 1
            continue
        if (0x30 <= c <= 0x39 or 0x41 <= c <= 0x5a or 0x61 <= c <= 0x7a) and ch.pick("xer-charref-one", 3) == 1:
            out += (b"&#%d;" % c) if ch.pick("xer-charref-form", 2) == 0 else (b"&#x%x;" % c)
        else:
            out += bytes([c])
        i += 1
    return out


def child_type(mod, rt, kid):
    k = rt.kind
    if k in ("SEQOF", "SETOF"):
        re = mod.resolve(rt.elem)
        if re.kind == "CHOICE":
            # a CHOICE element has no wrapper element of its own: the child is the alternative
            for m in re.members:
                if m.name.encode() == kid.name:
                    return m.type
        return rt.elem
    for m in rt.members:
        if m.name.encode() == kid.name:
            return m.type
    # an element the model does not know by name: treat as an opaque leaf
    from .model import T
    return T("OCTETSTRING")


def variant(mod, t, cxer_doc, ch):
    root = parse(cxer_doc)
    doc = render(mod, t, root, ch)
    r = ch.pick("xer-prolog", 4)
    if r == 1:
        doc = b"<?xml version=\"1.0\" encoding=\"UTF-8\"?>\n" + doc
    elif r == 2:
        doc = b"\n  " + doc
    elif r == 3:
        doc = b"<!-- lead -->" + doc
    return doc
