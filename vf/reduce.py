"""Type-level minimisation of a failing (module, type, value) case.

Hypothesis shrinks *values* against the running driver; shrinking the *type* needs a recompile
per attempt, so it is done here, greedily, under an attempt budget."""
import copy

from .model import T, Member, Module


def _copy_t(t, **kw):
    c = T(t.kind, t.tag, t.cons, t.size, t.alpha, list(t.members), t.ext, list(t.named), list(t.ext_named),
          t.elem, t.ref, dict(t.flags))
    for k, v in kw.items():
        setattr(c, k, v)
    return c


def _copy_m(m, **kw):
    c = Member(m.name, m.type, m.optional, m.default, m.has_default, m.ext, m.default_text)
    for k, v in kw.items():
        setattr(c, k, v)
    return c


def candidates(mod, t, v, depth=0):
    """Yield (label, t2, v2): simpler type/value pairs that keep as much of the failure as possible."""
    k = t.kind
    # inline a reference
    if k == "REF":
        tgt = mod.lookup(t.ref)
        if not t.tag:
            yield ("inline-ref", _copy_t(tgt), v)
        elif not tgt.tag:
            yield ("inline-ref", _copy_t(tgt, tag=t.tag), v)
        return
    # de-nest
    if k in ("SEQUENCE", "SET"):
        for m in t.members:
            if m.name in v:
                yield ("into." + m.name, m.type, v[m.name])
    elif k == "CHOICE":
        for m in t.members:
            if m.name == v[0]:
                yield ("into." + m.name, m.type, v[1])
    elif k in ("SEQOF", "SETOF"):
        for x in v[:3]:
            yield ("into.elem", t.elem, x)
    if t.tag:
        yield ("drop-tag", _copy_t(t, tag=None), v)
    if k in ("SEQUENCE", "SET"):
        absent = [m for m in t.members if m.name not in v]
        if absent:
            keep = [m for m in t.members if m.name in v]
            yield ("drop-absent", _copy_t(t, members=keep), v)
        for m in t.members:
            if m.name in v and (m.optional or m.has_default or len(t.members) > 1):
                keep = [x for x in t.members if x is not m]
                v2 = {a: b for a, b in v.items() if a != m.name}
                yield ("drop." + m.name, _copy_t(t, members=keep), v2)
        if t.ext and not any(m.ext for m in t.members):
            yield ("drop-ext", _copy_t(t, ext=False), v)
        for m in t.members:
            if m.ext:
                yield ("unext." + m.name, _copy_t(t, members=[_copy_m(x, ext=False) if x is m else x for x in t.members]), v)
                break
        for m in t.members:
            if m.optional and m.name in v:
                yield ("mandatory." + m.name, _copy_t(t, members=[_copy_m(x, optional=False) if x is m else x for x in t.members]), v)
            if m.has_default:
                yield ("nodefault." + m.name, _copy_t(t, members=[_copy_m(x, has_default=False, default=None) if x is m else x for x in t.members]), v)
    elif k == "CHOICE":
        others = [m for m in t.members if m.name != v[0]]
        if others:
            sel = [m for m in t.members if m.name == v[0]]
            yield ("drop-alts", _copy_t(t, members=[_copy_m(sel[0], ext=False)], ext=False), v)
            for m in others:
                keep = [x for x in t.members if x is not m]
                if any(not x.ext for x in keep):
                    yield ("drop-alt." + m.name, _copy_t(t, members=keep), v)
        if t.ext and not any(m.ext for m in t.members):
            yield ("drop-ext", _copy_t(t, ext=False), v)
    elif k in ("SEQOF", "SETOF"):
        if len(v) > 1:
            yield ("one-elem", t, v[:1])
            yield ("half", t, v[:len(v) // 2])
            yield ("tail", t, v[1:])
        if t.size:
            yield ("drop-size", _copy_t(t, size=None), v)
    else:
        if t.cons:
            yield ("drop-cons", _copy_t(t, cons=None), v)
            if t.cons.ext:
                import copy as _c
                c2 = _c.copy(t.cons)
                c2.ext = False
                if c2.contains_root(v):
                    yield ("cons-noext", _copy_t(t, cons=c2), v)
        if t.size:
            yield ("drop-size", _copy_t(t, size=None), v)
        if t.alpha:
            yield ("drop-alpha", _copy_t(t, alpha=None), v)
        if t.named and k in ("INTEGER", "BITSTRING"):
            yield ("drop-named", _copy_t(t, named=[]), v)
        if k == "ENUMERATED" and t.ext and v in [x for _, x in t.named]:
            yield ("enum-noext", _copy_t(t, ext=False, ext_named=[]), v)
    # recurse into children (only a few levels, each attempt costs a compile)
    if depth < 4:
        if k in ("SEQUENCE", "SET"):
            for i, m in enumerate(t.members):
                if m.name in v:
                    for lab, t2, v2 in candidates(mod, m.type, v[m.name], depth + 1):
                        if lab.startswith("into.") and depth > 0:
                            pass
                        mem = list(t.members)
                        mem[i] = _copy_m(m, type=t2)
                        vv = dict(v)
                        vv[m.name] = v2
                        if m.has_default:
                            mem[i] = _copy_m(m, type=t2, has_default=False, default=None)
                        yield ("%s/%s" % (m.name, lab), _copy_t(t, members=mem), vv)
        elif k == "CHOICE":
            for i, m in enumerate(t.members):
                if m.name == v[0]:
                    for lab, t2, v2 in candidates(mod, m.type, v[1], depth + 1):
                        mem = list(t.members)
                        mem[i] = _copy_m(m, type=t2)
                        yield ("%s/%s" % (m.name, lab), _copy_t(t, members=mem), (v[0], v2))
        elif k in ("SEQOF", "SETOF") and len(v) == 1:
            for lab, t2, v2 in candidates(mod, t.elem, v[0], depth + 1):
                yield ("elem/" + lab, _copy_t(t, elem=t2), [v2])


def reduce_case(mod, tname, v, still_fails, budget=40):
    """Greedy reduction.  still_fails(module, type_name, value) -> bool.  Returns (module, name, value, log)."""
    t = mod.lookup(tname)
    log = []
    spent = 0
    progress = True
    cur_mod = mod
    while progress and spent < budget:
        progress = False
        for lab, t2, v2 in candidates(cur_mod, t, v):
            if spent >= budget:
                break
            m2 = Module(cur_mod.name, cur_mod.tagdefault, [(n, x) for n, x in cur_mod.types if n != "R"] + [("R", t2)],
                        cur_mod.extra_text)
            try:
                m2 = m2.subset(["R"])
            except KeyError:
                continue
            spent += 1
            try:
                ok = still_fails(m2, "R", v2)
            except Exception as e:   # a reduction step that cannot be evaluated is simply not taken
                ok = False
            if ok:
                log.append(lab)
                cur_mod, t, v, tname = m2, t2, v2, "R"
                progress = True
                break
    if tname != "R":
        return mod.subset([tname]), tname, v, log
    return cur_mod.subset(["R"]), "R", v, log
