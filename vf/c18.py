"""C18 — open types governed by an information object set resolve per the object table.

Generated modules: CLASS + object set (1..12 rows) + a frame SEQUENCE { id CLASS.&id({Set}),
[crit CLASS.&crit({Set}{@id}),] val CLASS.&Type({Set}{@id}) [OPTIONAL] } possibly nested in another
SEQUENCE / SEQUENCE OF / a parameterized instantiation.  The frame is not part of vf/model.py's algebra:
this file renders the class/object-set/frame text itself and extends the reference encoders
(vf/ref_ber, ref_per, ref_oer are used unchanged for every row type and plain member) by the three
things a frame adds: the open type field (BER: the row type's TLV, inside the EXPLICIT context tag that
automatic tagging or a written tag gives an open type; UPER: X.691 10.2 length-prefixed, octet-padded
encoding of the row type; OER: X.696 length-prefixed encoding), the table-constrained identifier
(encoded as its governing type: table constraints are not PER/OER-visible) and SEQUENCE/SEQUENCE OF
containers around them.
"""
import os
import re
import sys
import time

from hypothesis import strategies as st

from . import gen, drv, build, ref_ber, ref_per, ref_oer, pipeline, runner, c04
from .common import h, KNOWN, Check, Acc, run_pool
from .model import T, Member, Module, Cons, val_to_json, val_from_json, val_repr
from .pipeline import Fail

PID = "C18"
RULE = ("Hypothesis-generated modules with CLASS (WITH SYNTAX in two layouts; without it asn1c refuses the set, counted), "
        "an object set of 1..12 rows (extensible or not, rows inline / as named objects / ids as value references), &id "
        "INTEGER (plain or a named constrained type) or OBJECT IDENTIFIER, optional &crit ENUMERATED column, row types = "
        "named primitive/constructed types from vf.gen, relation written @id or @.id, open-type member mandatory or "
        "OPTIONAL, members untagged / context-tagged / automatic, the frame alone or inside SEQUENCE, SEQUENCE OF or a "
        "parameterized instantiation.  Oracles per case: (1) the reference DER / UPER / OER of the frame (this file + "
        "vf.ref_*) decodes with RC_OK consuming everything, re-encodes byte-identically in DER and UPER, the decoded "
        "structure re-encodes to the reference DER, its XER names the row type inside the open-type element; "
        "(2) DER->UPER->DER and DER->XER->DER transcoding is the identity; each asserted only where the row type ALONE "
        "passes the same test (row codec defects belong to C01/C02 and are counted as excluded); (3) identifier without "
        "a row => decode does not return RC_OK in BER/UPER/OER/XER; identifier of row i with the encoding of row j: "
        "must fail when the reference proves the bytes are no encoding of row i (BER: outermost tag not among row i's "
        "tags; XER: other element name; UPER/OER: row i has a fixed encoding length and the length differs) and, "
        "differentially, must behave exactly as row i's type decoding the same bytes stand-alone (reject <=> reject; "
        "accept of a canonical encoding <=> accept with that value); ledger balanced, no sanitizer report; "
        "(4) C04-style mutations of valid frame encodings: rc in range, consumed <= size, result printable/encodable/"
        "freeable, ledger balanced, RC_OK and re-encodable => stable under re-encode/re-decode.  Non-trivial = the object "
        "set has >= 2 rows and the chosen row is not the first, or the case is a mismatch; distinct by (module shape, value, case)")

CRIT = T("ENUMERATED", named=[("reject", 0), ("ignore", 1), ("notify", 2)])
VAL_NAMES = ["val", "open", "payload"]
ID_NAMES = ["id", "ident", "procedureCode"]
INT_IDS = [0, 1, 2, 3, 4, 5, 7, 10, 42, 100, 127, 128, 255, 256, 300, 32767, 32768, 65535, 65536, (1 << 31) - 1, 1 << 31,
           (1 << 32) - 1, 1 << 32, (1 << 63) - 1, -1, -2, -128, -129, -32768, -(1 << 31), -(1 << 63)]
OID_IDS = [(1, 2, 3), (1, 2, 4), (1, 2, 840, 113549, 1, 1, 1), (2, 5, 4, 3), (2, 5, 29, 15), (0, 0), (0, 39, 1), (2, 999, 3),
           (1, 3, 6, 1, 4, 1, 9363, 1, 5), (2, 5, 4, 4), (1, 0, 8571, 2), (2, 16, 840, 1, 101, 3, 4, 2, 1), (1, 2, 3, 4),
           (1, 2), (2, 100, 3)]

# ------------------------------------------------------------------ known classes
# name -> (predicate over the module spec, by-construction repair of the spec)
ENV_ASSUME = "VERIF_C18_ASSUME_LISTED"     # test-only: comma separated class names treated as listed


def listed(cls):
    return KNOWN.is_known(PID, cls) or cls in [c for c in os.environ.get(ENV_ASSUME, "").split(",") if c]


def _fix_oid(spec):
    spec["idkind"] = "INTEGER"
    spec["idtype"] = None
    for i, r in enumerate(spec["rows"]):
        r["id"] = INT_IDS[(i * 7 + 1) % 20] if i else 1
    seen = set()
    for i, r in enumerate(spec["rows"]):
        while r["id"] in seen:
            r["id"] += 1
        seen.add(r["id"])


def _fix_opt(spec):
    spec["opt"] = False


def _not_auto(spec):
    """True when the frame's members are not tagged automatically: the open type then carries no tag at all."""
    return spec["tagdefault"] != "AUTOMATIC" or (spec["style"] == "ctx" and bool(spec["pre"] or spec["post"]))


def _groups(spec):
    """Sizes of the object groups of the set as written: [root] or [root, additions]."""
    n = len(spec["rows"])
    if spec["set_ext"] == "mid" and n >= 2:
        k = max(1, n // 2)
        return [k, n - k]
    return [n]


def _fix_single(spec):
    # a group of one object is written "a | a": the same set (union is idempotent; asn1c folds the duplicate row), so
    # one-row tables stay in the domain while the shape that loses the row is excluded
    spec["dup_single"] = True


def _fix_untagged(spec):
    spec["skip_ber"] = True       # oracle-level: BER decoding of such frames is not attempted, injection goes through UPER


# name -> (predicate over the module spec, by-construction repair of the spec, regex over the problem classes the defect
# can produce).  A failure is attributed to a class only if the spec matches AND the problem is of a kind the class explains.
KNOWN_CLASSES = {
    # asn1c prints "FATAL: Inappropriate value { 1 2 3 }", exits 0 and emits OBJECT_IDENTIFIER_t cells
    # { "not supported", 0 }: no identifier ever matches, every valid frame is rejected
    "ioc.oid-identifier.never-matches": (lambda spec: spec["idkind"] == "OID", _fix_oid, r"^valid\.[a-z]+\.rejected"),
    # OPTIONAL (pointer) open-type member: OPEN_TYPE_ber_get/oer_get compute inner_value from a NULL member pointer
    # (wild write), OPEN_TYPE_xer_get/uper_get assert(elm->flags == ATF_OPEN_TYPE)
    "opentype.optional-member.null-deref": (lambda spec: bool(spec["opt"]), _fix_opt, r"^crash"),
    # an object-set group made of ONE object ({ a }, { a | b, ..., c }) is skipped by _asn1f_foreach_unparsed
    # (case ACT_EL_VALUE: return 0): the row is missing from the table, its identifier is "unknown"
    "ioc.single-object-group.dropped": (lambda spec: 1 in _groups(spec) and not spec.get("dup_single"), _fix_single,
                                        r"^valid\.[a-z]+\.rejected"),
    # a frame without automatic tags: the open-type member has tag -1 but not ATF_ANY_TYPE, SEQUENCE_decode_ber answers
    # "Unexpected tag" for every content
    "opentype.untagged.ber-unexpected-tag": (lambda spec: _not_auto(spec) and not spec.get("skip_ber"), _fix_untagged,
                                             r"^valid\.(ber\.rejected|[a-z]+\.reber)"),
}


def _has_prim_row(spec):
    base = Module.from_json(spec["base"])
    for r in spec["rows"]:
        if base.resolve(base.lookup(r["t"])).kind not in ("SEQUENCE", "SET", "CHOICE", "SEQOF", "SETOF"):
            return True
    return False


def _fix_cleanup(spec):
    spec["no_bad_content"] = True     # oracle-level: no mismatching / mutated open-type content is fed to this module


# failure path of OPEN_TYPE_{ber,xer,uper,oer}_get: "specs = selected.type_descriptor->specifics" takes the ROW type's
# specifics as the open type's CHOICE specifics: NULL for primitive rows (crash), an enum-map pointer for ENUMERATED
# (wild memset size); only constructed rows happen to start with struct_size
KNOWN_CLASSES["opentype.failed-content.wrong-specifics"] = (
    lambda spec: _has_prim_row(spec) and not spec.get("no_bad_content"), _fix_cleanup, r"^crash")


def _fix_oer_lenient(spec):
    spec["oer_lenient"] = True        # oracle-level: no OER content longer than the selected row's fixed-length encoding


# oer_open_type_get() does not compare the inner decoder's consumed octets with the container length: an open type
# (or extension addition) holding "82 01 05" is accepted as BOOLEAN TRUE
KNOWN_CLASSES["opentype.oer.container-remainder-ignored"] = (
    lambda spec: not spec.get("oer_lenient"), _fix_oer_lenient, r"^swap\.accepted\.oer")


def problem_class(spec, pclass):
    for c, (pred, _, rx) in KNOWN_CLASSES.items():
        if pred(spec) and re.search(rx, pclass):
            return c
    return None


def classes_of(spec):
    return [c for c, (pred, _, _) in KNOWN_CLASSES.items() if pred(spec)]


def apply_known(spec, acc):
    """By-construction exclusion of listed classes: the spec is repaired so that the search continues behind them."""
    for c, (pred, fix, _) in KNOWN_CLASSES.items():
        if pred(spec) and listed(c):
            fix(spec)
            acc.excluded["known:" + c] += 1
    return spec


# ------------------------------------------------------------------ module specs
def row_cfg():
    return gen.Cfg(max_depth=2, min_types=1, max_types=12, max_members=4, recursion=False, big_sizes=False)


@st.composite
def specs(draw):
    cfg = row_cfg()
    base = draw(gen.module(cfg, name="M"))
    names = [n for n, _ in base.types]
    nrows = len(names)
    order = list(names)       # one row per type: the same type in two rows gives uncompilable C (duplicate enumerator
    #                           Frame__val_PR_T5 in the generated header) — a C10 matter, see RESTRICTIONS
    idkind = draw(st.sampled_from(["INTEGER", "INTEGER", "INTEGER", "OID"]))
    idtype = None
    if idkind == "INTEGER":
        r = draw(st.integers(0, 3))
        if r == 0:
            idtype = {"lo": 0, "hi": draw(st.sampled_from([255, 32767, 65535]))}
        pool = [v for v in INT_IDS if idtype is None or idtype["lo"] <= v <= idtype["hi"]] + list(range(6, 6 + len(order)))
        ids = draw(st.lists(st.sampled_from(sorted(set(pool))), min_size=len(order), max_size=len(order), unique=True))
    else:
        ids = [list(x) for x in draw(st.lists(st.sampled_from(OID_IDS), min_size=len(order), max_size=len(order), unique=True))]
    rows = []
    for tn, idv in zip(order, ids):
        rows.append({"t": tn, "id": idv, "crit": draw(st.integers(0, 2)),
                     "valref": draw(st.integers(0, 3)) == 0, "objref": draw(st.integers(0, 3)) == 0})
    tagdefault = base.tagdefault
    opt = draw(st.integers(0, 3)) == 0
    pre = draw(st.integers(0, 3)) == 0
    post = draw(st.sampled_from([None, None, "mand", "opt"]))
    style = draw(st.sampled_from(["none", "none", "ctx"]))
    frame_ext = draw(st.integers(0, 3)) == 0
    # asn1c's grammar has no tag in front of a class field reference ("id [0] C.&id({S})" is a parse error), so only the
    # plain members can be tagged; automatic tagging applies when nothing is tagged
    auto = tagdefault == "AUTOMATIC" and not (style == "ctx" and (pre or post))
    if not auto:
        if pre:
            style = "ctx"         # X.680 24.5: pre OPTIONAL needs a tag distinct from the identifier's
        if opt:
            post = None           # an untagged OPTIONAL open type is only legal as the last component (X.509 style)
        frame_ext = False         # asn1c refuses an untagged open type next to an extension marker ("same tag as ...")
    spec = {
        "base": base.to_json(), "tagdefault": tagdefault, "idkind": idkind, "idtype": idtype,
        "ws": draw(st.sampled_from([1, 1, 1, 2, 2, 2, 1, 2, 1, 2, 1, 0])),
        "crit": draw(st.booleans()), "set_ext": draw(st.sampled_from([None, None, "end", "mid"])),
        "rel": draw(st.sampled_from(["@", "@."])), "rows": rows, "opt": opt, "pre": pre, "post": post, "style": style,
        "modes": [draw(st.sampled_from([None, None, "IMPLICIT", "EXPLICIT"])) for _ in range(5)],
        "frame_ext": frame_ext, "idname": draw(st.sampled_from(ID_NAMES)),
        "valname": draw(st.sampled_from(VAL_NAMES)), "field": draw(st.sampled_from(["&Type", "&Value"])),
        "cls": draw(st.sampled_from(["MYCLASS", "FRAME-STRUCTURE", "S1AP-PROTOCOL-IES"])),
        "nest": draw(st.sampled_from([None, None, "seq", "seqof", "param"])),
    }
    return spec


class Model:
    """Reference model + ASN.1 text of one spec."""

    def __init__(self, spec):
        self.spec = spec
        base = Module.from_json(spec["base"])
        types = list(base.types)
        self.rows = spec["rows"]
        types.append(("Crit", CRIT))
        if spec["idkind"] == "OID":
            idt = T("OID")
        elif spec["idtype"]:
            types.append(("IdT", T("INTEGER", cons=Cons("value", [(spec["idtype"]["lo"], spec["idtype"]["hi"])]))))
            idt = T("REF", ref="IdT")
        else:
            idt = T("INTEGER")
        self.idt = idt
        mem = []
        if spec["pre"]:
            mem.append(Member("pre", T("INTEGER"), optional=True))
        mem.append(Member(spec["idname"], T(idt.kind, ref=idt.ref, flags={"field": "&id"})))
        if spec["crit"]:
            mem.append(Member("crit", T("REF", ref="Crit", flags={"field": "&crit"})))
        mem.append(Member(spec["valname"], T("OPEN", flags={"field": spec["field"]}), optional=spec["opt"]))
        if spec["post"]:
            mem.append(Member("post", T("BOOLEAN"), optional=spec["post"] == "opt"))
        if spec["style"] == "ctx":
            for i, m in enumerate(mem):
                if m.name in ("pre", "post"):
                    m.type.tag = ("CONTEXT", i, spec["modes"][i % 5])
        self.frame = T("SEQUENCE", members=mem, ext=spec["frame_ext"])
        types.append(("Frame", self.frame))
        self.pdu = "Frame"
        nest = spec["nest"]
        if nest in ("seq", "param"):
            self.outer = T("SEQUENCE", members=[Member("n", T("INTEGER")), Member("f", T("REF", ref="Frame")),
                                                Member("z", T("BOOLEAN"), optional=True)])
        elif nest == "seqof":
            self.outer = T("SEQOF", elem=T("REF", ref="Frame"))
        else:
            self.outer = None
        if self.outer is not None:
            types.append(("Outer", self.outer))
            self.pdu = "Outer"
        self.mod = Module("M", spec["tagdefault"], types)
        self.base = base
        self.text = self._render()

    # ---------------------------------------------------------- ASN.1 text
    def idtext(self, v):
        return "{ %s }" % " ".join(str(a) for a in v) if self.spec["idkind"] == "OID" else str(v)

    def _render(self):
        sp = self.spec
        cls, fld = sp["cls"], sp["field"]
        out = ["M DEFINITIONS %s TAGS ::= BEGIN" % sp["tagdefault"]]
        for n, t in self.mod.types:
            if n in ("Frame", "Outer"):
                continue
            out.append("%s ::= %s" % (n, t.render()))
        idtype = "OBJECT IDENTIFIER" if sp["idkind"] == "OID" else ("IdT" if sp["idtype"] else "INTEGER")
        fields = ["&id %s UNIQUE" % idtype] + (["&crit Crit"] if sp["crit"] else []) + [fld]
        if sp["ws"] == 2:
            syntax = " WITH SYNTAX { ID &id %sTYPE %s }" % ("CRITICALITY &crit " if sp["crit"] else "", fld)
        elif sp["ws"] == 1:
            syntax = " WITH SYNTAX { %s IDENTIFIED BY &id%s }" % (fld, " CRIT &crit" if sp["crit"] else "")
        else:
            syntax = ""
        out.append("%s ::= CLASS {\n    %s\n}%s" % (cls, ",\n    ".join(fields), syntax))
        critname = [n for n, _ in CRIT.named]
        items = []
        for i, r in enumerate(self.rows):
            idv = self.idtext(r["id"])
            if r["valref"]:
                out.append("idv%d %s ::= %s" % (i, idtype, idv))
                idv = "idv%d" % i
            c = critname[r["crit"]]
            if sp["ws"] == 2:
                obj = "{ ID %s %sTYPE %s }" % (idv, "CRITICALITY %s " % c if sp["crit"] else "", r["t"])
            elif sp["ws"] == 1:
                obj = "{ %s IDENTIFIED BY %s%s }" % (r["t"], idv, " CRIT %s" % c if sp["crit"] else "")
            else:
                obj = "{ &id %s, %s%s %s }" % (idv, "&crit %s, " % c if sp["crit"] else "", fld, r["t"])
            if r["objref"]:
                out.append("obj%d %s ::= %s" % (i, cls, obj))
                obj = "obj%d" % i
            items.append(obj)
        def group(g):
            if len(g) == 1 and sp.get("dup_single"):
                g = g * 2
            return " |\n    ".join(g)
        if sp["set_ext"] == "end" or (sp["set_ext"] == "mid" and len(items) < 2):
            body = group(items) + ",\n    ..."
        elif sp["set_ext"] == "mid":
            k = max(1, len(items) // 2)
            body = group(items[:k]) + ",\n    ...,\n    " + group(items[k:])
        else:
            body = group(items)
        out.append("Set1 %s ::= {\n    %s\n}" % (cls, body))
        param = sp["nest"] == "param"
        setref = "Set" if param else "Set1"
        ms = []
        for m in self.frame.members:
            s = m.name + " "
            f = m.type.flags.get("field")
            if f == "&id":
                s += "%s.&id({%s})" % (cls, setref)
            elif f:
                s += "%s.%s({%s}{%s%s})" % (cls, f, setref, sp["rel"], sp["idname"])
            else:
                s += m.type.render()
            if m.optional:
                s += " OPTIONAL"
            ms.append(s)
        if self.frame.ext:
            ms.append("...")
        head = "Frame {%s : Set}" % cls if param else "Frame"
        out.append("%s ::= SEQUENCE {\n    %s\n}" % (head, ",\n    ".join(ms)))
        if sp["nest"] == "seq":
            out.append("Outer ::= SEQUENCE {\n    n INTEGER,\n    f Frame,\n    z BOOLEAN OPTIONAL\n}")
        elif param:
            out.append("Outer ::= SEQUENCE {\n    n INTEGER,\n    f Frame {{Set1}},\n    z BOOLEAN OPTIONAL\n}")
        elif sp["nest"] == "seqof":
            out.append("Outer ::= SEQUENCE OF Frame")
        out.append("END")
        return "\n\n".join(out) + "\n"

    def shape(self):
        sp = self.spec
        return h(sp["tagdefault"], sp["idkind"], sp["idtype"], sp["ws"], sp["crit"], sp["set_ext"], sp["rel"], sp["opt"],
                 sp["pre"], sp["post"], sp["style"], sp["nest"], [(r["t"], r["id"]) for r in self.rows],
                 [t.render() for _, t in self.base.types])

    def rowtype(self, i):
        return T("REF", ref=self.rows[i]["t"])


# ------------------------------------------------------------------ reference encoders for frames
class Raw:
    """Open-type content given as ready-made octets (mismatch cases)."""

    def __init__(self, data):
        self.data = bytes(data)


def has_open(mod, t, seen=None):
    seen = seen if seen is not None else set()
    if t.kind == "OPEN":
        return True
    if t.kind == "REF":
        if t.ref in seen:
            return False
        seen.add(t.ref)
        return has_open(mod, mod.lookup(t.ref), seen)
    return any(has_open(mod, m.type, seen) for m in t.members) or (t.elem is not None and has_open(mod, t.elem, seen))


def ber_enc(M, t, chain, v, ch=ref_ber.CANON):
    mod = M.mod
    rt = mod.resolve(t)
    if rt.kind == "OPEN":
        i, rv = v
        inner = rv.data if isinstance(rv, Raw) else ref_ber.encode(mod, M.rowtype(i), rv, ch)
        for tag in reversed(chain):          # an open type is always tagged explicitly (X.680 31.2.7 c)
            inner = ref_ber.tlv(tag, True, inner, ch)
        return inner
    if rt.kind == "SEQUENCE" and has_open(mod, rt):
        parts = [ber_enc(M, m.type, mch, v[m.name], ch)
                 for m, mch in zip(rt.members, ref_ber.member_chains(mod, rt)) if m.name in v]
        return ref_ber.wrap(chain, True, b"".join(parts), ch)
    if rt.kind == "SEQOF" and has_open(mod, rt):
        ech = ref_ber.tagchain(mod, rt.elem)
        return ref_ber.wrap(chain, True, b"".join(ber_enc(M, rt.elem, ech, x, ch) for x in v), ch)
    return ref_ber.encode_chain(mod, t, chain, v, ch)


def ber(M, tname, v):
    t = T("REF", ref=tname)
    return ber_enc(M, t, ref_ber.tagchain(M.mod, t), v)


def per_enc(M, t, v, out):
    mod = M.mod
    rt = mod.resolve(t)
    if rt.kind == "OPEN":
        i, rv = v
        if isinstance(rv, Raw):
            b = rv.data
            ref_per.put_length_unconstrained_items(out, len(b), lambda s, c: out.put_bytes(b[s:s + c]))
            return
        inner = ref_per.Bits()
        ref_per.enc(mod, M.rowtype(i), rv, inner)
        ref_per.open_type(out, inner)             # X.691 10.2: octet-aligned-bit-field, 10.1.3: at least one octet
        return
    if rt.kind == "SEQUENCE" and has_open(mod, rt):
        if rt.ext:
            out.put(0, 1)                          # no extension additions are generated in frames
        for m in rt.members:
            if m.optional:
                out.put(1 if m.name in v else 0, 1)
        for m in rt.members:
            if m.name in v:
                per_enc(M, m.type, v[m.name], out)
        return
    if rt.kind == "SEQOF" and has_open(mod, rt):
        parts = []
        for x in v:
            o = ref_per.Bits()
            per_enc(M, rt.elem, x, o)
            parts.append(o)

        def emit(s, c):
            for o in parts[s:s + c]:
                out.extend(o)
        ref_per.enc_sized(rt.size, len(parts), out, emit)
        return
    ref_per.enc(mod, t, v, out)


def per(M, tname, v):
    out = ref_per.Bits()
    per_enc(M, T("REF", ref=tname), v, out)
    return out.to_bytes() or b"\x00"


def oer_enc(M, t, v):
    mod = M.mod
    rt = mod.resolve(t)
    if rt.kind == "OPEN":
        i, rv = v
        b = rv.data if isinstance(rv, Raw) else ref_oer.encode(mod, M.rowtype(i), rv)
        return ref_oer.length_det(len(b)) + b      # X.696 30.1: open type = length determinant + encoding
    if rt.kind == "SEQUENCE" and has_open(mod, rt):
        bits = []
        if rt.ext:
            bits.append(0)
        for m in rt.members:
            if m.optional:
                bits.append(1 if m.name in v else 0)
        out = b""
        if bits:
            while len(bits) % 8:
                bits.append(0)
            val = 0
            for b in bits:
                val = (val << 1) | b
            out += val.to_bytes(len(bits) // 8, "big")
        for m in rt.members:
            if m.name in v:
                out += oer_enc(M, m.type, v[m.name])
        return out
    if rt.kind == "SEQOF" and has_open(mod, rt):
        n = len(v)
        q = n.to_bytes(max(1, (n.bit_length() + 7) // 8), "big")
        return bytes([len(q)]) + q + b"".join(oer_enc(M, rt.elem, x) for x in v)
    return ref_oer.encode(mod, t, v)


def oer(M, tname, v):
    return oer_enc(M, T("REF", ref=tname), v)


REF_ENC = {"ber": ber, "uper": per, "oer": oer}


def ref_encode(M, syn, tname, v):
    """Reference bytes or None when the reference refuses to judge."""
    try:
        return REF_ENC[syn](M, tname, v)
    except (ref_per.RefExcluded, AssertionError, KeyError, ValueError, OverflowError):
        return None


# ------------------------------------------------------------------ values
def frame_value(M, fv, idv=None, openv=None):
    """fv = {"i": row, "v": row value, "pre": int|None, "post": bool|None, "present": bool}"""
    sp = M.spec
    row = M.rows[fv["i"]]
    v = {}
    if sp["pre"] and fv["pre"] is not None:
        v["pre"] = fv["pre"]
    idval = row["id"] if idv is None else idv
    v[sp["idname"]] = tuple(idval) if sp["idkind"] == "OID" else idval
    if sp["crit"]:
        v["crit"] = row["crit"]
    if not (sp["opt"] and not fv["present"]):
        v[sp["valname"]] = openv if openv is not None else (fv["i"], fv["v"])
    if sp["post"] == "mand" or (sp["post"] == "opt" and fv["post"] is not None):
        v["post"] = bool(fv["post"])
    return v


def pdu_value(M, x, idv=None, openv=None):
    """The PDU value; idv/openv override the FIRST frame (mismatch cases)."""
    fvs = [frame_value(M, fv, idv if k == 0 else None, openv if k == 0 else None) for k, fv in enumerate(x["frames"])]
    nest = M.spec["nest"]
    if nest is None:
        return fvs[0]
    if nest == "seqof":
        return fvs
    v = {"n": x["n"], "f": fvs[0]}
    if x["z"] is not None:
        v["z"] = x["z"]
    return v


def case_strategy(M):
    cfg = row_cfg()
    n = len(M.rows)

    def fv(i):
        return st.fixed_dictionaries({
            "i": st.just(i), "v": gen.values(M.mod, M.rowtype(i), cfg, max_len=8),
            "pre": st.none() | st.sampled_from([0, -1, 300]), "post": st.none() | st.booleans(),
            "present": st.sampled_from([True, True, True, False])})
    rowidx = st.integers(0, n - 1) if n < 3 else (st.integers(1, n - 1) | st.integers(0, n - 1))
    frame = rowidx.flatmap(fv)
    edit = st.tuples(st.sampled_from(["trunc", "flip", "set", "ins", "del", "len", "tag", "splice", "rand", "xmltag"]),
                     st.integers(0, 1 << 20), st.integers(0, 255))
    return st.fixed_dictionaries({
        "frames": st.lists(frame, min_size=1, max_size=3 if M.spec["nest"] == "seqof" else 1),
        "n": st.sampled_from([0, 1, -129, 65536]), "z": st.none() | st.booleans(),
        "mis": st.sampled_from(["none", "unknown", "swap", "swap"]), "other": frame, "unk": st.integers(0, 7),
        "mut": st.tuples(st.sampled_from(["ber", "uper", "oer", "xer"]), st.lists(edit, min_size=1, max_size=3)),
    })


def x_to_json(x):
    j = dict(x)
    j["frames"] = [dict(f, v=val_to_json(f["v"])) for f in x["frames"]]
    j["other"] = dict(x["other"], v=val_to_json(x["other"]["v"]))
    j["mut"] = [x["mut"][0], [list(e) for e in x["mut"][1]]]
    return j


def x_from_json(j):
    x = dict(j)
    x["frames"] = [dict(f, v=val_from_json(f["v"])) for f in j["frames"]]
    x["other"] = dict(j["other"], v=val_from_json(j["other"]["v"]))
    x["mut"] = (j["mut"][0], [tuple(e) for e in j["mut"][1]])
    return x


def unknown_id(M, k):
    used = [r["id"] for r in M.rows]
    if M.spec["idkind"] == "OID":
        cands = [(1, 2, 999), (2, 5, 4, 99), (0, 1), (1, 2, 3, 0), (2, 999)]
        cands = [c for c in cands if list(c) not in used]
        return cands[k % len(cands)]
    lo, hi = (M.spec["idtype"]["lo"], M.spec["idtype"]["hi"]) if M.spec["idtype"] else (-(1 << 63), (1 << 63) - 1)
    cands = [max(used) + 1, min(used) - 1, 77, 0, 9, 254, hi, lo]
    cands = [c for c in cands if lo <= c <= hi and c not in used]
    return cands[k % len(cands)]


# ------------------------------------------------------------------ the oracles
BAD_KEYS = c04.BAD_KEYS


def _rowcheck(sess, M, i, v, cache):
    """Does row type i ALONE round-trip value v (reference bytes, own decoder)?  -> dict syn -> bool, plus 'xer' bytes."""
    mod = M.mod
    t = M.rowtype(i)
    tn = M.rows[i]["t"]
    key = (tn, repr(val_to_json(v)))
    if key in cache:
        return cache[key]
    ok = {"ber": False, "uper": False, "oer": False, "xer": False}
    der = ref_ber.encode(mod, t, v)
    r = sess.cmd("rt %s %s uper" % (tn, drv.hexs(der)))
    if "inject" not in r and r.get("der0") == drv.hexs(der):
        ok["ber"] = True
        try:
            up = ref_per.encode(mod, t, v)
        except (ref_per.RefExcluded, AssertionError):
            up = None
        if up is not None and r.get("b0") == drv.hexs(up) and r.get("rc0") == "0" and r.get("d0") == "same":
            ok["uper"] = True
        r = sess.cmd("rt %s %s xer" % (tn, drv.hexs(der)))
        if r.get("rc0") == "0" and r.get("d0") == "same":
            ok["xer"] = True
        try:
            oe = ref_oer.encode(mod, t, v)
        except (ref_per.RefExcluded, AssertionError):
            oe = None
        if oe is not None:
            r = sess.cmd("dec %s boer %s" % (tn, drv.hexs(oe)))
            if r.get("rc") == "0" and r.get("consumed") == str(len(oe)) and r.get("der") == drv.hexs(der):
                ok["oer"] = True
    if len(cache) > 2000:
        cache.clear()
    cache[key] = ok
    return ok


def _dec(sess, pdu, dsyn, data, flags="x"):
    return sess.cmd("dec %s %s %s %s" % (pdu, dsyn, drv.hexs(data), flags))


DSYN = {"ber": "ber", "uper": "uper", "oer": "boer", "xer": "xer"}


def _safety(reply, probs, what):
    for k, val in reply.items():
        if k.startswith(BAD_KEYS):
            probs.append((k.split(".")[0], "%s: %s=%s in reply %s" % (what, k, val, reply["_raw"][:300])))


def _inject_plan(M, v, want=("ber", "uper", "oer")):
    """[(syntax, reference bytes)] usable to get value v into the library, best first."""
    out = []
    for syn in want:
        if syn == "ber" and M.spec.get("skip_ber"):
            continue
        data = ref_encode(M, syn, M.pdu, v)
        if data is not None:
            out.append((syn, data))
    return out


def frames_sound(sess, M, frames, cache):
    """In which syntaxes do the row types of these frames, alone, handle these values correctly?"""
    sound = {"ber": True, "uper": True, "oer": True, "xer": True}
    for f in frames:
        if M.spec["opt"] and not f["present"]:
            continue
        ok = _rowcheck(sess, M, f["i"], f["v"], cache)
        for s in sound:
            sound[s] = sound[s] and ok[s]
    return sound


def _libenc(sess, M, v, osyn, sound):
    """The library's own encoding of v in osyn (value injected through the first sound syntax that works)."""
    if not sound.get(osyn if osyn != "der" else "ber", True):
        return None
    for syn, data in _inject_plan(M, v, [s for s in ("ber", "uper", "oer") if sound[s]]):
        r = sess.cmd("tx %s %s %s %s" % (M.pdu, DSYN[syn], drv.hexs(data), osyn))
        b = r.get("b." + osyn)
        if r.get("rc") == "0" and b not in (None, "fail", "nocodec", "badsyntax"):
            return drv.unhex(b)
    return None


def check_valid(sess, M, x, acc, cache, classes):
    """Oracles (1) and (2).  Returns list of problems."""
    probs = []
    sp = M.spec
    pdu = M.pdu
    v = pdu_value(M, x)
    fr = x["frames"]
    sound = frames_sound(sess, M, fr, cache)
    if not sound["ber"]:
        acc.excluded["row-codec.ber"] += 1
        return None
    der = ber(M, pdu, v)
    refs = {"ber": der}
    for syn in ("uper", "oer"):
        if not sound[syn]:
            acc.excluded["row-codec." + syn] += 1
            continue
        refs[syn] = ref_encode(M, syn, pdu, v)
        if refs[syn] is None:
            acc.excluded["ref-excluded." + syn] += 1
    if not sound["xer"]:
        acc.excluded["row-codec.xer"] += 1
    star_done = False
    for syn in ("ber", "uper", "oer"):
        data = refs.get(syn)
        if data is None:
            continue
        if syn == "ber" and sp.get("skip_ber"):
            acc.excluded["known:opentype.untagged.ber-unexpected-tag(ber decode skipped)"] += 1
            continue
        outs = ["der"]
        if not star_done:
            outs += [o for o in ("uper", "xer") if sound[o]]
        r = sess.cmd("tx %s %s %s %s" % (pdu, DSYN[syn], drv.hexs(data), ",".join(outs)))
        if r["_status"] == "nocodec":
            acc.excluded["nocodec." + syn] += 1
            continue
        _safety(r, probs, "%s decode of the reference encoding" % syn)
        if r.get("rc") != "0" or r.get("consumed") != str(len(data)):
            probs.append(("valid.%s.rejected" % syn, "reference %s encoding %s of %s (DER %s) not decoded: %s" % (
                syn, data.hex(), pdu, der.hex(), r["_raw"][:200])))
            continue
        if r.get("der") != drv.hexs(der):
            probs.append(("valid.%s.value" % syn, "reference %s encoding %s decodes to a value whose DER is %s, expected %s" % (
                syn, data.hex(), r.get("der"), der.hex())))
            continue
        classes.append("decoded." + syn)
        for o in outs:
            b = r.get("b." + o)
            if b == "nocodec":
                acc.excluded["nocodec." + o] += 1
                continue
            if b in (None, "fail", "badsyntax"):
                probs.append(("valid.%s.encode" % o, "value decoded from %s cannot be encoded in %s: %s" % (syn, o, r["_raw"][:300])))
                continue
            enc = drv.unhex(b)
            if o == "uper":
                if refs.get("uper") is not None and enc != refs["uper"]:
                    probs.append(("valid.uper.bytes", "UPER of %s is %s, reference %s" % (pdu, enc.hex(), refs["uper"].hex())))
                elif refs.get("uper") is not None:
                    classes.append("uper.bytes-equal")
            elif o == "xer":
                pos = 0
                for f in fr:
                    if sp["opt"] and not f["present"]:
                        continue
                    pat = re.compile(rb"<" + re.escape(sp["valname"].encode()) + rb">\s*<" +
                                     re.escape(M.rows[f["i"]]["t"].encode()) + rb"[ />]")
                    m = pat.search(enc, pos)
                    if not m:
                        probs.append(("valid.xer.variant", "XER of the decoded value does not show row type %s inside <%s>: %s" % (
                            M.rows[f["i"]]["t"], sp["valname"], enc[:400])))
                        break
                    pos = m.end()
                else:
                    classes.append("xer.variant-named")
            if o == "der" and sp.get("skip_ber"):
                continue
            if r.get("rc." + o) != "0" or r.get("d." + o) != "same" or r.get("cmp." + o) != "0":
                probs.append(("valid.%s.%s" % (o, "reber" if o == "der" else "roundtrip"),
                              "%s -> %s -> decode is not the identity for %s: %s" % (syn, o, pdu, r["_raw"][:500])))
            elif o != "xer" and r.get("c." + o) != str(len(enc)):
                probs.append(("valid.%s.consumed" % o, "own %s encoding not consumed entirely: %s" % (o, r["_raw"][:300])))
        if len(outs) > 1:
            star_done = True
    return probs


def _fixed_len(M, i, syn):
    """Length in octets shared by EVERY encoding of row type i in syn, or None."""
    rt = M.mod.resolve(M.rowtype(i))
    k = rt.kind
    if syn == "uper":
        if k in ("BOOLEAN", "NULL"):
            return 1
        if k == "ENUMERATED" and not rt.ext:
            return max(1, (ref_per.bits_for_range(len(rt.named)) + 7) // 8)
        if k == "INTEGER" and rt.cons and not rt.cons.ext and rt.cons.lb() is not None and rt.cons.ub() is not None \
                and rt.cons.ub() - rt.cons.lb() < (1 << 62):
            return max(1, (ref_per.bits_for_range(rt.cons.ub() - rt.cons.lb() + 1) + 7) // 8)
    else:
        if k == "BOOLEAN":
            return 1
        if k == "NULL":
            return 0
    return None


def check_mismatch(sess, M, x, acc, cache, classes):
    """Oracle (3)."""
    probs = []
    sp = M.spec
    pdu = M.pdu
    f0 = x["frames"][0]
    if sp["opt"] and not f0["present"]:
        return None
    i = f0["i"]
    only = x.get("only") or ("ber", "uper", "oer", "xer")      # probes of known findings narrow the syntaxes
    if x["mis"] == "unknown":
        idv = unknown_id(M, x["unk"])
        v = pdu_value(M, x, idv=idv)
        for syn in ("ber", "uper", "oer"):
            if (syn == "ber" and sp.get("skip_ber")) or syn not in only:
                continue
            data = ref_encode(M, syn, pdu, v)
            if data is None:
                acc.excluded["ref-excluded." + syn] += 1
                continue
            r = _dec(sess, pdu, DSYN[syn], data)
            if r["_status"] == "nocodec":
                continue
            _safety(r, probs, "unknown identifier, " + syn)
            classes.append("unknown-id.%s.rc%s" % (syn, r.get("rc")))
            if r.get("rc") == "0":
                probs.append(("unknown-id.accepted." + syn, "identifier %s has no row in the object set but %s decoding of %s "
                              "returned RC_OK: %s" % (M.idtext(idv), syn, data.hex(), r["_raw"][:300])))
        # XER: the library's document for the valid value with the identifier body replaced
        doc = _libxer(sess, M, pdu, pdu_value(M, x), frames_sound(sess, M, x["frames"], cache)) if "xer" in only else None
        if doc:
            idn = sp["idname"].encode()
            txt = (".".join(str(a) for a in idv) if sp["idkind"] == "OID" else str(idv)).encode()
            doc2, n = re.subn(rb"<" + idn + rb">[^<]*</" + idn + rb">", b"<" + idn + b">" + txt + b"</" + idn + b">", doc, count=1)
            if n == 1:
                r = _dec(sess, pdu, "xer", doc2)
                _safety(r, probs, "unknown identifier, xer")
                classes.append("unknown-id.xer.rc%s" % r.get("rc"))
                if r.get("rc") == "0":
                    probs.append(("unknown-id.accepted.xer", "identifier %s has no row but XER %s decoded with RC_OK: %s" % (
                        M.idtext(idv), doc2[:300], r["_raw"][:300])))
        return probs
    # swap: identifier of row i, open-type content = encoding of row j's value
    o = x["other"]
    j, vj = o["i"], o["v"]
    ti, tj = M.rows[i]["t"], M.rows[j]["t"]
    if ti == tj:
        return None
    mod = M.mod
    okj = dict(_rowcheck(sess, M, j, vj, cache))
    rest = frames_sound(sess, M, x["frames"][1:], cache)      # the frames behind the first one must decode
    for syn in okj:
        okj[syn] = okj[syn] and rest[syn]
    for syn in ("ber", "uper", "oer"):
        if (syn == "ber" and sp.get("skip_ber")) or syn not in only:
            continue
        if not okj[syn]:
            acc.excluded["row-codec." + syn] += 1
            continue
        inner = {"ber": ref_ber.encode, "uper": ref_per.encode, "oer": ref_oer.encode}[syn](mod, M.rowtype(j), vj)
        data = ref_encode(M, syn, pdu, pdu_value(M, x, openv=(i, Raw(inner))))
        if data is None:
            acc.excluded["ref-excluded." + syn] += 1
            continue
        # what must happen
        must_fail = None
        if syn == "ber":
            ri = mod.resolve(M.rowtype(i))
            if ref_ber.first_tag(inner) not in ref_ber.outer_tags(mod, M.rowtype(i)) and not (ri.kind == "CHOICE" and ri.ext):
                must_fail = "the outermost tag of the content is not a tag of " + ti
        else:
            fl = _fixed_len(M, i, syn)
            if syn == "oer" and sp.get("oer_lenient") and fl is not None and fl < len(inner):
                acc.excluded["known:opentype.oer.container-remainder-ignored(longer content)"] += 1
                fl = None
            if fl is not None and fl != len(inner) and not (syn == "uper" and fl == 0):
                must_fail = "every %s encoding of %s has %d octet(s), the content has %d" % (syn, ti, fl, len(inner))
        # differential: row i's type decoding the same octets stand-alone
        alone = sess.cmd("dec %s %s %s" % (ti, DSYN[syn], drv.hexs(inner)))
        expect_der = None
        if alone["_status"] == "nocodec":
            alone_verdict = None
        elif alone.get("rc") != "0":
            alone_verdict = "reject"
        else:
            alone_verdict = None
            ad = alone.get("der")
            if syn in ("uper", "oer") and int(alone.get("consumed", 0)) < len(inner) and not (inner == b"\x00" and syn == "uper"):
                # PER/OER encodings are self-delimiting: the row type stops before the end, so the octets AS A WHOLE are
                # no encoding of it (X.691 10.2 allows less than one octet of padding, X.696 30 none)
                if syn == "oer" and sp.get("oer_lenient"):
                    acc.excluded["known:opentype.oer.container-remainder-ignored(longer content)"] += 1
                else:
                    alone_verdict = "partial"
            elif ad not in (None, "fail") and alone.get("consumed") in (str(len(inner)), "0" if inner == b"\x00" else "x"):
                if syn == "ber":
                    canon = ad == drv.hexs(inner)
                else:
                    e = sess.cmd("enc %s %s %s" % (ti, ad, "uper" if syn == "uper" else "oer"))
                    canon = e.get("uper" if syn == "uper" else "oer") == drv.hexs(inner)
                if canon:
                    alone_verdict = "accept"
                    expect_der = ber(M, pdu, pdu_value(M, x, openv=(i, Raw(drv.unhex(ad)))))
        r = _dec(sess, pdu, DSYN[syn], data)
        if r["_status"] == "nocodec":
            continue
        _safety(r, probs, "row %s identifier with row %s content, %s" % (ti, tj, syn))
        acc_ = r.get("rc") == "0"
        classes.append("swap.%s.%s.%s" % (syn, "must-fail" if must_fail else (alone_verdict or "open"), "accepted" if acc_ else "rc" + str(r.get("rc"))))
        if must_fail and acc_:
            probs.append(("swap.accepted." + syn, "identifier %s selects %s, the open type holds an encoding of %s (%s): %s; "
                          "%s decoding of %s returned RC_OK: %s" % (M.idtext(M.rows[i]["id"]), ti, tj, inner.hex(), must_fail, syn,
                                                                     data.hex(), r["_raw"][:300])))
        elif alone_verdict == "partial" and acc_:
            probs.append(("swap.accepted." + syn, "%s alone decodes only the first %s of the %d octets %s, the frame with identifier %s "
                          "accepts all of them as open-type content: %s -> %s" % (ti, alone.get("consumed"), len(inner), inner.hex(),
                                                                                  M.idtext(M.rows[i]["id"]), data.hex(), r["_raw"][:300])))
        elif alone_verdict == "reject" and acc_:
            probs.append(("swap.diff.accepted." + syn, "%s alone rejects %s (%s) but the frame with identifier %s accepts it as "
                          "open-type content: %s -> %s" % (ti, inner.hex(), alone["_raw"][:120], M.idtext(M.rows[i]["id"]), data.hex(),
                                                          r["_raw"][:300])))
        elif alone_verdict == "accept" and not must_fail:
            if not acc_ or r.get("consumed") != str(len(data)):
                probs.append(("swap.diff.rejected." + syn, "%s alone decodes %s (canonical, DER %s) but the frame with identifier %s "
                              "does not: %s -> %s" % (ti, inner.hex(), alone.get("der"), M.idtext(M.rows[i]["id"]), data.hex(),
                                                      r["_raw"][:300])))
            elif r.get("der") != drv.hexs(expect_der):
                probs.append(("swap.diff.value." + syn, "frame with identifier %s and content %s decodes to DER %s, expected %s "
                              "(content interpreted as %s)" % (M.idtext(M.rows[i]["id"]), inner.hex(), r.get("der"),
                                                               expect_der.hex(), ti)))
    # XER: splice the open-type element of row j's document into row i's document
    if M.spec["nest"] is None and "xer" in only:
        di = _libxer(sess, M, pdu, pdu_value(M, x), frames_sound(sess, M, x["frames"], cache))
        if di:
            # not well-formed: the wrapper element of the open type is closed by another name
            vn = sp["valname"].encode()
            k = di.rfind(b"</" + vn + b">")
            if k >= 0:
                doc = di[:k] + b"</x" + vn[1:] + b">" + di[k + len(vn) + 3:]
                r = _dec(sess, pdu, "xer", doc)
                _safety(r, probs, "open-type element closed by another name, xer")
                classes.append("xer.bad-close.rc%s" % r.get("rc"))
                if r.get("rc") == "0":
                    probs.append(("xer.bad-close.accepted", "the open-type element <%s> is closed by </x%s> (not well-formed) "
                                  "but XER decoding returned RC_OK: %s -> %s" % (sp["valname"], sp["valname"][1:], doc[:400],
                                                                                 r["_raw"][:300])))
        xj = dict(x, frames=[dict(o, present=True, pre=f0["pre"], post=f0["post"])])
        dj = _libxer(sess, M, pdu, pdu_value(M, xj), frames_sound(sess, M, xj["frames"], cache))
        vn = sp["valname"].encode()
        if di and dj:
            a1, a2 = di.find(b"<" + vn + b">"), di.rfind(b"</" + vn + b">")
            b1, b2 = dj.find(b"<" + vn + b">"), dj.rfind(b"</" + vn + b">")
            if min(a1, a2, b1, b2) >= 0:
                doc = di[:a1] + dj[b1:b2] + di[a2:]
                r = _dec(sess, pdu, "xer", doc)
                _safety(r, probs, "row %s identifier with row %s element, xer" % (ti, tj))
                classes.append("swap.xer.rc%s" % r.get("rc"))
                if r.get("rc") == "0":
                    probs.append(("swap.accepted.xer", "identifier selects %s but the open-type element holds <%s>; XER decode "
                                  "returned RC_OK: %s -> %s" % (ti, tj, doc[:400], r["_raw"][:300])))
    return probs


def _libxer(sess, M, pdu, v, sound):
    return _libenc(sess, M, v, "xer", sound)


def _constructed_row(M, i):
    return M.mod.resolve(M.rowtype(i)).kind in ("SEQUENCE", "SET", "CHOICE", "SEQOF", "SETOF")


def _content_offset(M, x, syn, enc):
    """Offset of the open-type content of the (only) frame inside enc, or None."""
    f0 = x["frames"][0]
    if len(x["frames"]) != 1 or (M.spec["opt"] and not f0["present"]):
        return None
    if syn == "xer":
        pos = enc.find(b"<" + M.spec["valname"].encode() + b">")
        return pos if pos >= 0 else None
    try:
        inner = {"ber": ref_ber.encode, "uper": ref_per.encode, "oer": ref_oer.encode}[syn](M.mod, M.rowtype(f0["i"]), f0["v"])
    except (ref_per.RefExcluded, AssertionError):
        return None
    if len(inner) < 2:
        return None
    pos = enc.rfind(inner)        # the last occurrence: nothing in front of the content may be touched
    return pos if pos > 0 else None


def _open_contents(M, der):
    """(row index, DER of the open-type content) for every frame inside the DER of a decoded PDU value."""
    mod = M.mod
    node = ref_ber.parse_tlv(der)
    nest = M.spec["nest"]
    if nest is None:
        frames = [node]
    elif nest == "seqof":
        frames = node.get("children", [])
    else:
        frames = node.get("children", [])[1:2]
    chains = ref_ber.member_chains(mod, M.frame)
    out = []
    for fn in frames:
        kids = list(fn.get("children", []))
        row = None
        for m, ch in zip(M.frame.members, chains):
            if not kids:
                break
            k = kids[0]
            ktag = (("UNIVERSAL", "APPLICATION", "CONTEXT", "PRIVATE")[k["cls"]], k["num"])
            if m.type.kind == "OPEN":
                if ch and ktag != ch[0]:
                    continue
                kids.pop(0)
                if row is None:
                    continue
                if ch:
                    inner = k.get("children", [])
                    if len(inner) == 1:
                        out.append((row, bytes(der[inner[0]["off"]:inner[0]["end"]])))
                else:
                    out.append((row, bytes(der[k["off"]:k["end"]])))
                continue
            if not ch or ktag != ch[0]:
                if m.optional:
                    continue
                break
            kids.pop(0)
            if m.type.flags.get("field") == "&id":
                leaf = k
                while leaf.get("children"):
                    leaf = leaf["children"][0]
                val = leaf.get("value", b"")
                for ri, r in enumerate(M.rows):
                    want = ref_ber.oid_content(r["id"]) if M.spec["idkind"] == "OID" else ref_ber.int_content(r["id"])
                    if want == val:
                        row = ri
    return out


def _row_matter(sess, M, der_hex, syn):
    """Is an instability of an accepted frame already present when the open-type content is handled by its row type alone?"""
    try:
        contents = _open_contents(M, drv.unhex(der_hex))
    except (ref_ber.TLVError, IndexError, KeyError):
        return None
    osyn = {"ber": "der", "uper": "uper", "oer": "oer", "xer": "xer"}[syn]
    for ri, content in contents:
        r = sess.cmd("tx %s ber %s %s" % (M.rows[ri]["t"], drv.hexs(content), osyn))
        if r.get("rc") != "0" or r.get("b." + osyn) in (None, "fail") or r.get("rc." + osyn) != "0" or r.get("d." + osyn) != "same":
            return True
    return False


def check_mutation(sess, M, x, acc, cache, classes):
    """Oracle (4)."""
    syn, edits = x["mut"]
    pdu = M.pdu
    if syn == "ber" and M.spec.get("skip_ber"):
        syn = "uper"
    v = pdu_value(M, x)
    sound = frames_sound(sess, M, x["frames"], cache)
    if not sound[syn]:
        acc.excluded["row-codec." + syn] += 1
        return None
    if syn == "xer":
        enc = _libxer(sess, M, pdu, v, sound)
    else:
        enc = ref_encode(M, syn, pdu, v)
    if enc is None:
        acc.excluded["no-valid-encoding." + syn] += 1
        return None
    other = None
    if any(e[0] == "splice" for e in edits):
        xo = dict(x, frames=[dict(x["other"], present=True)])
        so = frames_sound(sess, M, xo["frames"], cache)
        if so[syn]:
            other = _libxer(sess, M, pdu, pdu_value(M, xo), so) if syn == "xer" else ref_encode(M, syn, pdu, pdu_value(M, xo))
    if M.spec.get("no_bad_content"):
        # listed class opentype.failed-content.wrong-specifics: only the part behind the identifier is damaged (the selected
        # row stays the same) and only when that row is a constructed type
        pos = _content_offset(M, x, syn, enc) if _constructed_row(M, x["frames"][0]["i"]) else None
        if pos is None:
            acc.excluded["known:opentype.failed-content.wrong-specifics(mutation not confinable)"] += 1
            return None
        data = enc[:pos] + c04.mutate(enc[pos:], edits, other, syn)
        classes.append("mut.confined")
    else:
        data = c04.mutate(enc, edits, other, syn)
    r = sess.cmd("dec %s %s %s xs" % (pdu, DSYN[syn], drv.hexs(data)))
    if r["_status"] == "nocodec":
        acc.excluded["nocodec." + syn] += 1
        return None
    classes += ["mut." + syn, "mut.rc%s" % r.get("rc")] + ["edit." + e[0] for e in edits]
    # (an accepted value the encoders refuse — e.g. a GeneralizedTime string the DER encoder cannot normalise — is a row
    # codec matter, tolerated here exactly as in C04)
    probs = []
    for c, t in c04.judge(r, classes):
        if c == "unstable" and r.get("der") not in (None, "fail"):
            # value instabilities of a row type (e.g. the UPER codec dropping trailing zero bits of a BIT STRING) belong
            # to C01/C04: they are recognised by giving the decoded open-type content to the row type alone
            rm = _row_matter(sess, M, r["der"], syn)
            if rm is None or rm:
                acc.excluded["row-codec.unstable-accepted-value." + syn] += 1
                continue
        probs.append(("mut." + c, t))
    return probs


def run_case(sess, M, x, acc, cache, probe=False):
    """Evaluates one example (up to three oracle applications, each counted as an evaluation); returns the problems."""
    sp = M.spec
    f0 = x["frames"][0]
    shape = M.shape()
    allp = []
    base = ["rows.%d" % min(len(M.rows), 12), "id." + sp["idkind"] + (".constrained" if sp["idtype"] else ""),
            "ws.%d" % sp["ws"], "rel." + sp["rel"], "tags." + sp["tagdefault"] + "." + sp["style"], "nest.%s" % sp["nest"],
            "set-ext.%s" % sp["set_ext"], "kind." + M.mod.resolve(M.rowtype(f0["i"])).kind]
    if sp["opt"]:
        base.append("open.optional." + ("present" if f0["present"] else "absent"))
    if sp["crit"]:
        base.append("crit-column")
    nontriv_row = len(M.rows) >= 2 and f0["i"] != 0
    for what, fn in (("valid", check_valid), ("mismatch", check_mismatch), ("mutation", check_mutation)):
        if what == "mismatch" and x["mis"] == "none":
            continue
        if x.get("do") and what not in x["do"]:
            continue
        if what == "mismatch" and x["mis"] == "swap" and sp.get("no_bad_content") and not _constructed_row(M, f0["i"]):
            # listed class: content that the selected PRIMITIVE row type's decoder refuses is not generated
            acc.excluded["known:opentype.failed-content.wrong-specifics(swap onto a primitive row)"] += 1
            continue
        classes = list(base) + ["case." + what + ("." + x["mis"] if what == "mismatch" else "")]
        probs = fn(sess, M, x, acc, cache, classes)
        if probs is None:
            continue
        nt = None
        if what == "mismatch" or nontriv_row:
            nt = h(shape, what, val_to_json(f0["v"]), f0["i"], x["mis"] if what == "mismatch" else "",
                   x["mut"] if what == "mutation" else "", x["other"]["i"] if what == "mismatch" else "")
        acc.case(nt, classes)
        allp += probs
        if probs:
            break
    return allp


# ------------------------------------------------------------------ worker / replay
def make_replay(spec, x):
    return {"spec": spec, "x": x_to_json(x)}


def fail_key(spec, probs):
    # a failure that a (not yet listed) candidate class explains is keyed by the class: one VIOLATION per class,
    # however many modules hit it; anything else is keyed by what failed and where
    c = problem_class(spec, probs[0][0])
    if c:
        return "class:" + c
    return h(probs[0][0], spec["tagdefault"], spec["nest"], spec["style"])


def crash_site(text):
    """Where the driver died: the sanitizer's SUMMARY line without addresses (one key per crash site, not per module)."""
    for line in text.splitlines():
        if line.startswith("SUMMARY:") or "Assertion" in line or "runtime error" in line:
            return re.sub(r"0x[0-9a-f]+|==\d+==|/verif/build/work/[^/]+/", "", line)[:200]
    return text[-120:]


def summary(M, x, probs):
    return "%s\n--- module ---\n%s--- case ---\n%s\n--- known-class candidates: %s" % (
        "\n".join(p[1] for p in probs[:6]), M.text, val_repr(x_to_json(x), 900), problem_class(M.spec, probs[0][0]) or "none")


def module_flags(M):
    """every third module is built with -fwide-types (INTEGER_t identifiers take another path through the object table)"""
    import zlib
    return ("-fcompound-names", "-fwide-types") if zlib.crc32(M.text.encode()) % 3 == 0 else drv.DEFAULT_FLAGS


def build_module(M):
    fl = module_flags(M)
    try:
        return drv.ModuleBuild(M.text, flags=fl, driver_src="c18_driver.c")
    except drv.CompileError as e:
        if "-fwide-types" in fl and e.stage == "asn1c" and "Unsupported value" in e.output:
            # with -fwide-types asn1c refuses INTEGER identifiers outside 0..32767 (a diagnosed limitation): the module
            # is built with the default options instead, and counted
            M.wide_refused = True
            return drv.ModuleBuild(M.text, flags=drv.DEFAULT_FLAGS, driver_src="c18_driver.c")
        raise


class Session(pipeline.Session):
    """Restarted transparently after a crash (the crash itself is raised to the caller)."""


def drop_bad_rows(spec, acc, bad=()):
    """Row types asn1c or the C compiler refuse on their own (generator/C10 matters) are removed from the object set;
    returns a new spec or None."""
    import shutil
    base = Module.from_json(spec["base"])
    bad = set(bad)
    for name, _ in base.types if not bad else []:
        d = drv.mkwork("c18row")
        try:
            rc, _out = drv.run_asn1c(base.subset([name]).render(), d)
            if rc != 0:
                bad.add(name)
        finally:
            shutil.rmtree(d, ignore_errors=True)
    if not bad:
        return None
    keep = [n for n, _ in base.types if not ({x for x, _ in base.subset([n]).types} & bad)]
    rows = [dict(r) for r in spec["rows"] if r["t"] in keep]
    acc.extra["row_types_refused_by_asn1c"] += len(spec["rows"]) - len(rows)
    if not rows:
        return None
    s2 = dict(spec, rows=rows)
    s2["base"] = Module(base.name, base.tagdefault, [(n, t) for n, t in base.types if n in keep]).to_json()
    return s2


def _first_for_key(rundir, key):
    """True for exactly one worker per run and failure key (marker file): the others skip the costly minimisation."""
    if not rundir:
        return True
    try:
        os.close(os.open(os.path.join(rundir, "min-" + h(key)), os.O_CREAT | os.O_EXCL | os.O_WRONLY))
        return True
    except OSError:
        return False


def worker(spec, wseed, nvalues, rundir=None):
    t0 = time.time()
    acc = Acc()
    spec = apply_known(spec, acc)
    M = Model(spec)
    mb = None
    try:
        mb = build_module(M)
    except drv.CompileError as e:
        err = e
        names = {n for n, _ in Module.from_json(spec["base"]).types}
        if spec["ws"] != 0 and (e.stage == "asn1c" or e.stage[3:-2] in names):
            s2 = drop_bad_rows(spec, acc, [e.stage[3:-2]] if e.stage != "asn1c" else ())
            if s2 is not None:
                spec, M = s2, Model(s2)
                try:
                    mb = build_module(M)
                except drv.CompileError as e2:
                    err = e2
    if mb is None:
        e = err
        stage = "asn1c" if e.stage == "asn1c" else "cc"
        why = "no-with-syntax" if spec["ws"] == 0 and stage == "asn1c" else "other"
        acc.extra["modules_rejected.%s.%s" % (stage, why)] += 1
        if why == "other":
            acc.notes.append("rejected at %s rc=%s: %s || %s" % (e.stage, e.rc, e.output[-400:], M.text[:1500]))
        return acc
    acc.extra["modules"] += 1
    if getattr(M, "wide_refused", False):
        acc.extra["wide_types_build_refused_by_asn1c(identifier outside 0..32767; default options used)"] += 1
    if "FATAL" in mb.asn1c_output:
        acc.extra["modules_with_FATAL_but_exit0"] += 1
    try:
        sess = Session(mb, timeout=25)
        cache = {}
        hung = []

        def body(x):
            if hung:
                raise hung[0]
            try:
                probs = run_case(sess, M, x, acc, cache)
            except drv.DriverCrash as e:
                f = Fail(fail_key(spec, [("crash",)]) if problem_class(spec, "crash") else h("crash", crash_site(str(e))),
                         "driver crashed/hung\n%s\n--- module ---\n%s--- case ---\n%s\n--- last commands ---\n%s" % (
                             str(e)[-2500:], M.text, val_repr(x_to_json(x), 900), "\n".join(c[:300] for c in e.history[-4:])),
                         make_replay(spec, x))
                # a crash/hang costs a process restart (or a full timeout) per run, a class-keyed failure needs no
                # shrinking at all: do not let the shrinker repeat them
                hung.append(f)
                raise f
            if probs:
                f = Fail(fail_key(spec, probs), summary(M, x, probs), make_replay(spec, x))
                if f.key.startswith("class:"):
                    hung.append(f)
                raise f
            if acc.evaluations % 97 == 1:
                f0 = x["frames"][0]
                acc.sample({"frame": M.text[M.text.find("Frame"):][:300], "row": "%s ::= %s" % (
                    M.rows[f0["i"]]["t"], M.mod.lookup(M.rows[f0["i"]]["t"]).render()[:160]), "id": M.idtext(M.rows[f0["i"]]["id"]),
                    "value": val_repr(f0["v"], 120), "mismatch": x["mis"]})
        f = pipeline.run_given(case_strategy(M), body, nvalues, wseed)
        if f is not None:
            if f.key == "flaky":
                acc.notes.append(f.summary[:500])
            else:
                if not f.key.startswith("class:") and _first_for_key(rundir, f.key):
                    try:
                        f = minimise(f)
                    except Exception as e:      # minimisation is best effort
                        acc.notes.append("minimise failed: %r" % (e,))
                acc.violation(f.key, "[%s] %s" % (f.key, f.summary), f.replay)
        rc, err = sess.close()
        if rc != 0 or "ERROR" in err:
            acc.notes.append("driver exit status %s: %s" % (rc, err[-800:]))
            acc.extra["driver_nonzero_exit"] += 1
            if "LeakSanitizer" in err:
                acc.extra["lsan_reports"] += 1
    finally:
        mb.cleanup()
    acc.timing = (M.shape(), round(time.time() - t0, 1))
    return acc


def eval_case(spec, x):
    """Fresh build, fresh process.  Returns (class or None, text)."""
    M = Model(spec)
    try:
        mb = build_module(M)
    except drv.CompileError as e:
        return None, "module no longer compiles: %s" % str(e)[-500:]
    try:
        d = mb.driver(timeout=25)
        try:
            probs = run_case(d, M, x, Acc(), {}, probe=True)
        except drv.DriverCrash as e:
            return "crash", str(e)[-2500:]
        finally:
            d.kill()
    finally:
        mb.cleanup()
    if not probs:
        return None, "property holds on this case"
    return probs[0][0], "\n".join(p[1] for p in probs[:6])


def replay_case(case):
    if case.get("fuzz"):
        return replay_fuzz(case)
    spec = case["spec"]
    x = x_from_json(case["x"])
    if not case.get("probe"):
        a = Acc()
        spec = apply_known(dict(spec, rows=[dict(r) for r in spec["rows"]]), a)
    cls, text = eval_case(spec, x)
    return cls is not None, text


def minimise(f, budget=8):
    """Module-level reduction: fewer rows, no nesting, no extra members — each candidate re-run from scratch."""
    spec = f.replay["spec"]
    x = x_from_json(f.replay["x"])
    cls, _ = eval_case(spec, x)
    if cls is None:
        return f

    def clone(s):
        s2 = dict(s)
        s2["rows"] = [dict(r) for r in s["rows"]]
        return s2

    def cands(s, x):
        need = sorted({fr["i"] for fr in x["frames"][:1]} | ({x["other"]["i"]} if x["mis"] == "swap" else set()))
        if len(s["rows"]) > len(need) + (1 if 0 not in need else 0):
            keep = sorted(set(need) | {0})
            s2 = clone(s)
            s2["rows"] = [s["rows"][k] for k in keep]
            remap = {k: n for n, k in enumerate(keep)}
            x2 = dict(x, frames=[dict(fr, i=remap[fr["i"]]) for fr in x["frames"][:1]],
                      other=dict(x["other"], i=remap.get(x["other"]["i"], 0)) if x["other"]["i"] in remap else
                      dict(x["frames"][0], i=remap[x["frames"][0]["i"]]))
            yield "rows", s2, x2
        if s["nest"] is not None:
            yield "nest", dict(clone(s), nest=None), dict(x, frames=x["frames"][:1])
        for k, val in (("pre", False), ("post", None), ("crit", False), ("frame_ext", False), ("set_ext", None)):
            if s[k]:
                s2 = dict(clone(s), **{k: val})
                if s2["tagdefault"] == "AUTOMATIC" or s2["style"] == "ctx" or True:
                    yield k, s2, x
        if len(x["mut"][1]) > 1:
            yield "edits", s, dict(x, mut=(x["mut"][0], x["mut"][1][:1]))
    log = []
    progress = True
    while progress and budget > 0:
        progress = False
        for name, s2, x2 in cands(spec, x):
            if budget <= 0:
                break
            budget -= 1
            try:
                c2, _ = eval_case(s2, x2)
            except Exception:
                continue
            if c2 == cls:
                spec, x, progress = s2, x2, True
                log.append(name)
                break
    if not log:
        return f
    cls2, text = eval_case(spec, x)
    if cls2 is None:
        return f
    M = Model(spec)
    return Fail(f.key, "%s\n--- module ---\n%s--- case ---\n%s\n[reduced by: %s]" % (text, M.text, val_repr(x_to_json(x), 900), " ".join(log)),
                make_replay(spec, x))


# ------------------------------------------------------------------ libFuzzer campaigns on class/object-set modules (thorough)
class _Text:
    def __init__(self, text):
        self.text = text

    def render(self):
        return self.text


def fuzz_worker(spec, seed, seconds, nseeds):
    import shutil
    import subprocess
    from hypothesis import given, settings, seed as hseed, HealthCheck, Phase
    acc = Acc()
    spec = apply_known(spec, acc)
    M = Model(spec)
    work = drv.mkwork("c18fuzz")
    try:
        try:
            mb = build_module(M)
        except drv.CompileError:
            acc.extra["fuzz_modules_unbuildable"] += 1
            return acc
        try:
            d = mb.driver(timeout=25)
            names = d.cmd("list")["_flags"][1:]
            got = []

            @hseed(seed)
            @settings(max_examples=nseeds, database=None, deadline=None, suppress_health_check=list(HealthCheck),
                      phases=[Phase.generate])
            @given(case_strategy(M))
            def collect(x):
                got.append(x)
            collect()
            corpus = os.path.join(work, "corpus")
            arts = os.path.join(work, "artifacts") + "/"
            os.makedirs(corpus)
            os.makedirs(arts)
            ti = names.index(M.pdu)
            k = 0
            for x in got:
                v = pdu_value(M, x)
                encs = [(si, ref_encode(M, syn, M.pdu, v)) for si, syn in enumerate(("ber", "uper", "oer"))]
                try:
                    r = d.cmd("tx %s ber %s xer" % (M.pdu, drv.hexs(ber(M, M.pdu, v))))
                    if r.get("b.xer") not in (None, "fail", "nocodec"):
                        encs.append((3, drv.unhex(r["b.xer"])))
                except drv.DriverCrash:
                    d.kill()
                    d = mb.driver(timeout=25)
                for si, data in encs:
                    if data is None or len(data) > 4000:
                        continue
                    with open(os.path.join(corpus, "s%05d" % k), "wb") as f:
                        f.write(data + bytes([ti, si]))
                    k += 1
            d.kill()
        finally:
            mb.cleanup()
        exe = c04.fuzz_build(_Text(M.text), work)
        if exe is None:
            acc.extra["fuzz_modules_unbuildable"] += 1
            return acc
        acc.extra["fuzz_seed_inputs"] += k
        env = dict(os.environ)
        env.update(drv.SAN_ENV)
        cmd = [exe, corpus, "-max_total_time=%d" % seconds, "-seed=%d" % (seed % (1 << 31) or 1), "-max_len=2048",
               "-timeout=10", "-rss_limit_mb=3000", "-artifact_prefix=" + arts, "-print_final_stats=1", "-verbosity=0"]
        r = subprocess.run(cmd, stdout=subprocess.PIPE, stderr=subprocess.STDOUT, env=env, timeout=seconds + 180)
        out = r.stdout.decode(errors="replace")
        execs = 0
        for line in out.splitlines():
            if "stat::number_of_executed_units" in line:
                execs = int(line.split()[-1])
        acc.evaluations += execs
        acc.extra["fuzz_executions"] += execs
        acc.extra["fuzz_campaigns"] += 1
        for fn in sorted(os.listdir(corpus)):
            with open(os.path.join(corpus, fn), "rb") as f:
                acc.nontrivial.add(h("fuzz", f.read()))
        for fn in sorted(os.listdir(arts)):
            if fn.startswith(("crash-", "leak-")):
                with open(os.path.join(arts, fn), "rb") as f:
                    data = f.read()
                tail = out[-3000:]
                acc.violation(h("fuzz", M.shape(), tail[-300:]),
                              "libFuzzer artefact %s (%d bytes: encoding + [type index, syntax]) on\n%s\n%s" % (fn, len(data), M.text, tail),
                              {"fuzz": True, "spec": spec, "artifact": data.hex()})
            elif fn.startswith("timeout-"):
                acc.notes.append("libFuzzer timeout artefact (load noise unless it reproduces): " + fn)
        acc.sample({"fuzz_module": M.text[M.text.find("Set1"):][:300], "executions": execs, "seed_inputs": k})
    finally:
        shutil.rmtree(work, ignore_errors=True)
    return acc


def replay_fuzz(case):
    import shutil
    import subprocess
    M = Model(case["spec"])
    work = drv.mkwork("c18fuzzreplay")
    try:
        exe = c04.fuzz_build(_Text(M.text), work)
        art = os.path.join(work, "artifact")
        with open(art, "wb") as f:
            f.write(bytes.fromhex(case["artifact"]))
        env = dict(os.environ)
        env.update(drv.SAN_ENV)
        r = subprocess.run([exe, art, "-timeout=30"], stdout=subprocess.PIPE, stderr=subprocess.STDOUT, env=env, timeout=180)
        return r.returncode != 0, r.stdout.decode(errors="replace")[-3000:]
    finally:
        shutil.rmtree(work, ignore_errors=True)


# ------------------------------------------------------------------ probes of the known-finding candidates
def _probe_spec(**over):
    rows_t = [("T0", T("INTEGER")), ("T1", T("BOOLEAN")),
              ("T2", T("SEQUENCE", members=[Member("a", T("INTEGER")), Member("b", T("BOOLEAN"), optional=True)])),
              ("T3", T("OCTETSTRING"))]
    spec = {"base": Module("M", "AUTOMATIC", rows_t).to_json(), "tagdefault": "AUTOMATIC", "idkind": "INTEGER", "idtype": None,
            "ws": 1, "crit": False, "set_ext": None, "rel": "@", "opt": False, "pre": False, "post": None, "style": "none",
            "modes": [None] * 5, "frame_ext": False, "idname": "id", "valname": "val", "field": "&Type", "cls": "MYCLASS",
            "nest": None,
            "rows": [{"t": n, "id": 10 + i, "crit": 0, "valref": False, "objref": False} for i, (n, _) in enumerate(rows_t)]}
    spec.update(over)
    return spec


def _probe_x(i, v, **over):
    f = {"i": i, "v": v, "pre": None, "post": None, "present": True}
    x = {"frames": [f], "n": 0, "z": None, "mis": "none", "other": dict(f), "unk": 0, "mut": ("ber", [("trunc", 0, 0)]),
         "do": ["valid"]}
    x.update(over)
    return x


def probes():
    oid_rows = [{"t": "T%d" % i, "id": list(OID_IDS[i]), "crit": 0, "valref": False, "objref": False} for i in range(4)]
    other = {"i": 0, "v": 5, "pre": None, "post": None, "present": True}
    other3 = {"i": 3, "v": b"abc", "pre": None, "post": None, "present": True}
    return {
        "ioc.oid-identifier.never-matches": (
            "object set identified by OBJECT IDENTIFIER values: asn1c prints FATAL, exits 0 and emits { \"not supported\", 0 } "
            "cells; every valid frame is rejected", _probe_spec(idkind="OID", rows=oid_rows), _probe_x(1, True)),
        "opentype.optional-member.null-deref": (
            "OPTIONAL open-type member: SEGV (BER/OER) or assertion (XER/UPER) while decoding a valid frame",
            _probe_spec(opt=True), _probe_x(1, True)),
        "ioc.single-object-group.dropped": (
            "an object set written with a single object has an empty table: the valid frame is rejected",
            _probe_spec(base=Module("M", "AUTOMATIC", [("T0", T("INTEGER"))]).to_json(),
                        rows=[{"t": "T0", "id": 10, "crit": 0, "valref": False, "objref": False}]), _probe_x(0, 5)),
        "opentype.untagged.ber-unexpected-tag": (
            "EXPLICIT TAGS module, untagged open type: BER decoding of every frame fails with 'Unexpected tag'",
            _probe_spec(tagdefault="EXPLICIT", base=Module("M", "EXPLICIT", Module.from_json(_probe_spec()["base"]).types).to_json()),
            _probe_x(1, True)),
        "opentype.failed-content.wrong-specifics": (
            "identifier of the BOOLEAN row, content = encoding of an INTEGER: the failure path of OPEN_TYPE_ber_get dereferences "
            "the row type's (NULL) specifics", _probe_spec(),
            _probe_x(1, True, mis="swap", other=other, do=["mismatch"], only=["ber"])),
        "opentype.oer.container-remainder-ignored": (
            "identifier of the BOOLEAN row, OER content 03 61 62 63: accepted as BOOLEAN, three octets ignored", _probe_spec(),
            _probe_x(1, True, mis="swap", other=other3, do=["mismatch"], only=["oer"])),
    }


def write_probes():
    import json
    d = os.path.join(os.path.dirname(os.path.dirname(os.path.abspath(__file__))), "replays", PID, "known")
    os.makedirs(d, exist_ok=True)
    for cls, (text, spec, x) in probes().items():
        case = make_replay(spec, x)
        case["probe"] = True
        with open(os.path.join(d, cls + ".json"), "w") as f:
            json.dump({"property": PID, "summary": "probe of known-finding candidate %s: %s" % (cls, text), "case": case},
                      f, indent=1, sort_keys=True)
        print("wrote", os.path.join(d, cls + ".json"))


# What the generator leaves out because asn1c refuses it or emits C that does not build (none of these is a C18 matter;
# measured while the generator was written, see the probing notes in the check's report)
RESTRICTIONS = {
    "class without WITH SYNTAX": "generated with probability 1/12; asn1c refuses the object set ('contains no objects', "
                                 "asn1fix_cws.c: \"Can't process classes without WITH SYNTAX just yet\"): counted at run time as "
                                 "modules_rejected.asn1c.no-with-syntax",
    "tag on a class-field member (id [0] C.&id({S}))": "not generated: grammar parse error \"unexpected '['\" (7 of 24 modules "
                                                       "of the first generator version); only the plain members carry tags",
    "same type in two rows": "not generated: duplicate enumerator Frame__val_PR_T5 in the generated header (7 of 24 modules "
                             "of the first generator version) - a C10 matter",
    "built-in type as a row ({ INTEGER IDENTIFIED BY 3 })": "not generated: truncated initializer (DESIGN.md section 7 #7, C10)",
    "extension marker in a frame whose open type is untagged": "not generated: asn1c refuses it ('component val has the same "
                                                               "tag as component ...')",
    "row types asn1c or clang refuse on their own": "removed from the set at run time and counted (row_types_refused_by_asn1c)",
    "relation forms": "@id and @.id only (emit_member_type_selector refuses outer-level references such as @..id)",
}


def draw_specs(seed, n):
    return pipeline.draw_modules(seed, n, None, specs())


def main(argv):
    a = runner.parse_args(argv)
    if a.replay:
        build.warm(("asan",))
        return runner.do_replay(PID, replay_case, a.replay)
    chk = Check(PID, "exploration", RULE, [
        "the frame encoders of this file (open type field, SEQUENCE/SEQUENCE OF around it) are part of the trusted reference",
        "frame-level expectations are asserted only where the row type alone passes the same test with the reference bytes",
        "RC_WMORE counts as 'decoder failed' for mismatching content (the statement asks for a clean failure, not for a code)",
        "OER: only decoding is checked (OPEN_TYPE_oer.c defines no encoder)",
        "row types are named types only (a built-in type as an object-set row does not compile: property C10)"])
    for c in [c for c in os.environ.get(ENV_ASSUME, "").split(",") if c]:
        KNOWN.known.setdefault((PID, c), "class=%s (assumed listed through %s: test only)" % (c, ENV_ASSUME))
        chk.assumptions.append("TEST ONLY: class %s treated as listed through %s" % (c, ENV_ASSUME))
    nm = a.modules or chk.pick(220, 700)
    nv = a.values or chk.pick(130, 300)
    variants = ("asan", "fuzz") if chk.thorough else ("asan",)
    _, _, bt = build.warm(variants)
    chk.extra_coverage["build_s"] = round(bt, 1)
    t1 = time.time()
    runner.regression_and_probes(chk, replay_case)
    chk.extra_coverage["replays_and_probes_s"] = round(time.time() - t1, 1)
    t1 = time.time()
    sp = draw_specs(chk.seed, nm)
    chk.extra_coverage["draw_modules_s"] = round(time.time() - t1, 1)
    chk.extra_coverage["modules_drawn"] = len(sp)
    chk.extra_coverage["generator_restrictions"] = RESTRICTIONS
    rundir = drv.mkwork("c18run")
    args = [(s, chk.seed * 7919 + i, nv, rundir) for i, s in enumerate(sp)]
    t1 = time.time()
    try:
        for kind, r in run_pool(worker, args, a.workers):
            if kind == "ok":
                chk.acc.merge(r)
            else:
                chk.error("worker failed: " + r[-3000:])
    finally:
        import shutil
        shutil.rmtree(rundir, ignore_errors=True)
    chk.extra_coverage["pool_s"] = round(time.time() - t1, 1)
    if chk.thorough:
        # coverage-guided campaigns over every type and syntax of class/object-set modules, seeded with reference frame
        # encodings.  Arbitrary bytes cannot be kept away from a listed crash class, and a crash the generated cases
        # already reported would only be reported again: the stage runs when neither is the case.
        t1 = time.time()
        if listed("opentype.failed-content.wrong-specifics"):
            chk.acc.excluded["known:opentype.failed-content.wrong-specifics(fuzz stage skipped)"] += 1
        elif chk.acc.violations:
            chk.acc.notes.append("fuzz stage skipped: the generated cases already violate the property")
        else:
            fsecs = int(os.environ.get("VERIF_C18_FUZZ_SECONDS", "420"))
            fspecs = [s for s in draw_specs(chk.seed + 1, 40) if s["ws"] != 0][:16]
            for kind, r in run_pool(fuzz_worker, [(s, chk.seed * 31 + i, fsecs, 40) for i, s in enumerate(fspecs)], a.workers):
                if kind == "ok":
                    chk.acc.merge(r)
                else:
                    chk.error("fuzz worker failed: " + r[-3000:])
        chk.extra_coverage["fuzz_s"] = round(time.time() - t1, 1)
    ex = chk.acc.extra
    rej = sum(v for k, v in ex.items() if k.startswith("modules_rejected"))
    chk.extra_coverage["modules_rejected_fraction"] = round(rej / max(1, len(sp)), 3)
    if rej - ex.get("modules_rejected.asn1c.no-with-syntax", 0) > len(sp) * 0.15:
        chk.error("generator problem: %d of %d modules were refused for a reason other than the documented "
                  "'no WITH SYNTAX' limitation" % (rej - ex.get("modules_rejected.asn1c.no-with-syntax", 0), len(sp)))
    if len(chk.acc.violations) > 8:
        # one defect can surface in many modules: confirm and print the first eight distinct keys, count the rest
        chk.acc.notes.append("%d further candidate violations with other keys were not confirmed/printed" % (len(chk.acc.violations) - 8))
        chk.acc.extra["violations_not_printed"] += len(chk.acc.violations) - 8
        chk.acc.violations = chk.acc.violations[:8]
    t1 = time.time()
    runner.confirm(chk, replay_case)
    chk.extra_coverage["confirm_s"] = round(time.time() - t1, 1)
    return chk.finish(nm * 20, 50)


if __name__ == "__main__":
    sys.exit(main(sys.argv[1:]))
