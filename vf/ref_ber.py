"""Reference BER/DER encoder written from X.690 (and X.680 tagging rules).

Shares no code or tables with asn1c.  `encode(mod, t, v)` gives DER; passing a
Chooser other than the canonical one yields alternative *valid* BER encodings
of the same abstract value (the variant family of property C03).
"""
import math
import struct

from .model import UNIV, STR_KINDS, OPAQUE_KINDS, TIME_KINDS, KM_STRINGS

CLS = {"UNIVERSAL": 0, "APPLICATION": 1, "CONTEXT": 2, "PRIVATE": 3}


# ------------------------------------------------------------------ choosers
class Canon:
    """Always the canonical (DER) decision."""
    variant = False

    def pick(self, label, n):
        return 0


class Chooser:
    """Decisions come from a callable draw(n) -> int in [0, n); every non-zero decision is recorded."""
    variant = True

    def __init__(self, draw, enabled=None):
        self.draw = draw
        self.used = {}
        self.enabled = enabled  # None = everything, else a set of labels
        self.suppress = set()   # labels temporarily forced to the canonical decision
        self.force = {}         # label -> decision, temporarily forced (recorded as used)
        self.no_mixed_chain = False   # known finding: tag chains must be all-definite or all-indefinite
        self.suppressed = 0

    def pick(self, label, n):
        if n <= 1 or (self.enabled is not None and label not in self.enabled):
            return 0
        if label in self.force:
            r = min(self.force[label], n - 1)
            if r:
                self.used[label] = self.used.get(label, 0) + 1
            return r
        if label in self.suppress:
            self.suppressed += 1
            return 0
        r = self.draw(n)
        if r:
            self.used[label] = self.used.get(label, 0) + 1
        return r


CANON = Canon()


# ------------------------------------------------------------------ tags (X.680 §31)
def tag_mode(mod, t):
    cls, num, mode = t.tag
    if mode:
        return mode
    return "EXPLICIT" if mod.tagdefault == "EXPLICIT" else "IMPLICIT"


def apply_tag(tag, mode, chain):
    """chain: list of (cls, num) outermost first; [] for an untagged CHOICE / open type."""
    if mode == "EXPLICIT" or not chain:
        return [tag] + chain
    return [tag] + chain[1:]


def auto_tagged(mod, t):
    """X.680 §25.3/§29.2: automatic tagging applies when no root component carries a tag."""
    if mod.tagdefault != "AUTOMATIC" or t.kind not in ("SEQUENCE", "SET", "CHOICE"):
        return False
    return not any(m.type.tag for m in t.members)


def tagchain(mod, t, _depth=0):
    """Tag chain of a type, outermost first (empty for an untagged CHOICE)."""
    if _depth > 200:
        raise ValueError("reference loop in tagchain")
    if t.kind == "REF":
        base = tagchain(mod, mod.lookup(t.ref), _depth + 1)
    elif t.kind == "CHOICE" or t.kind == "OPEN":
        base = []
    else:
        base = [("UNIVERSAL", UNIV[t.kind])]
    if t.tag:
        base = apply_tag((t.tag[0], t.tag[1]), tag_mode(mod, t), base)
    return base


def member_chains(mod, t):
    """Tag chain for every member of a SEQUENCE/SET/CHOICE, applying automatic tagging."""
    auto = auto_tagged(mod, t)
    out = []
    for i, m in enumerate(t.members):
        ch = tagchain(mod, m.type)
        if auto:
            ch = apply_tag(("CONTEXT", i), "IMPLICIT", ch)
        out.append(ch)
    return out


def outer_tags(mod, t, chain=None):
    """Set of tags that may appear outermost in an encoding of t."""
    ch = tagchain(mod, t) if chain is None else chain
    if ch:
        return {ch[0]}
    rt = mod.resolve(t)
    out = set()
    for m, mch in zip(rt.members, member_chains(mod, rt)):
        out |= outer_tags(mod, m.type, mch)
    return out


def tag_key(tag):
    return (CLS[tag[0]], tag[1])


# ------------------------------------------------------------------ TLV primitives
def enc_tag(tag, constructed):
    cls, num = tag
    b0 = (CLS[cls] << 6) | (0x20 if constructed else 0)
    if num < 31:
        return bytes([b0 | num])
    out = [num & 0x7f]
    num >>= 7
    while num:
        out.append(0x80 | (num & 0x7f))
        num >>= 7
    return bytes([b0 | 31] + out[::-1])


def enc_len(n, pad=0):
    if n < 128 and pad == 0:
        return bytes([n])
    b = n.to_bytes(max(1, (n.bit_length() + 7) // 8), "big")
    b = b"\x00" * pad + b
    return bytes([0x80 | len(b)]) + b


def tlv(tag, constructed, content, ch, label="len"):
    """One TLV; the chooser may select indefinite (constructed only) or padded long length."""
    if constructed:
        r = ch.pick("indef", 3)
        if r == 1:
            return enc_tag(tag, True) + b"\x80" + content + b"\x00\x00"
        if r == 2:
            return enc_tag(tag, True) + enc_len(len(content), 1 + ch.pick("lenpad", 3)) + content
        return enc_tag(tag, True) + enc_len(len(content)) + content
    r = ch.pick("longlen", 4)
    if r == 1:
        return enc_tag(tag, False) + enc_len(len(content), 1 + ch.pick("lenpad", 3)) + content
    return enc_tag(tag, False) + enc_len(len(content)) + content


def wrap(chain, constructed, content, ch, is_string=False):
    """Apply a tag chain (outermost first) around content whose innermost TLV has the P/C bit given."""
    if not chain:
        return content
    uniform = len(chain) >= 2 and getattr(ch, "no_mixed_chain", False)
    all_indef = False
    if uniform:
        # known finding ber.tagchain.mixed-definite-indefinite: the chain is either all definite or,
        # when the innermost TLV is constructed, all indefinite
        if is_string and constructed and getattr(ch, "no_indef_chain_on_strings", False):
            ch.suppressed_indef_string_chain = getattr(ch, "suppressed_indef_string_chain", 0) + 1
            all_indef = False
        else:
            all_indef = bool(constructed) and ch.pick("indef-chain", 2) == 1
        if all_indef:
            ch.force["indef"] = 1
        else:
            ch.suppress.add("indef")
    try:
        out = tlv(chain[-1], constructed, content, ch)
        for tag in reversed(chain[:-1]):
            out = tlv(tag, True, out, ch)
    finally:
        if uniform:
            ch.suppress.discard("indef")
            ch.force.pop("indef", None)
    return out


# ------------------------------------------------------------------ primitive contents
def int_content(v):
    n = 1
    while not (-(1 << (8 * n - 1)) <= v < (1 << (8 * n - 1))):
        n += 1
    return v.to_bytes(n, "big", signed=True)


def base128(v):
    out = [v & 0x7f]
    v >>= 7
    while v:
        out.append(0x80 | (v & 0x7f))
        v >>= 7
    return bytes(out[::-1])


def oid_content(arcs, relative=False):
    if relative:
        return b"".join(base128(a) for a in arcs)
    return base128(arcs[0] * 40 + arcs[1]) + b"".join(base128(a) for a in arcs[2:])


def real_content(d, ch=CANON):
    """X.690 §8.5, DER restrictions §11.3: base 2, mantissa odd (or zero), minimal octets."""
    if d != d:
        return b"\x42"
    if d == 0:
        return b"\x43" if math.copysign(1, d) < 0 else b""
    if math.isinf(d):
        return b"\x40" if d > 0 else b"\x41"
    sign = 1 if d < 0 else 0
    m, e = math.frexp(abs(d))          # abs(d) = m * 2**e, 0.5 <= m < 1
    mant = int(m * (1 << 53))          # exact: doubles have 53 significant bits
    exp = e - 53
    while mant and mant % 2 == 0:
        mant >>= 1
        exp += 1
    base_bits, scale = 0, 0
    r = ch.pick("real-form", 4)
    if r == 1:      # even mantissa: shift left by 1..3, lower the exponent (valid BER, not DER)
        k = 1 + ch.pick("real-shift", 3)
        mant <<= k
        exp -= k
    elif r == 2:    # binary scaling factor F (2 bits)
        scale = 1 + ch.pick("real-scale", 3)
        # value = S * N * 2^F * B^E ; keep N integer: use N = mant, exponent reduced by F
        exp -= scale
    elif r == 3:    # base 8 or 16 when the exponent allows, else stay at base 2
        if exp % 3 == 0 and ch.pick("real-base", 2) == 0:
            base_bits, exp = 1, exp // 3
        elif exp % 4 == 0:
            base_bits, exp = 2, exp // 4
    eb = int_content(exp)
    if len(eb) <= 3:
        first = 0x80 | (sign << 6) | (base_bits << 4) | (scale << 2) | (len(eb) - 1)
        head = bytes([first]) + eb
    else:
        first = 0x80 | (sign << 6) | (base_bits << 4) | (scale << 2) | 3
        head = bytes([first, len(eb)]) + eb
    mb = mant.to_bytes(max(1, (mant.bit_length() + 7) // 8), "big")
    return head + mb


def str_octets(kind, v):
    if kind == "UTF8String":
        return v.encode("utf-8", "surrogatepass")
    w = KM_STRINGS[kind]
    if w == 1:
        return bytes(ord(c) for c in v)
    if w == 2:
        return b"".join(struct.pack(">H", ord(c)) for c in v)
    return b"".join(struct.pack(">I", ord(c)) for c in v)


def bits_content(v, named):
    data, nbits = v
    if named:  # X.690 §11.2.2: trailing zero bits removed when a NamedBitList is present
        while nbits > 0 and not (data[(nbits - 1) // 8] >> (7 - (nbits - 1) % 8)) & 1:
            nbits -= 1
    nbytes = (nbits + 7) // 8
    data = bytearray(data[:nbytes])
    unused = nbytes * 8 - nbits
    if unused and data:
        data[-1] &= (0xff << unused) & 0xff
    return bytes([unused]) + bytes(data)


def _segments(kind_tag, content, ch, is_bits, depth):
    """Constructed string encoding (X.690 §8.7.3/§8.21.6): the body of the constructed TLV."""
    if is_bits:
        unused, data = content[0], content[1:]
    else:
        unused, data = 0, content
    n = 1 + ch.pick("segcount", 3)
    if len(data) < n:
        n = max(1, len(data)) if len(data) else 1
    cuts = [len(data) * i // n for i in range(n + 1)]
    out = b""
    for i in range(n):
        seg = data[cuts[i]:cuts[i + 1]]
        if is_bits:
            seg = bytes([unused if i == n - 1 else 0]) + seg
        if depth < 2 and ch.pick("segnest", 4) == 1:
            out += tlv(kind_tag, True, _segments(kind_tag, seg, ch, is_bits, depth + 1), ch)
        else:
            out += tlv(kind_tag, False, seg, ch)
    return out


def string_tlv_body(kind, content, ch):
    """Returns (constructed, body) for a string-like type."""
    if ch.pick("constructed-string", 3) == 1:
        is_bits = kind == "BITSTRING"
        seg_tag = ("UNIVERSAL", 3 if is_bits else 4)
        return True, _segments(seg_tag, content, ch, is_bits, 0)
    return False, content


# ------------------------------------------------------------------ the encoder
def default_equal(mod, mt, a, b):
    return a == b and type(a) == type(b)


UNKNOWN_EXT_TLVS = [
    bytes.fromhex("df8f7f0101"),            # [PRIVATE 2047] primitive, 1 octet
    bytes.fromhex("ff8f7e03020100"),        # [PRIVATE 2046] constructed { INTEGER 0 }
    bytes.fromhex("ff8f7d800201050000"),    # [PRIVATE 2045] constructed indefinite { INTEGER 5 }
    bytes.fromhex("bf8f7c00"),              # [CONTEXT 1916] constructed, empty
]


def body(mod, t, v, ch):
    """(constructed, content octets) of the base (untagged, dereferenced) type; for CHOICE the
    complete encoding of the chosen alternative with constructed=None."""
    k = t.kind
    if k == "BOOLEAN":
        if v:
            r = ch.pick("bool-true", 3)
            return False, (b"\xff", b"\x01", b"\x80")[r]
        return False, b"\x00"
    if k in ("INTEGER", "ENUMERATED"):
        return False, int_content(v)
    if k == "NULL":
        return False, b""
    if k == "REAL":
        return False, real_content(v, ch)
    if k == "OID":
        return False, oid_content(v)
    if k == "RELOID":
        return False, oid_content(v, True)
    if k == "BITSTRING":
        return string_tlv_body(k, bits_content(v, bool(t.named)), ch)
    if k in OPAQUE_KINDS:
        return string_tlv_body(k, bytes(v), ch)
    if k in STR_KINDS:
        return string_tlv_body(k, str_octets(k, v), ch)
    if k in TIME_KINDS:
        return string_tlv_body(k, v.encode("ascii"), ch)
    if k in ("SEQUENCE", "SET"):
        parts = []
        chains = member_chains(mod, t)
        for m, mch in zip(t.members, chains):
            if m.name not in v:
                continue
            mv = v[m.name]
            if m.has_default and default_equal(mod, m.type, mv, m.default):
                if ch.pick("default-present", 3) != 1:
                    continue
            parts.append((m, mch, encode_chain(mod, m.type, mch, mv, ch)))
        if k == "SET":
            # X.690 §10.3 + NOTE: canonical order by the tag actually present
            parts.sort(key=lambda p: tag_key(first_tag(p[2])))
            if ch.pick("set-permute", 2) == 1 and len(parts) > 1:
                parts = _permute(parts, ch)
        out = b"".join(p[2] for p in parts)
        if t.ext and ch.variant:
            # unknown extension additions at the insertion point = after the last known addition
            # (generated types have the marker after the root, nothing follows the additions)
            if k == "SEQUENCE" or True:
                n = ch.pick("unknown-ext", 4)
                if n:
                    extra = b"".join(UNKNOWN_EXT_TLVS[(n + i) % len(UNKNOWN_EXT_TLVS)] for i in range(1 + n % 2))
                    out += extra
        return True, out
    if k in ("SEQOF", "SETOF"):
        ech = tagchain(mod, t.elem)
        parts = [encode_chain(mod, t.elem, ech, x, ch) for x in v]
        if k == "SETOF":
            # X.690 §11.6: ascending order, shorter padded with trailing zero octets
            mx = max([len(p) for p in parts] or [0])
            parts.sort(key=lambda p: p + b"\x00" * (mx - len(p)))
            if ch.pick("setof-permute", 2) == 1 and len(parts) > 1:
                parts = _permute(parts, ch)
        return True, b"".join(parts)
    if k == "CHOICE":
        name, av = v
        for m, mch in zip(t.members, member_chains(mod, t)):
            if m.name == name:
                return None, encode_chain(mod, m.type, mch, av, ch)
        raise ValueError("no alternative " + name)
    raise ValueError("ref_ber: unsupported kind " + k)


def _permute(parts, ch):
    parts = list(parts)
    out = []
    while parts:
        out.append(parts.pop(ch.pick("perm-index", len(parts)) if len(parts) > 1 else 0))
    return out


def first_tag(enc):
    """(cls, num) of the first TLV in enc."""
    b0 = enc[0]
    cls = ("UNIVERSAL", "APPLICATION", "CONTEXT", "PRIVATE")[b0 >> 6]
    num = b0 & 31
    if num == 31:
        num, i = 0, 1
        while True:
            num = (num << 7) | (enc[i] & 0x7f)
            if not enc[i] & 0x80:
                break
            i += 1
    return (cls, num)


def encode_chain(mod, t, chain, v, ch):
    rt = mod.resolve(t)
    constructed, content = body(mod, rt, v, ch)
    if constructed is None:       # CHOICE: content is already a complete TLV
        if not chain:
            return content
        out = content
        uniform = len(chain) >= 2 and getattr(ch, "no_mixed_chain", False)
        if uniform:
            if ch.pick("indef-chain", 2) == 1:
                ch.force["indef"] = 1
            else:
                ch.suppress.add("indef")
        try:
            for tag in reversed(chain):
                out = tlv(tag, True, out, ch)
        finally:
            if uniform:
                ch.suppress.discard("indef")
                ch.force.pop("indef", None)
        return out
    from .model import STR_KINDS
    from .model import OPAQUE_KINDS, TIME_KINDS
    return wrap(chain, constructed, content, ch,
                is_string=rt.kind in STR_KINDS or rt.kind in OPAQUE_KINDS or rt.kind in TIME_KINDS or rt.kind == "BITSTRING")


def encode(mod, t, v, ch=CANON):
    return encode_chain(mod, t, tagchain(mod, t), v, ch)


# ------------------------------------------------------------------ strict TLV parser (C20, mutators)
class TLVError(Exception):
    pass


def parse_tlv(buf, off=0, depth=0):
    """Returns dict(off, cls, constructed, num, hlen, length(None=indefinite), children|value, end)."""
    if depth > 200:
        raise TLVError("too deep")
    start = off
    if off >= len(buf):
        raise TLVError("eof in tag")
    b0 = buf[off]
    off += 1
    num = b0 & 31
    if num == 31:
        num = 0
        while True:
            if off >= len(buf):
                raise TLVError("eof in tag")
            c = buf[off]
            off += 1
            num = (num << 7) | (c & 0x7f)
            if not c & 0x80:
                break
    if off >= len(buf):
        raise TLVError("eof in length")
    l0 = buf[off]
    off += 1
    constructed = bool(b0 & 0x20)
    if l0 < 128:
        length = l0
    elif l0 == 0x80:
        length = None
        if not constructed:
            raise TLVError("indefinite primitive")
    else:
        k = l0 & 0x7f
        if off + k > len(buf):
            raise TLVError("eof in length")
        length = int.from_bytes(buf[off:off + k], "big")
        off += k
    node = {"off": start, "cls": b0 >> 6, "constructed": constructed, "num": num, "hlen": off - start,
            "length": length}
    if constructed:
        kids = []
        if length is None:
            while True:
                if off + 2 <= len(buf) and buf[off] == 0 and buf[off + 1] == 0:
                    off += 2
                    break
                kid = parse_tlv(buf, off, depth + 1)
                kids.append(kid)
                off = kid["end"]
        else:
            end = off + length
            if end > len(buf):
                raise TLVError("content beyond buffer")
            while off < end:
                kid = parse_tlv(buf, off, depth + 1)
                kids.append(kid)
                off = kid["end"]
            if off != end:
                raise TLVError("child overruns parent")
        node["children"] = kids
    else:
        if off + length > len(buf):
            raise TLVError("content beyond buffer")
        node["value"] = bytes(buf[off:off + length])
        off += length
    node["end"] = off
    return node
