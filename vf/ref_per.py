"""Reference unaligned PER encoder (canonical), written from X.691 (08/2015); no code or table shared
with asn1c.  `encode(mod, t, v)` returns the complete encoding (padded to octets, one zero octet if empty).

Raises RefExcluded for what the reference refuses to judge (see DESIGN.md appendix A.2)."""
from .model import KM_STRINGS, STR_KINDS, OPAQUE_KINDS, TIME_KINDS, NUMERIC_ALPHA, PRINTABLE_ALPHA
from . import ref_ber


class RefExcluded(Exception):
    pass


class Bits:
    def __init__(self):
        self.v = 0
        self.n = 0

    def put(self, value, nbits):
        if nbits == 0:
            return
        assert 0 <= value < (1 << nbits), (value, nbits)
        self.v = (self.v << nbits) | value
        self.n += nbits

    def put_bytes(self, b):
        if b:
            self.v = (self.v << (8 * len(b))) | int.from_bytes(b, "big")
            self.n += 8 * len(b)

    def extend(self, other):
        if other.n:
            self.v = (self.v << other.n) | other.v
            self.n += other.n

    def to_bytes(self):
        pad = (-self.n) % 8
        return ((self.v << pad).to_bytes((self.n + pad) // 8, "big")) if self.n else b""


# ------------------------------------------------------------------ §11 building blocks
def bits_for_range(rng):
    """Number of bits of a constrained whole number with `rng` values (unaligned variant, §11.5.7)."""
    return 0 if rng <= 1 else (rng - 1).bit_length()


def put_constrained(out, v, lb, ub):
    out.put(v - lb, bits_for_range(ub - lb + 1))


def put_length_unconstrained_items(out, n, emit):
    """§11.9.3.5-8: length determinant for n items with 16K fragmentation; emit(start, count) writes items."""
    done = 0
    while True:
        rest = n - done
        if rest < 128:
            out.put(rest, 8)               # 0xxxxxxx
            emit(done, rest)
            return
        if rest < 16384:
            out.put(0x8000 | rest, 16)     # 10xxxxxx xxxxxxxx
            emit(done, rest)
            return
        m = min(rest // 16384, 4)
        out.put(0xC0 | m, 8)               # 11000mmm
        emit(done, m * 16384)
        done += m * 16384
        # after a fragment another length follows (possibly zero)


def put_length(out, n, lb, ub, emit):
    """Length determinant with bounds (None = unbounded): constrained form when ub < 64K (§11.9.4.1)."""
    if ub is not None and ub < 65536:
        if lb == ub:
            emit(0, n)
            return
        put_constrained(out, n, lb, ub)
        emit(0, n)
        return
    put_length_unconstrained_items(out, n, emit)


def uint_octets(v):
    return v.to_bytes(max(1, (v.bit_length() + 7) // 8), "big")


def put_semi_constrained(out, v, lb):
    b = uint_octets(v - lb)
    put_length_unconstrained_items(out, len(b), lambda s, c: out.put_bytes(b[s:s + c]))


def put_unconstrained_int(out, v):
    b = ref_ber.int_content(v)
    put_length_unconstrained_items(out, len(b), lambda s, c: out.put_bytes(b[s:s + c]))


def put_normally_small(out, v):
    """§11.6 normally small non-negative whole number."""
    if v <= 63:
        out.put(v, 7)          # 0 + 6 bits
    else:
        out.put(1, 1)
        put_semi_constrained(out, v, 0)


def put_normally_small_length(out, n):
    """§11.9.3.4: n >= 1."""
    if n <= 64:
        out.put(n - 1, 7)      # 0 + 6 bits
    else:
        out.put(1, 1)
        put_length_unconstrained_items(out, n, lambda s, c: None)


def open_type(out, inner):
    """§11.2: an open type = the complete encoding of the inner value, length-prefixed in octets."""
    b = inner.to_bytes() or b"\x00"
    put_length_unconstrained_items(out, len(b), lambda s, c: out.put_bytes(b[s:s + c]))


# ------------------------------------------------------------------ constraints visible to PER
def size_bounds(size):
    """(ext, lb, ub) of a SIZE constraint; ub None = unbounded."""
    if size is None:
        return False, 0, None
    return size.ext, size.lb() or 0, size.ub()


def size_in_root(size, n):
    return size is None or size.contains_root(n)


def alphabet_of(rt):
    """Effective permitted alphabet (sorted code points) or None for 'whole BMP/Universal type'."""
    k = rt.kind
    if rt.alpha is not None and not rt.alpha.ext:      # an extensible FROM is not PER-visible (§10.3.x)
        return sorted({c for lo, hi in rt.alpha.ranges for c in range(lo, hi + 1)})
    if k == "NumericString":
        return sorted(ord(c) for c in NUMERIC_ALPHA)
    if k == "PrintableString":
        return sorted(ord(c) for c in PRINTABLE_ALPHA)
    if k == "IA5String":
        return list(range(128))
    if k in ("VisibleString", "ISO646String", "UTCTime", "GeneralizedTime"):
        return list(range(32, 127))
    return None


def char_bits(rt):
    """(bits per character, mapping function code point -> number)."""
    alpha = alphabet_of(rt)
    if alpha is None:
        b = 16 if rt.kind == "BMPString" else 32
        return b, (lambda c: c)
    n = len(alpha)
    b = 0 if n <= 1 else (n - 1).bit_length()
    if alpha[-1] <= (1 << b) - 1:           # §30.5.4: characters are sent as their own value
        return b, (lambda c: c)
    index = {c: i for i, c in enumerate(alpha)}
    return b, (lambda c: index[c])


# ------------------------------------------------------------------ the encoder
def enc(mod, t, v, out, ch=ref_ber.CANON):
    rt = mod.resolve(t)
    k = rt.kind
    if k == "BOOLEAN":
        out.put(1 if v else 0, 1)
    elif k == "NULL":
        pass
    elif k == "INTEGER":
        enc_integer(rt, v, out)
    elif k == "ENUMERATED":
        root = sorted(x for _, x in rt.named)
        if rt.ext:
            if v in root:
                out.put(0, 1)
                put_constrained(out, root.index(v), 0, len(root) - 1)
            else:
                out.put(1, 1)
                adds = [x for _, x in rt.ext_named]
                put_normally_small(out, adds.index(v))
        else:
            put_constrained(out, root.index(v), 0, len(root) - 1)
    elif k == "REAL":
        b = ref_ber.real_content(v)
        put_length_unconstrained_items(out, len(b), lambda s, c: out.put_bytes(b[s:s + c]))
    elif k == "BITSTRING":
        data, nbits = v
        if rt.named:
            raise RefExcluded("named-bit BIT STRING")
        val = int.from_bytes(data, "big") >> (8 * len(data) - nbits) if nbits else 0

        def emit(s, c):
            if c:
                out.put((val >> (nbits - s - c)) & ((1 << c) - 1), c)
        enc_sized(rt.size, nbits, out, emit)
    elif k == "OCTETSTRING":
        enc_sized(rt.size, len(v), out, lambda s, c: out.put_bytes(v[s:s + c]))
    elif k in KM_STRINGS or k in TIME_KINDS:
        b, f = char_bits(rt)
        codes = [f(ord(c)) for c in v]

        def emit(s, c):
            for x in codes[s:s + c]:
                out.put(x, b)
        enc_sized(rt.size if k in KM_STRINGS else None, len(codes), out, emit)
    elif k == "UTF8String" or k in OPAQUE_KINDS:
        b = ref_ber.str_octets(k, v) if k == "UTF8String" else bytes(v)
        put_length_unconstrained_items(out, len(b), lambda s, c: out.put_bytes(b[s:s + c]))
    elif k in ("OID", "RELOID"):
        b = ref_ber.oid_content(v, k == "RELOID")
        put_length_unconstrained_items(out, len(b), lambda s, c: out.put_bytes(b[s:s + c]))
    elif k == "SEQUENCE":
        enc_sequence(mod, rt, v, out, ch)
    elif k == "SET":
        raise RefExcluded("SET (asn1c has no PER codec for it)")
    elif k == "CHOICE":
        enc_choice(mod, rt, v, out, ch)
    elif k in ("SEQOF", "SETOF"):
        parts = []
        for x in v:
            o = Bits()
            enc(mod, rt.elem, x, o, ch)
            parts.append(o)
        if k == "SETOF" and len(parts) > 1:
            # canonical PER (X.691 §22? via X.690 §11.6 analogue): sort by encodings padded to octets
            keyed = sorted(parts, key=lambda o: o.to_bytes())
            if any(a.to_bytes() == b.to_bytes() and (a.n != b.n or a.v != b.v) for a, b in zip(keyed, keyed[1:])):
                raise RefExcluded("SET OF elements equal after padding")
            mx = max(len(o.to_bytes()) for o in parts)
            parts = sorted(parts, key=lambda o: o.to_bytes() + b"\x00" * (mx - len(o.to_bytes())))
            if ch.pick("setof-permute", 2) == 1:
                parts = ref_ber._permute(parts, ch)      # BASIC-PER: any order is a valid encoding

        def emit(s, c):
            for o in parts[s:s + c]:
                out.extend(o)
        enc_sized(rt.size, len(parts), out, emit)
    else:
        raise RefExcluded("kind " + k)


def _in_root_range(c, v):
    """X.691 10.x/13.1/16.6: 'within the range of the extension root' - the effective constraint is the range
    lb..ub of the root, holes of a union are not PER-visible."""
    lb, ub = c.lb(), c.ub()
    return (lb is None or v >= lb) and (ub is None or v <= ub)


def enc_sized(size, n, out, emit):
    ext, lb, ub = size_bounds(size)
    if ext:
        if _in_root_range(size, n):
            out.put(0, 1)
        else:
            out.put(1, 1)
            put_length_unconstrained_items(out, n, emit)
            return
    put_length(out, n, lb, ub, emit)


def enc_integer(rt, v, out):
    c = rt.cons
    if c is None:
        put_unconstrained_int(out, v)
        return
    if c.ext:
        if _in_root_range(c, v):
            out.put(0, 1)
        else:
            out.put(1, 1)
            put_unconstrained_int(out, v)
            return
    lb, ub = c.lb(), c.ub()
    if lb is not None and ub is not None:
        put_constrained(out, v, lb, ub)
    elif lb is not None:
        put_semi_constrained(out, v, lb)
    else:
        put_unconstrained_int(out, v)


def enc_sequence(mod, rt, v, out, ch=ref_ber.CANON):
    root = [m for m in rt.members if not m.ext]
    adds = [m for m in rt.members if m.ext]

    def present(m):
        if m.name not in v:
            return False
        if m.has_default and v[m.name] == m.default and type(v[m.name]) == type(m.default):
            # canonical: a DEFAULT value is never sent (§19.5); BASIC-PER leaves it to the sender
            return ch.pick("default-present", 3) == 1
        return True
    pres = {m.name: present(m) for m in rt.members}
    present = lambda m: pres[m.name]
    adds_present = [present(m) for m in adds]
    # additions of a later version of the type, unknown to the decoder (X.691 19.9): must be skipped
    unknown = []
    if rt.ext and ch.pick("per-unknown-ext", 4) == 1:
        for i in range(1 + ch.pick("per-unknown-ext-count", 3)):
            unknown.append(bytes((0xA1 + 17 * i + j) & 0xff for j in range(1 + ch.pick("per-unknown-ext-len", 4))))
    if rt.ext:
        out.put(1 if any(adds_present) or unknown else 0, 1)
    for m in root:
        if m.optional or m.has_default:
            out.put(1 if present(m) else 0, 1)
    for m in root:
        if m.optional or m.has_default:
            if not present(m):
                continue
        enc(mod, m.type, v[m.name], out, ch)
    if rt.ext and (any(adds_present) or unknown):
        put_normally_small_length(out, len(adds) + len(unknown))
        for p in adds_present + [True] * len(unknown):
            out.put(1 if p else 0, 1)
        for m, p in zip(adds, adds_present):
            if p:
                inner = Bits()
                enc(mod, m.type, v[m.name], inner, ch)
                open_type(out, inner)
        for b in unknown:
            inner = Bits()
            for octet in b:
                inner.put(octet, 8)
            open_type(out, inner)


def choice_order(mod, rt, members):
    """Canonical order of alternatives: by (smallest) outermost tag (§23.2 / X.680 §8.6)."""
    chains = dict(zip([m.name for m in rt.members], ref_ber.member_chains(mod, rt)))
    keyed = []
    for m in members:
        tags = ref_ber.outer_tags(mod, m.type, chains[m.name])
        keyed.append((min(ref_ber.tag_key(tg) for tg in tags), m))
    keyed.sort(key=lambda p: p[0])
    return [m for _, m in keyed]


def enc_choice(mod, rt, v, out, ch=ref_ber.CANON):
    name, av = v
    root = choice_order(mod, rt, [m for m in rt.members if not m.ext])
    adds = [m for m in rt.members if m.ext]
    sel = [m for m in rt.members if m.name == name][0]
    if rt.ext:
        out.put(1 if sel.ext else 0, 1)
    if not sel.ext:
        put_constrained(out, [m.name for m in root].index(name), 0, len(root) - 1)
        enc(mod, sel.type, av, out, ch)
    else:
        if [m.name for m in choice_order(mod, rt, adds)] != [m.name for m in adds]:
            # X.680 requires the tags of extension addition alternatives to ascend in canonical order, so that
            # definition order and canonical order coincide; a type that breaks the rule has no defined index
            raise RefExcluded("CHOICE additions not in canonical tag order (outside X.680)")
        put_normally_small(out, [m.name for m in adds].index(name))
        inner = Bits()
        enc(mod, sel.type, av, inner, ch)
        open_type(out, inner)


def encode(mod, t, v, ch=ref_ber.CANON):
    out = Bits()
    enc(mod, t, v, out, ch)
    return out.to_bytes() or b"\x00"
