"""Compile a generated module with the asn1c built from /repo, link the generic driver, talk to it."""
import glob
import os
import select
import shutil
import subprocess
import tempfile
from concurrent.futures import ThreadPoolExecutor

from . import build

WORK_ROOT = os.path.join(build.BUILD_ROOT, "work")
WRAP = ["-Wl,--wrap=malloc", "-Wl,--wrap=calloc", "-Wl,--wrap=realloc", "-Wl,--wrap=free"]
DEFAULT_FLAGS = ("-fcompound-names",)


class CompileError(Exception):
    def __init__(self, stage, rc, output):
        Exception.__init__(self, "%s failed (%s): %s" % (stage, rc, output[-3000:]))
        self.stage, self.rc, self.output = stage, rc, output


class DriverCrash(Exception):
    def __init__(self, why, stderr, history):
        Exception.__init__(self, "%s\n%s" % (why, stderr[-6000:]))
        self.why, self.stderr, self.history = why, stderr, history


def mkwork(prefix="m"):
    os.makedirs(WORK_ROOT, exist_ok=True)
    return tempfile.mkdtemp(prefix=prefix + "-", dir=WORK_ROOT)


def run_asn1c(text_or_files, outdir, flags=DEFAULT_FLAGS, extra=("-pdu=all",), timeout=120, exe=None):
    """Run asn1c; returns (returncode, output).  returncode < 0 means killed by a signal."""
    exe = exe or build.asn1c_binary()
    if isinstance(text_or_files, str):
        src = os.path.join(outdir, "m.asn1")
        with open(src, "w") as f:
            f.write(text_or_files)
        files = [src]
    else:
        files = list(text_or_files)
    gen = os.path.join(outdir, "gen")
    os.makedirs(gen, exist_ok=True)
    cmd = [exe, "-S", os.path.join(build.REPO, "skeletons"), "-D", gen] + list(extra) + list(flags) + files
    try:
        r = subprocess.run(cmd, stdout=subprocess.PIPE, stderr=subprocess.STDOUT, timeout=timeout)
    except subprocess.TimeoutExpired as e:
        return -999, "TIMEOUT " + (e.stdout or b"").decode(errors="replace")
    return r.returncode, r.stdout.decode(errors="replace")


def generated_sources(gen):
    """The .c files asn1c *generated* (copied skeleton files are removed)."""
    skel = set(os.listdir(os.path.join(build.REPO, "skeletons")))
    out = []
    for p in sorted(glob.glob(os.path.join(gen, "*"))):
        b = os.path.basename(p)
        if b in skel or b.startswith("Makefile") or b.endswith(".mk"):
            os.unlink(p)
            continue
        if b.endswith(".c"):
            out.append(p)
    return out


class ModuleBuild:
    """asn1c + clang + link of one driver binary for one module text."""

    def __init__(self, text, flags=DEFAULT_FLAGS, variant="asan", driver_src="driver.c", extra_objs=(),
                 extra_cflags=(), keep=False, link_flags=(), wrap=True):
        self.text = text
        self.wrap = wrap          # additive (C19): wrap=False links without the allocation ledger (it is not thread-safe)
        self.flags = tuple(flags)
        self.variant = variant
        self.dir = mkwork()
        self.keep = keep
        self.exe = None
        try:
            self._build(driver_src, extra_objs, extra_cflags, link_flags)
        except Exception:
            self.cleanup()
            raise

    def _build(self, driver_src, extra_objs, extra_cflags, link_flags):
        rc, out = run_asn1c(self.text, self.dir, self.flags)
        self.asn1c_output = out
        if rc != 0:
            raise CompileError("asn1c", rc, out)
        gen = os.path.join(self.dir, "gen")
        srcs = generated_sources(gen)
        cflags = build.VARIANT_FLAGS[self.variant] + ["-w", build.HOOK_DEFINE, "-I" + gen,
                                                      "-I" + os.path.join(build.REPO, "skeletons")] + list(extra_cflags)
        objs = []

        def cc(s):
            o = s[:-2] + ".o"
            r = subprocess.run([build.CLANG] + cflags + ["-c", s, "-o", o], stdout=subprocess.PIPE,
                               stderr=subprocess.STDOUT)
            if r.returncode != 0:
                raise CompileError("cc " + os.path.basename(s), r.returncode, r.stdout.decode(errors="replace"))
            return o
        with ThreadPoolExecutor(max_workers=4) as ex:
            objs = list(ex.map(cc, srcs))
        lib = build.skel_lib(self.variant)
        drv = build.helper_obj(driver_src, self.variant)
        aw = [build.helper_obj("allocwrap.c", self.variant)] if self.wrap else []
        self.exe = os.path.join(self.dir, "driver")
        cmd = [build.CLANG] + build.VARIANT_FLAGS[self.variant] + (WRAP if self.wrap else []) + list(link_flags) + \
            [drv] + aw + list(extra_objs) + objs + [lib, "-lm", "-o", self.exe]
        r = subprocess.run(cmd, stdout=subprocess.PIPE, stderr=subprocess.STDOUT)
        if r.returncode != 0:
            raise CompileError("link", r.returncode, r.stdout.decode(errors="replace"))
        # objects are not needed any more
        for o in objs:
            try:
                os.unlink(o)
            except OSError:
                pass

    def driver(self, **kw):
        return Driver(self.exe, self.dir, **kw)

    def cleanup(self):
        if not self.keep:
            shutil.rmtree(self.dir, ignore_errors=True)

    def __enter__(self):
        return self

    def __exit__(self, *a):
        self.cleanup()


SAN_ENV = {
    "ASAN_OPTIONS": "detect_leaks=1:allocator_may_return_null=1:detect_stack_use_after_return=0:"
                    "malloc_context_size=12:handle_abort=1",
    "UBSAN_OPTIONS": "print_stacktrace=1:halt_on_error=1",
    "LSAN_OPTIONS": "exitcode=23",
}


class Driver:
    """One running driver process.  cmd() sends a line and parses the 'k=v' reply into a dict."""

    def __init__(self, exe, workdir, timeout=60, env=None, rlimits=None):
        self.exe = exe
        self.timeout = timeout
        self.history = []
        self.errpath = os.path.join(workdir, "stderr.%d.%d" % (os.getpid(), id(self) & 0xffff))
        self.errf = open(self.errpath, "wb")
        e = dict(os.environ)
        e.update(SAN_ENV)
        if env:
            e.update(env)
        pre = None
        if rlimits:
            import resource

            def pre():
                for k, v in rlimits.items():
                    resource.setrlimit(k, (v, v))
        self.p = subprocess.Popen([exe], stdin=subprocess.PIPE, stdout=subprocess.PIPE, stderr=self.errf,
                                  env=e, preexec_fn=pre, bufsize=0)
        self.buf = b""

    def stderr_text(self):
        try:
            self.errf.flush()
            with open(self.errpath, "rb") as f:
                return f.read().decode(errors="replace")
        except OSError:
            return ""

    def _readline(self):
        while b"\n" not in self.buf:
            r, _, _ = select.select([self.p.stdout], [], [], self.timeout)
            if not r:
                self.p.kill()
                self.p.wait()
                raise DriverCrash("hang: no reply within %ds" % self.timeout, self.stderr_text(), list(self.history))
            chunk = os.read(self.p.stdout.fileno(), 1 << 16)
            if not chunk:
                rc = self.p.wait()
                raise DriverCrash("driver died (status %s)" % rc, self.stderr_text(), list(self.history))
            self.buf += chunk
        line, self.buf = self.buf.split(b"\n", 1)
        return line.decode()

    def cmd(self, line):
        self.history.append(line)
        if len(self.history) > 50:
            del self.history[0]
        try:
            self.p.stdin.write(line.encode() + b"\n")
        except (BrokenPipeError, OSError):
            rc = self.p.wait()
            raise DriverCrash("driver died (status %s)" % rc, self.stderr_text(), list(self.history))
        reply = self._readline()
        return parse_reply(reply)

    def close(self):
        """Ask the driver to quit; returns (exit status, stderr) so that LSan reports are seen."""
        if self.p.poll() is None:
            try:
                self.p.stdin.write(b"quit\n")
                self.p.stdin.close()
            except (BrokenPipeError, OSError):
                pass
            try:
                self.p.wait(timeout=60)
            except subprocess.TimeoutExpired:
                self.p.kill()
                self.p.wait()
        err = self.stderr_text()
        self.errf.close()
        return self.p.returncode, err

    def kill(self):
        if self.p.poll() is None:
            self.p.kill()
            self.p.wait()
        self.errf.close()


def parse_reply(reply):
    d = {"_raw": reply if len(reply) < 2000 else reply[:2000] + "..."}
    toks = reply.split(" ")
    d["_status"] = toks[0] if toks else ""
    for t in toks:
        if "=" in t:
            k, v = t.split("=", 1)
            d[k] = v
        else:
            d.setdefault("_flags", []).append(t)
    return d


def hexs(b):
    return b.hex() if b else "-"


def unhex(s):
    return b"" if s in ("-", "", None) else bytes.fromhex(s)
