/* link with -Wl,--wrap=malloc,--wrap=calloc,--wrap=realloc,--wrap=free */
#include <stdlib.h>
#include <errno.h>
#include <malloc.h>
#include "allocwrap.h"
void *__real_malloc(size_t);
void *__real_calloc(size_t, size_t);
void *__real_realloc(void *, size_t);
void __real_free(void *);
long aw_live, aw_allocs, aw_fail_at = -1, aw_fired;
size_t aw_cur_bytes, aw_peak_bytes;
size_t aw_max_req;          /* additive (C15): largest single request seen, whether or not it succeeded */
static int armed;
static void note_req(size_t n) { if(n > aw_max_req) aw_max_req = n; }
void aw_arm(long fail_at) { armed = 1; aw_allocs = 0; aw_fail_at = fail_at; aw_fired = 0; aw_peak_bytes = aw_cur_bytes; }
void aw_disarm(void) { armed = 0; aw_fail_at = -1; }
static int should_fail(void) {
    if(!armed) return 0;
    long k = aw_allocs++;
    if(aw_fail_at >= 0 && k == aw_fail_at) { aw_fired++; errno = ENOMEM; return 1; }
    return 0;
}
static void acct_add(void *p) {
    if(!p) return;
    aw_live++;
    aw_cur_bytes += malloc_usable_size(p);
    if(aw_cur_bytes > aw_peak_bytes) aw_peak_bytes = aw_cur_bytes;
}
static void acct_del(void *p) {
    if(!p) return;
    aw_live--;
    aw_cur_bytes -= malloc_usable_size(p);
}
void *__wrap_malloc(size_t n) {
    note_req(n);
    if(should_fail()) return 0;
    void *p = __real_malloc(n);
    acct_add(p);
    return p;
}
void *__wrap_calloc(size_t a, size_t b) {
    note_req(b && a > (size_t)-1 / b ? (size_t)-1 : a * b);
    if(should_fail()) return 0;
    void *p = __real_calloc(a, b);
    acct_add(p);
    return p;
}
void *__wrap_realloc(void *o, size_t n) {
    note_req(n);
    if(should_fail()) return 0;      /* original block stays valid, as with a real failure */
    size_t old = o ? malloc_usable_size(o) : 0;
    void *p = __real_realloc(o, n);
    if(p) {
        if(o) { aw_cur_bytes -= old; aw_live--; }
        if(n == 0 && o) { /* glibc frees on realloc(p,0) and may return NULL/unique ptr */ }
        acct_add(p);
    } else if(n == 0 && o) {
        aw_cur_bytes -= old; aw_live--;
    }
    return p;
}
void __wrap_free(void *p) {
    acct_del(p);
    __real_free(p);
}
