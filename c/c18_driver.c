/*
 * C18 driver = the generic driver (c/driver.c, included unchanged) + one more op:
 *
 *   tx T synIn hex synOut,synOut,...
 *      decode `hex` in synIn (any syntax, not only BER), report rc/consumed and the DER of the result,
 *      then, independently for every synOut: encode the decoded structure, decode those bytes again
 *      and compare the DER of both structures ("star" transcoding around one decoded value).
 *      reply: ok rc=R consumed=N der=HEX  b.<syn>=HEX rc.<syn>=R c.<syn>=N cmp.<syn>=0|x d.<syn>=same|HEX|fail  [leak=N]
 *
 * Needed because frames with an untagged open type cannot be injected through BER.
 */
#define main generic_driver_main
#include "driver.c"
#undef main

static void op_tx(char **a, int n) {
    if(n < 5) { outf("err=args"); return; }
    asn_TYPE_descriptor_t *td = find_type(a[1]);
    enum asn_transfer_syntax ats;
    if(!td) { outf("err=notype"); return; }
    if(syntax_of(a[2], &ats)) { outf("err=badsyntax"); return; }
    if(!has_codec(td, ats, 1)) { outf("nocodec"); return; }
    bytes_t in = unhex(a[3]);
    long live0 = aw_live;
    void *s = 0;
    asn_dec_rval_t rv = asn_decode(0, ats, td, &s, in.p, in.n);
    outf("ok rc=%d consumed=%zu", (int)rv.code, (size_t)rv.consumed);
    if(rv.code == RC_OK && s) {
        sink_t d0; int err; const char *ft;
        ssize_t e0 = encode_sink(ATS_DER, td, s, &d0, &err, &ft);
        if(e0 < 0) outf(" der=fail");
        else out_hex("der", d0.p, d0.n);
        char *save = 0;
        for(char *tok = strtok_r(a[4], ",", &save); tok; tok = strtok_r(0, ",", &save)) {
            enum asn_transfer_syntax oats;
            char key[40];
            if(syntax_of(tok, &oats)) { outf(" b.%s=badsyntax", tok); continue; }
            if(!has_codec(td, oats, 0)) { outf(" b.%s=nocodec", tok); continue; }
            sink_t sk;
            ssize_t e = encode_sink(oats, td, s, &sk, &err, &ft);
            if(e < 0) { outf(" b.%s=fail ftype.%s=%s", tok, tok, ft[0] ? ft : "?"); free(sk.p); continue; }
            snprintf(key, sizeof(key), "b.%s", tok);
            out_hex(key, sk.p, sk.n);
            if((size_t)e != sk.n) outf(" sizemismatch.%s=%zd/%zu", tok, e, sk.n);
            if(has_codec(td, oats, 1)) {
                uint8_t *copy = (uint8_t *)malloc(sk.n ? sk.n : 1);
                if(sk.n) memcpy(copy, sk.p, sk.n);
                void *s2 = 0;
                asn_dec_rval_t r2 = asn_decode(0, oats, td, &s2, copy, sk.n);
                free(copy);
                outf(" rc.%s=%d c.%s=%zu", tok, (int)r2.code, tok, (size_t)r2.consumed);
                if(r2.code == RC_OK && s2) {
                    int cmp = td->op->compare_struct(td, s, s2);
                    outf(" cmp.%s=%d", tok, cmp);
                    sink_t d2;
                    ssize_t e2 = encode_sink(ATS_DER, td, s2, &d2, &err, &ft);
                    snprintf(key, sizeof(key), "d.%s", tok);
                    if(e2 < 0) outf(" d.%s=fail", tok);
                    else if(e0 >= 0 && d2.n == d0.n && memcmp(d2.p, d0.p, d0.n) == 0) outf(" d.%s=same", tok);
                    else out_hex(key, d2.p, d2.n);
                    free(d2.p);
                }
                if(s2) ASN_STRUCT_FREE(*td, s2);
            }
            free(sk.p);
        }
        free(d0.p);
    }
    if(s) ASN_STRUCT_FREE(*td, s);
    if(aw_live != live0) outf(" leak=%ld", aw_live - live0);
    free(in.p);
}

int main(int argc, char **argv) {
    (void)argc; (void)argv;
    char *line = 0; size_t cap = 0; ssize_t len;
    setvbuf(stdout, 0, _IOFBF, 1 << 16);
    out_need(1 << 12);      /* the reply buffer exists before any ledger window opens */
    while((len = getline(&line, &cap, stdin)) > 0) {
        while(len > 0 && (line[len - 1] == '\n' || line[len - 1] == '\r')) line[--len] = 0;
        char *a[16]; int n = 0; char *save = 0;
        for(char *t = strtok_r(line, " ", &save); t && n < 16; t = strtok_r(0, " ", &save)) a[n++] = t;
        out_reset();
        if(n == 0) { outf("err=empty"); }
        else if(!strcmp(a[0], "tx")) op_tx(a, n);
        else if(!strcmp(a[0], "rt")) op_rt(a, n);
        else if(!strcmp(a[0], "enc")) op_enc(a, n);
        else if(!strcmp(a[0], "dec")) op_dec(a, n);
        else if(!strcmp(a[0], "list")) op_list();
        else if(!strcmp(a[0], "quit")) break;
        else if(!ops2(a, n)) outf("err=unknown-op");
        fputs(out ? out : "", stdout);
        fputc('\n', stdout);
        fflush(stdout);
    }
    free(line);
    free(out);
    return 0;
}
