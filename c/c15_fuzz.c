/*
 * C15 libFuzzer backstop: decode only.  The LAST two input bytes select the PDU type and the transfer syntax
 * (0 BER, 1 UPER, 2 OER, 3 XER), the rest is the encoding.  The oracle is libFuzzer's own: -malloc_limit_mb (one
 * request far beyond anything an input of -max_len octets justifies), -rss_limit_mb (many small allocations) and
 * ASan's stack-overflow report.  Every artefact is replayed by vf/c15.py through the plain-build driver and judged
 * with the check's stack and heap oracles before it counts.
 */
#include <stdio.h>
#include <stdlib.h>
#include <string.h>
#include <stdint.h>
#include <asn_application.h>
#include <asn_internal.h>

extern asn_TYPE_descriptor_t *asn_pdu_collection[];

static const enum asn_transfer_syntax DEC[] = {ATS_BER, ATS_UNALIGNED_BASIC_PER, ATS_BASIC_OER, ATS_BASIC_XER};

static int has_dec(const asn_TYPE_descriptor_t *td, enum asn_transfer_syntax a) {
    switch(a) {
    case ATS_BER: return td->op->ber_decoder != 0;
    case ATS_UNALIGNED_BASIC_PER: return td->op->uper_decoder != 0;
    case ATS_BASIC_OER: return td->op->oer_decoder != 0;
    default: return td->op->xer_decoder != 0;
    }
}

int LLVMFuzzerTestOneInput(const uint8_t *data, size_t size) {
    static size_t ntypes;
    if(!ntypes) while(asn_pdu_collection[ntypes]) ntypes++;
    if(size < 2 || !ntypes) return 0;
    const asn_TYPE_descriptor_t *td = asn_pdu_collection[data[size - 2] % ntypes];
    enum asn_transfer_syntax ats = DEC[data[size - 1] % 4];
    size -= 2;
    if(!has_dec(td, ats)) return 0;
    uint8_t *in = (uint8_t *)malloc(size ? size : 1);
    if(size) memcpy(in, data, size);
    void *s = 0;
    (void)asn_decode(0, ats, td, &s, in, size);
    if(s) ASN_STRUCT_FREE(*td, s);
    free(in);
    return 0;
}
