/*
 * Generic line-oriented driver: linked with the code asn1c generated for one
 * module (-pdu=all) and with the skeleton library built from /repo.
 * One command per input line, one reply line per command.
 * No generated identifier is referenced: types are found by td->name.
 */
#define _GNU_SOURCE
#include <stdio.h>
#include <stdlib.h>
#include <string.h>
#include <errno.h>
#include <stdint.h>
#include <unistd.h>
#include <sys/resource.h>
#include <asn_application.h>
#include <asn_internal.h>
#include <constr_SEQUENCE.h>
#include <constr_SET.h>
#include <constr_CHOICE.h>
#include <constr_SET_OF.h>
#include <constr_SEQUENCE_OF.h>
#include <asn_SET_OF.h>
#include <INTEGER.h>
#include <BIT_STRING.h>
#include <OCTET_STRING.h>
#include "allocwrap.h"

extern asn_TYPE_descriptor_t *asn_pdu_collection[];

/* ------------------------------------------------------------------ output line */
static char *out;
static size_t out_len, out_cap;
static void out_reset(void) { out_len = 0; if(out) out[0] = 0; }
static void out_need(size_t n) {
    if(out_len + n + 1 > out_cap) {
        out_cap = (out_len + n + 1) * 2 + 256;
        out = (char *)realloc(out, out_cap);
        if(!out) { fprintf(stderr, "driver: out of memory\n"); exit(3); }
    }
}
static void outf(const char *fmt, ...) __attribute__((format(printf, 1, 2)));
static void outf(const char *fmt, ...) {
    va_list ap;
    char tmp[512];
    va_start(ap, fmt);
    int n = vsnprintf(tmp, sizeof(tmp), fmt, ap);
    va_end(ap);
    if(n < 0) return;
    if((size_t)n >= sizeof(tmp)) n = sizeof(tmp) - 1;
    out_need(n);
    memcpy(out + out_len, tmp, n);
    out_len += n;
    out[out_len] = 0;
}
static void out_hex(const char *key, const void *buf, size_t n) {
    static const char hx[] = "0123456789abcdef";
    const uint8_t *b = (const uint8_t *)buf;
    size_t kl = strlen(key);
    out_need(kl + 3 + 2 * n);
    out[out_len++] = ' ';
    memcpy(out + out_len, key, kl); out_len += kl;
    out[out_len++] = '=';
    if(n == 0) out[out_len++] = '-';
    for(size_t i = 0; i < n; i++) {
        out[out_len++] = hx[b[i] >> 4];
        out[out_len++] = hx[b[i] & 15];
    }
    out[out_len] = 0;
}

/* ------------------------------------------------------------------ helpers */
typedef struct { uint8_t *p; size_t n; } bytes_t;

static int hexval(int c) {
    if(c >= '0' && c <= '9') return c - '0';
    if(c >= 'a' && c <= 'f') return c - 'a' + 10;
    if(c >= 'A' && c <= 'F') return c - 'A' + 10;
    return -1;
}
/* exact-size heap buffer so that ASan sees any over-read */
static bytes_t unhex(const char *s) {
    bytes_t b = {0, 0};
    if(!s || strcmp(s, "-") == 0) { b.p = (uint8_t *)malloc(1); return b; }
    size_t l = strlen(s);
    b.n = l / 2;
    b.p = (uint8_t *)malloc(b.n ? b.n : 1);
    for(size_t i = 0; i < b.n; i++) b.p[i] = (hexval(s[2 * i]) << 4) | hexval(s[2 * i + 1]);
    return b;
}

static asn_TYPE_descriptor_t *find_type(const char *name) {
    for(size_t i = 0; asn_pdu_collection[i]; i++)
        if(strcmp(asn_pdu_collection[i]->name, name) == 0) return asn_pdu_collection[i];
    return 0;
}

static int syntax_of(const char *s, enum asn_transfer_syntax *ats) {
    if(!strcmp(s, "der")) *ats = ATS_DER;
    else if(!strcmp(s, "ber")) *ats = ATS_BER;
    else if(!strcmp(s, "oer")) *ats = ATS_CANONICAL_OER;
    else if(!strcmp(s, "boer")) *ats = ATS_BASIC_OER;
    else if(!strcmp(s, "uper")) *ats = ATS_UNALIGNED_CANONICAL_PER;
    else if(!strcmp(s, "buper")) *ats = ATS_UNALIGNED_BASIC_PER;
    else if(!strcmp(s, "xer")) *ats = ATS_BASIC_XER;
    else if(!strcmp(s, "cxer")) *ats = ATS_CANONICAL_XER;
    else return -1;
    return 0;
}

/* does the type define a codec for this syntax?  (API documents ENOENT otherwise) */
static int has_codec(const asn_TYPE_descriptor_t *td, enum asn_transfer_syntax ats, int decode) {
    switch(ats) {
    case ATS_DER: case ATS_BER: return decode ? td->op->ber_decoder != 0 : td->op->der_encoder != 0;
    case ATS_BASIC_OER: case ATS_CANONICAL_OER: return decode ? td->op->oer_decoder != 0 : td->op->oer_encoder != 0;
    case ATS_UNALIGNED_BASIC_PER: case ATS_UNALIGNED_CANONICAL_PER:
        return decode ? td->op->uper_decoder != 0 : td->op->uper_encoder != 0;
    case ATS_BASIC_XER: case ATS_CANONICAL_XER: return decode ? td->op->xer_decoder != 0 : td->op->xer_encoder != 0;
    default: return 0;
    }
}

typedef struct { uint8_t *p; size_t n, cap; long calls; long fail_at; int failed; } sink_t;
static int sink_cb(const void *buf, size_t size, void *key) {
    sink_t *s = (sink_t *)key;
    if(s->fail_at >= 0 && s->calls == s->fail_at) { s->calls++; s->failed = 1; return -1; }
    s->calls++;
    if(s->n + size > s->cap) {
        size_t ncap = (s->n + size) * 2 + 64;
        uint8_t *np = (uint8_t *)realloc(s->p, ncap);
        if(!np) { s->failed = 1; return -1; }   /* also reached by injected allocation faults: a legal callback failure */
        s->p = np;
        s->cap = ncap;
    }
    if(size) memcpy(s->p + s->n, buf, size);
    s->n += size;
    return 0;
}
static int null_cb(const void *buf, size_t size, void *key) { (void)buf; (void)size; (void)key; return 0; }

/* encode to a fresh sink; returns encoded or -1 */
static ssize_t encode_sink(enum asn_transfer_syntax ats, const asn_TYPE_descriptor_t *td, const void *s,
                           sink_t *sk, int *err, const char **ftype) {
    memset(sk, 0, sizeof(*sk));
    sk->fail_at = -1;
    errno = 0;
    asn_enc_rval_t er = asn_encode(0, ats, td, s, sink_cb, sk);
    if(err) *err = errno;
    if(ftype) *ftype = (er.encoded < 0 && er.failed_type) ? er.failed_type->name : "";
    return er.encoded;
}

static void *inject(const asn_TYPE_descriptor_t *td, const bytes_t *der) {
    void *s = 0;
    asn_dec_rval_t rv = asn_decode(0, ATS_BER, td, &s, der->p, der->n);
    if(rv.code != RC_OK || rv.consumed != der->n) {
        outf(" inject=fail irc=%d iconsumed=%zu", (int)rv.code, (size_t)rv.consumed);
        if(s) ASN_STRUCT_FREE(*td, s);
        return 0;
    }
    return s;
}

/* ------------------------------------------------------------------ ops */

/* enc T hexDER syn,syn,...  : independent encodings of one injected value */
static void op_enc(char **a, int n) {
    if(n < 4) { outf("err=args"); return; }
    asn_TYPE_descriptor_t *td = find_type(a[1]);
    if(!td) { outf("err=notype"); return; }
    bytes_t der = unhex(a[2]);
    void *s = inject(td, &der);
    free(der.p);
    if(!s) return;
    outf("ok");
    char *save = 0;
    for(char *tok = strtok_r(a[3], ",", &save); tok; tok = strtok_r(0, ",", &save)) {
        enum asn_transfer_syntax ats;
        if(syntax_of(tok, &ats)) { outf(" %s=badsyntax", tok); continue; }
        if(!has_codec(td, ats, 0)) { outf(" %s=nocodec", tok); continue; }
        sink_t sk; int err; const char *ft;
        ssize_t e = encode_sink(ats, td, s, &sk, &err, &ft);
        if(e < 0) outf(" %s=fail errno.%s=%d ftype.%s=%s", tok, tok, err, tok, ft[0] ? ft : "?");
        else {
            if((size_t)e != sk.n) outf(" sizemismatch.%s=%zd/%zu", tok, e, sk.n);
            out_hex(tok, sk.p, sk.n);
        }
        free(sk.p);
    }
    ASN_STRUCT_FREE(*td, s);
}

/* rt T hexDER syn,syn,... : transcoding chain */
static void op_rt(char **a, int n) {
    if(n < 4) { outf("err=args"); return; }
    asn_TYPE_descriptor_t *td = find_type(a[1]);
    if(!td) { outf("err=notype"); return; }
    bytes_t der = unhex(a[2]);
    void *cur = inject(td, &der);
    free(der.p);
    if(!cur) return;
    sink_t d0; int err; const char *ft;
    ssize_t e0 = encode_sink(ATS_DER, td, cur, &d0, &err, &ft);
    if(e0 < 0) { outf("der0=fail errno=%d ftype=%s", err, ft); free(d0.p); ASN_STRUCT_FREE(*td, cur); return; }
    outf("ok");
    out_hex("der0", d0.p, d0.n);
    char *save = 0;
    int i = 0;
    for(char *tok = strtok_r(a[3], ",", &save); tok; tok = strtok_r(0, ",", &save), i++) {
        enum asn_transfer_syntax ats;
        if(syntax_of(tok, &ats)) { outf(" s%d=badsyntax", i); break; }
        if(!has_codec(td, ats, 0) || !has_codec(td, ats, 1)) { outf(" s%d=nocodec", i); continue; }
        sink_t sk;
        ssize_t e = encode_sink(ats, td, cur, &sk, &err, &ft);
        if(e < 0) { outf(" s%d=encfail errno%d=%d ftype%d=%s", i, i, err, i, ft[0] ? ft : "?"); free(sk.p); break; }
        char key[32];
        snprintf(key, sizeof(key), "b%d", i);
        out_hex(key, sk.p, sk.n);
        if((size_t)e != sk.n) outf(" sizemismatch%d=%zd/%zu", i, e, sk.n);
        /* decode from an exact-size copy */
        uint8_t *copy = (uint8_t *)malloc(sk.n ? sk.n : 1);
        if(sk.n) memcpy(copy, sk.p, sk.n);
        void *next = 0;
        asn_dec_rval_t rv = asn_decode(0, ats, td, &next, copy, sk.n);
        free(copy);
        outf(" s%d=dec rc%d=%d c%d=%zu", i, i, (int)rv.code, i, (size_t)rv.consumed);
        free(sk.p);
        if(rv.code != RC_OK || !next) { if(next) ASN_STRUCT_FREE(*td, next); break; }
        int cmp = td->op->compare_struct(td, cur, next);
        int cmp2 = td->op->compare_struct(td, next, cur);
        outf(" cmp%d=%d rcmp%d=%d", i, cmp, i, cmp2);
        sink_t dn;
        ssize_t en = encode_sink(ATS_DER, td, next, &dn, &err, &ft);
        if(en < 0) outf(" d%d=fail", i);
        else if(dn.n == d0.n && memcmp(dn.p, d0.p, d0.n) == 0) outf(" d%d=same", i);
        else { snprintf(key, sizeof(key), "d%d", i); out_hex(key, dn.p, dn.n); }
        free(dn.p);
        ASN_STRUCT_FREE(*td, cur);
        cur = next;
    }
    free(d0.p);
    ASN_STRUCT_FREE(*td, cur);
}

struct count_key { size_t n; };
static int count_cb(const void *b, size_t size, void *key) { (void)b; ((struct count_key *)key)->n += size; return 0; }

/* after a decode (any outcome): the structure left behind must be usable */
static void exercise(const asn_TYPE_descriptor_t *td, void *s, int want_der) {
    if(!s) { outf(" s=null"); return; }
    struct count_key ck = {0};
    int pr = td->op->print_struct(td, s, 0, count_cb, &ck);
    outf(" print=%d/%zu", pr, ck.n);
    char eb[128]; size_t el = sizeof(eb);
    int cc = asn_check_constraints(td, s, eb, &el);
    outf(" chk=%d", cc);
    static const char *syn[] = {"der", "oer", "uper", "xer", "cxer"};
    for(int i = 0; i < 5; i++) {
        enum asn_transfer_syntax ats;
        syntax_of(syn[i], &ats);
        if(!has_codec(td, ats, 0)) continue;
        sink_t sk; int err; const char *ft;
        ssize_t e = encode_sink(ats, td, s, &sk, &err, &ft);
        if(e < -1) outf(" badret.%s=%zd", syn[i], e);
        if(e >= 0 && (size_t)e != sk.n) outf(" sizemismatch.%s=%zd/%zu", syn[i], e, sk.n);
        if(i == 0 && want_der) {
            if(e < 0) outf(" der=fail");
            else out_hex("der", sk.p, sk.n);
        }
        free(sk.p);
    }
}

/* dec T syn hex [x] : decode arbitrary bytes; x = also exercise the result */
static void op_dec(char **a, int n) {
    if(n < 4) { outf("err=args"); return; }
    asn_TYPE_descriptor_t *td = find_type(a[1]);
    enum asn_transfer_syntax ats;
    if(!td) { outf("err=notype"); return; }
    if(syntax_of(a[2], &ats)) { outf("err=badsyntax"); return; }
    if(!has_codec(td, ats, 1)) { outf("nocodec"); return; }
    bytes_t in = unhex(a[3]);
    void *s = 0;
    long live0 = aw_live;
    asn_dec_rval_t rv = asn_decode(0, ats, td, &s, in.p, in.n);
    outf("ok rc=%d consumed=%zu", (int)rv.code, (size_t)rv.consumed);
    if((int)rv.code < 0 || (int)rv.code > 2) outf(" badrc=%d", (int)rv.code);
    if(rv.consumed > in.n) outf(" overconsumed=%zu/%zu", (size_t)rv.consumed, in.n);
    if(s && rv.code == RC_OK && n >= 5 && strchr(a[4], 's')) {
        /* stability of what the decoder accepted: re-encode in the same syntax, decode again, same DER */
        enum asn_transfer_syntax eats = ats == ATS_BER ? ATS_DER : ats == ATS_BASIC_OER ? ATS_CANONICAL_OER
            : ats == ATS_UNALIGNED_BASIC_PER ? ATS_UNALIGNED_CANONICAL_PER : ats;
        sink_t e1; int err; const char *ft;
        ssize_t r1 = has_codec(td, eats, 0) ? encode_sink(eats, td, s, &e1, &err, &ft) : -2;
        if(r1 >= 0) {
            void *s2 = 0;
            uint8_t *copy = (uint8_t *)malloc(e1.n ? e1.n : 1);
            if(e1.n) memcpy(copy, e1.p, e1.n);
            asn_dec_rval_t rv2 = asn_decode(0, ats, td, &s2, copy, e1.n);
            free(copy);
            if(rv2.code != RC_OK) outf(" restab=rc%d", (int)rv2.code);
            else {
                sink_t d1, d2;
                ssize_t a1 = encode_sink(ATS_DER, td, s, &d1, &err, &ft);
                ssize_t a2 = encode_sink(ATS_DER, td, s2, &d2, &err, &ft);
                if(a1 != a2 || (a1 >= 0 && (d1.n != d2.n || (d1.n && memcmp(d1.p, d2.p, d1.n))))) outf(" restab=differs");
                else outf(" restab=ok");
                free(d1.p); free(d2.p);
            }
            if(s2) ASN_STRUCT_FREE(*td, s2);
        } else if(r1 == -1) outf(" restab=encfail");
        if(r1 != -2) free(e1.p);
    }
    if(s) {
        if(n >= 5 && strchr(a[4], 'x')) exercise(td, s, 1);
        else {
            sink_t sk; int err; const char *ft;
            ssize_t e = encode_sink(ATS_DER, td, s, &sk, &err, &ft);
            if(e < 0) outf(" der=fail"); else out_hex("der", sk.p, sk.n);
            free(sk.p);
        }
        ASN_STRUCT_FREE(*td, s);
    } else outf(" s=null");
    if(aw_live != live0) outf(" leak=%ld", aw_live - live0);
    free(in.p);
}

/*
 * chunk T syn hex n1,n2,...: feed following the manual's protocol ("Restartability"):
 * keep unconsumed bytes, append the next chunk, call again with the same structure pointer.
 * The buffer handed to the decoder is an exact-size heap copy each time.
 */
static void op_chunk(char **a, int n) {
    if(n < 5) { outf("err=args"); return; }
    asn_TYPE_descriptor_t *td = find_type(a[1]);
    enum asn_transfer_syntax ats;
    if(!td) { outf("err=notype"); return; }
    if(syntax_of(a[2], &ats)) { outf("err=badsyntax"); return; }
    if(!has_codec(td, ats, 1)) { outf("nocodec"); return; }
    bytes_t in = unhex(a[3]);
    void *s = 0;
    size_t fed = 0, total = 0;     /* fed: bytes of `in` handed over so far; total consumed */
    uint8_t *pend = 0; size_t pn = 0;
    asn_dec_rval_t rv = {RC_WMORE, 0};
    int calls = 0;
    char *save = 0;
    char *tok = strtok_r(a[4], ",", &save);
    int bad = 0;
    while(1) {
        size_t add;
        if(tok) { add = strtoul(tok, 0, 10); tok = strtok_r(0, ",", &save); }
        else add = in.n - fed;     /* the rest */
        if(add > in.n - fed) add = in.n - fed;
        uint8_t *nb = (uint8_t *)malloc(pn + add ? pn + add : 1);
        if(pn) memcpy(nb, pend, pn);
        if(add) memcpy(nb + pn, in.p + fed, add);
        free(pend); pend = nb; pn += add; fed += add;
        rv = asn_decode(0, ats, td, &s, pend, pn);
        calls++;
        if(rv.consumed > pn) { bad = 1; outf("ok overconsumed=%zu/%zu", (size_t)rv.consumed, pn); break; }
        total += rv.consumed;
        memmove(pend, pend + rv.consumed, pn - rv.consumed);
        pn -= rv.consumed;
        if(rv.code != RC_WMORE) break;
        if(fed == in.n && !tok) break;   /* nothing more to give */
    }
    if(!bad) outf("ok rc=%d consumed=%zu calls=%d fed=%zu", (int)rv.code, total, calls, fed);
    if(s) {
        if(rv.code == RC_OK) {
            sink_t sk; int err; const char *ft;
            ssize_t e = encode_sink(ATS_DER, td, s, &sk, &err, &ft);
            if(e < 0) outf(" der=fail"); else out_hex("der", sk.p, sk.n);
            free(sk.p);
        }
        ASN_STRUCT_FREE(*td, s);
    }
    free(pend);
    free(in.p);
}

/* check T hexDER errsz : asn_check_constraints with a caller buffer of errsz bytes (exact heap size) */
static void op_check(char **a, int n) {
    if(n < 4) { outf("err=args"); return; }
    asn_TYPE_descriptor_t *td = find_type(a[1]);
    if(!td) { outf("err=notype"); return; }
    bytes_t der = unhex(a[2]);
    void *s = inject(td, &der);
    free(der.p);
    if(!s) return;
    long esz = strtol(a[3], 0, 10);
    if(esz < 0) {
        int r = asn_check_constraints(td, s, 0, 0);
        outf("ok ret=%d", r);
    } else {
        char *eb = (char *)malloc(esz ? esz : 1);
        memset(eb, 0x7e, esz ? esz : 1);
        size_t el = esz;
        int r = asn_check_constraints(td, s, eb, &el);
        outf("ok ret=%d errlen=%zu", r, el);
        if(r) {
            int term = 0;
            if(esz > 0) { for(long i = 0; i < esz; i++) if(eb[i] == 0) { term = 1; break; } }
            outf(" term=%d", term);
            if(term) out_hex("msg", eb, strlen(eb));
        }
        free(eb);
    }
    ASN_STRUCT_FREE(*td, s);
}

static void op_list(void) {
    outf("ok");
    for(size_t i = 0; asn_pdu_collection[i]; i++) outf(" %s", asn_pdu_collection[i]->name);
}

#include "driver_ops3.inc"
#include "driver_ops2.inc"

int main(int argc, char **argv) {
    (void)argc; (void)argv;
    char *line = 0; size_t cap = 0; ssize_t len;
    /* quiet: asn_fprint(0,...) writes to stdout by default -> use our own sink instead */
    setvbuf(stdout, 0, _IOFBF, 1 << 16);
    out_need(1 << 16);      /* the reply buffer exists before any op looks at the allocation ledger */
    while((len = getline(&line, &cap, stdin)) > 0) {
        while(len > 0 && (line[len - 1] == '\n' || line[len - 1] == '\r')) line[--len] = 0;
        char *a[16]; int n = 0; char *save = 0;
        for(char *t = strtok_r(line, " ", &save); t && n < 16; t = strtok_r(0, " ", &save)) a[n++] = t;
        out_reset();
        if(n == 0) { outf("err=empty"); }
        else if(!strcmp(a[0], "rt")) op_rt(a, n);
        else if(!strcmp(a[0], "enc")) op_enc(a, n);
        else if(!strcmp(a[0], "dec")) op_dec(a, n);
        else if(!strcmp(a[0], "chunk")) op_chunk(a, n);
        else if(!strcmp(a[0], "check")) op_check(a, n);
        else if(!strcmp(a[0], "list")) op_list();
        else if(!strcmp(a[0], "quit")) break;
        else if(!ops2(a, n)) outf("err=unknown-op");
        fputs(out ? out : "", stdout);
        fputc('\n', stdout);
        fflush(stdout);
    }
    free(line);
    free(out);
    return 0;
}
