// C17 - OBJECT IDENTIFIER arc helpers and GeneralizedTime/UTCTime helpers (rapidcheck + deterministic sweep).
//
//   c17 --part oid|time --mode sweep|random|replay [--file F] [--seed N] [--cases M] [--max-size S]
//       [--exclude class[,class]] [--nt-file F]
//
// Every case is a one-line text ("case line").  The random generators, the sweep and the replay all go through
// exec_case(line), so a printed case line replays exactly what was checked.
//
//   oid.arcs  a.b.c...            valid first pair: set_arcs -> octets == X.690 8.19, get_arcs identity, parse of the text
//   oid.badfirst a.b.c... | -     invalid first pair / fewer than 2 arcs: set_arcs fails as documented, object untouched
//   oid.octets HEX|-              OBJECT_IDENTIFIER_get_arcs on arbitrary contents octets (non-minimal, overflowing, cut)
//   rel.octets HEX|-              RELATIVE_OID_get_arcs likewise
//   rel.arcs  a.b.c | -           RELATIVE_OID_set_arcs/get_arcs, no first-pair rule
//   oid.text  tok.tok PRE SUF L   OBJECT_IDENTIFIER_parse_arcs of PRE + dotted decimal tokens + SUF (hex white space, '-'
//                                 for none); L=1 explicit length on an unterminated buffer, L=0 length -1 (strlen)
//   time      T FV FD             time_t T under the process's TZ, fraction FV / 10^FD
//
// stdout protocol: COUNT/CLASS/ASSUME/SAMPLE/NT/EVAL lines, FAIL <case line> :: <message>, RESULT ok|fail.
// exit: 0 held, 1 property failure, 2 usage/internal error, 3 libc self-check failed; sanitizer deaths use the
// exit code configured in ASAN_OPTIONS and print CRASH-CASE <case line> first.
#include <rapidcheck.h>

#include <algorithm>
#include <cerrno>
#include <cinttypes>
#include <cstdarg>
#include <climits>
#include <csignal>
#include <cstdint>
#include <cstdio>
#include <cstdlib>
#include <cstring>
#include <ctime>
#include <functional>
#include <map>
#include <set>
#include <string>
#include <unistd.h>
#include <unordered_set>
#include <vector>

extern "C" {
#include <OBJECT_IDENTIFIER.h>
#include <RELATIVE-OID.h>
#include <GeneralizedTime.h>
#include <UTCTime.h>
void __sanitizer_set_death_callback(void (*)(void));
}

namespace {

typedef unsigned __int128 u128;
const uint32_t ARC_MAX = 0xFFFFFFFFu;

// ------------------------------------------------------------------ bookkeeping
std::map<std::string, uint64_t> g_count, g_class, g_assume;
std::vector<std::string> g_samples;
std::unordered_set<uint64_t> g_nt;        // hashes of distinct non-trivial cases
std::unordered_set<uint64_t> g_seen;      // hashes of distinct cases
uint64_t g_eval = 0;
char g_cur[8192];                         // current case line, for the death callback
std::string g_tz;
std::set<std::string> g_exclude;
std::string g_last_fail_line, g_last_fail_msg;
std::string g_obs;                        // observation text of the current case (replay/sample)

uint64_t fnv(const std::string &s) {
    uint64_t h = 1469598103934665603ull;
    for(unsigned char c : s) { h ^= c; h *= 1099511628211ull; }
    h ^= h >> 29; h *= 0xbf58476d1ce4e5b9ull; h ^= h >> 32;
    return h;
}

void death_cb(void) {
    static const char p[] = "\nCRASH-CASE ";
    ssize_t r = write(1, p, sizeof(p) - 1);
    r = write(1, g_cur, strnlen(g_cur, sizeof(g_cur)));
    r = write(1, "\n", 1);
    (void)r;
}
void abort_handler(int) { death_cb(); _exit(99); }

std::string hexs(const uint8_t *b, size_t n) {
    static const char *d = "0123456789abcdef";
    std::string s;
    for(size_t i = 0; i < n; i++) { s += d[b[i] >> 4]; s += d[b[i] & 15]; }
    return s.empty() ? std::string("-") : s;
}
std::string hexs(const std::vector<uint8_t> &v) { return hexs(v.data(), v.size()); }
bool unhex(const std::string &s, std::vector<uint8_t> &out) {
    out.clear();
    if(s == "-") return true;
    if(s.size() % 2) return false;
    for(size_t i = 0; i < s.size(); i += 2) {
        int v = 0;
        for(int k = 0; k < 2; k++) {
            char c = s[i + k]; int x;
            if(c >= '0' && c <= '9') x = c - '0';
            else if(c >= 'a' && c <= 'f') x = c - 'a' + 10;
            else if(c >= 'A' && c <= 'F') x = c - 'A' + 10;
            else return false;
            v = v * 16 + x;
        }
        out.push_back((uint8_t)v);
    }
    return true;
}
std::string join_arcs(const std::vector<uint32_t> &v) {
    if(v.empty()) return "-";
    std::string s;
    for(size_t i = 0; i < v.size(); i++) { if(i) s += '.'; s += std::to_string(v[i]); }
    return s;
}
std::vector<std::string> split(const std::string &s, char sep) {
    std::vector<std::string> out; std::string cur;
    for(char c : s) { if(c == sep) { out.push_back(cur); cur.clear(); } else cur += c; }
    out.push_back(cur);
    return out;
}
bool parse_arcs_arg(const std::string &s, std::vector<uint32_t> &v) {
    v.clear();
    if(s == "-") return true;
    for(auto &tok : split(s, '.')) {
        if(tok.empty() || tok.size() > 10) return false;
        uint64_t x = 0;
        for(char c : tok) { if(c < '0' || c > '9') return false; x = x * 10 + (uint64_t)(c - '0'); }
        if(x > ARC_MAX) return false;
        v.push_back((uint32_t)x);
    }
    return true;
}
std::string fmt(const char *f, ...) __attribute__((format(printf, 1, 2)));
std::string fmt(const char *f, ...) {
    char buf[1024];
    va_list ap; va_start(ap, f); vsnprintf(buf, sizeof buf, f, ap); va_end(ap);
    return buf;
}

// a heap block of exactly n bytes (ASan sees every over-read/over-write); n == 0 gives a 1-byte block used as size 0
struct Exact {
    uint8_t *p; size_t n;
    explicit Exact(size_t n_) : p((uint8_t *)malloc(n_ ? n_ : 1)), n(n_) {}
    Exact(const void *src, size_t n_) : Exact(n_) { if(n_) memcpy(p, src, n_); }
    ~Exact() { free(p); }
    Exact(const Exact &) = delete;
};

// ------------------------------------------------------------------ reference: X.690 8.19
void ref_subid(u128 v, std::vector<uint8_t> &out) {           // minimal base-128, big-endian, continuation bits
    uint8_t tmp[24]; int n = 0;
    do { tmp[n++] = (uint8_t)(v & 0x7f); v >>= 7; } while(v);
    while(n--) out.push_back((uint8_t)(tmp[n] | (n ? 0x80 : 0)));
}
std::vector<uint8_t> ref_oid(const std::vector<uint32_t> &v) {
    std::vector<uint8_t> out;
    ref_subid((u128)40 * v[0] + v[1], out);                   // 8.19.4: (X*40)+Y
    for(size_t i = 2; i < v.size(); i++) ref_subid(v[i], out);
    return out;
}
std::vector<uint8_t> ref_rel(const std::vector<uint32_t> &v) {
    std::vector<uint8_t> out;
    for(uint32_t a : v) ref_subid(a, out);
    return out;
}
struct RefDec { std::vector<u128> sub; bool cut = false, padded = false, overflow = false; };
RefDec ref_decode(const std::vector<uint8_t> &b) {
    RefDec r; u128 acc = 0; bool in = false, first = true, sat = false;
    for(uint8_t c : b) {
        if(first && c == 0x80) r.padded = true;               // 8.19.2: leading octet of a subidentifier is not 0x80
        first = false; in = true;
        if(acc >> 100) sat = true; else acc = (acc << 7) | (c & 0x7f);
        if(!(c & 0x80)) {
            if(sat) acc = (u128)1 << 100;
            if(acc > ARC_MAX) r.overflow = true;
            r.sub.push_back(acc); acc = 0; in = false; first = true; sat = false;
        }
    }
    if(in) r.cut = true;
    return r;
}

// ------------------------------------------------------------------ reference: civil calendar (H. Hinnant's algorithms)
int64_t days_from_civil(int64_t y, unsigned m, unsigned d) {
    y -= m <= 2;
    const int64_t era = (y >= 0 ? y : y - 399) / 400;
    const unsigned yoe = (unsigned)(y - era * 400);
    const unsigned doy = (153 * (m > 2 ? m - 3 : m + 9) + 2) / 5 + d - 1;
    const unsigned doe = yoe * 365 + yoe / 4 - yoe / 100 + doy;
    return era * 146097 + (int64_t)doe - 719468;
}
struct Civil { int64_t y; unsigned mo, d, h, mi, s; };
Civil civil_from_time(int64_t t) {
    int64_t days = t / 86400, sod = t % 86400;
    if(sod < 0) { sod += 86400; days -= 1; }
    int64_t z = days + 719468;
    const int64_t era = (z >= 0 ? z : z - 146096) / 146097;
    const unsigned doe = (unsigned)(z - era * 146097);
    const unsigned yoe = (doe - doe / 1460 + doe / 36524 - doe / 146096) / 365;
    int64_t y = (int64_t)yoe + era * 400;
    const unsigned doy = doe - (365 * yoe + yoe / 4 - yoe / 100);
    const unsigned mp = (5 * doy + 2) / 153;
    Civil c;
    c.d = doy - (153 * mp + 2) / 5 + 1;
    c.mo = mp < 10 ? mp + 3 : mp - 9;
    c.y = y + (c.mo <= 2);
    c.h = (unsigned)(sod / 3600); c.mi = (unsigned)(sod % 3600 / 60); c.s = (unsigned)(sod % 60);
    return c;
}
int64_t time_from_civil(int64_t y, unsigned m, unsigned d, unsigned h = 0, unsigned mi = 0, unsigned s = 0) {
    return days_from_civil(y, m, d) * 86400 + h * 3600 + mi * 60 + s;
}
const int64_t T_MIN = -62135596800LL;     // 0001-01-01T00:00:00Z
const int64_t T_MAX = 253402300799LL;     // 9999-12-31T23:59:59Z
const int64_t POW10[] = {1, 10, 100, 1000, 10000, 100000, 1000000, 10000000, 100000000, 1000000000, 10000000000LL};

bool tm_is(const struct tm &tm, const Civil &c) {
    return tm.tm_year + 1900 == c.y && tm.tm_mon + 1 == (int)c.mo && tm.tm_mday == (int)c.d && tm.tm_hour == (int)c.h
        && tm.tm_min == (int)c.mi && tm.tm_sec == (int)c.s;
}
std::string tm_str(const struct tm &tm) {
    return fmt("%d-%02d-%02d %02d:%02d:%02d off=%ld dst=%d", tm.tm_year + 1900, tm.tm_mon + 1, tm.tm_mday, tm.tm_hour,
               tm.tm_min, tm.tm_sec, (long)tm.tm_gmtoff, tm.tm_isdst);
}

// ------------------------------------------------------------------ checks (return "" or the failure text)
void note_case(const std::string &line, bool nontrivial) {
    uint64_t h = fnv(g_tz + "|" + line);
    g_seen.insert(h);
    if(nontrivial) g_nt.insert(h);
}
bool nt_arcs(const std::vector<uint32_t> &v) {
    if(v.size() < 3) return false;
    for(uint32_t a : v) if(a >= 128) return true;
    return false;
}
void cls(const std::string &c) { g_class[c]++; }
const char *lenclass(size_t n) { return n <= 2 ? "len.2" : n <= 4 ? "len.3-4" : n <= 8 ? "len.5-8" : n <= 14 ? "len.9-14" : "len.15+"; }
const char *arcclass(uint32_t a) {
    return a < 128 ? "arc.<2^7" : a < 16384 ? "arc.<2^14" : a < (1u << 21) ? "arc.<2^21" : a < (1u << 28) ? "arc.<2^28" : "arc.>=2^28";
}

std::string check_single_arc(uint32_t arc) {
    std::vector<uint8_t> ref; ref_subid(arc, ref);
    Exact buf(ref.size());
    memset(buf.p, 0xAA, ref.size());
    ssize_t w = OBJECT_IDENTIFIER_set_single_arc(buf.p, ref.size(), arc);
    if(w != (ssize_t)ref.size() || memcmp(buf.p, ref.data(), ref.size()))
        return fmt("set_single_arc(%u) into %zu bytes returned %zd, octets %s, X.690 8.19.2 gives %s", arc, ref.size(), w,
                   hexs(buf.p, ref.size()).c_str(), hexs(ref).c_str());
    if(ref.size() > 1) {
        Exact small(ref.size() - 1);
        w = OBJECT_IDENTIFIER_set_single_arc(small.p, ref.size() - 1, arc);
        if(w != -1) return fmt("set_single_arc(%u) into a %zu-byte buffer returned %zd, documented -1 (needs %zu)", arc, ref.size() - 1, w, ref.size());
    }
    asn_oid_arc_t back = 0x5A5A5A5A;
    ssize_t rd = OBJECT_IDENTIFIER_get_single_arc(buf.p, ref.size(), &back);
    if(rd != (ssize_t)ref.size() || back != arc)
        return fmt("get_single_arc(%s) returned %zd value %u, expected %zu value %u", hexs(ref).c_str(), rd, back, ref.size(), arc);
    return "";
}

std::string check_get(const char *what, bool rel, const OBJECT_IDENTIFIER_t *oid, const std::vector<uint32_t> &v) {
    const uint32_t SENT = 0xDEADBEEFu;
    size_t n = v.size();
    std::vector<size_t> slots = {n + 2, n, 0};
    if(n >= 1) slots.push_back(n - 1);
    if(n >= 3) { slots.push_back(1); slots.push_back(2); }
    for(size_t k : slots) {
        Exact out(k * sizeof(uint32_t));
        uint32_t *o = (uint32_t *)out.p;
        for(size_t i = 0; i < k; i++) o[i] = SENT;
        errno = 0;
        ssize_t r = rel ? RELATIVE_OID_get_arcs(oid, o, k) : OBJECT_IDENTIFIER_get_arcs(oid, o, k);
        if(r != (ssize_t)n)
            return fmt("%s: get_arcs(slots=%zu) returned %zd (errno %d), documented: the actual number of arcs %zu", what, k, r, errno, n);
        for(size_t i = 0; i < k; i++) {
            uint32_t want = i < n ? v[i] : SENT;
            if(o[i] != want)
                return fmt("%s: get_arcs(slots=%zu) slot %zu holds %u, expected %s%u", what, k, i, o[i], i < n ? "" : "the untouched sentinel ", want);
        }
    }
    return "";
}

std::string check_oid_arcs(const std::vector<uint32_t> &v) {
    if(v.size() < 2 || v[0] > 2 || (v[0] < 2 && v[1] > 39) || (v[0] == 2 && v[1] > ARC_MAX - 80))
        return "CASE-ERROR: not a valid first pair";
    cls(lenclass(v.size()));
    cls(fmt("first.%u", v[0]));
    for(size_t i = 2; i < v.size(); i++) cls(arcclass(v[i]));
    if(v[0] == 2 && v[1] > 0x7FFFFFFFu) cls("second.>2^31");
    OBJECT_IDENTIFIER_t oid; memset(&oid, 0, sizeof oid);
    std::string m;
    if(v.size() & 1) {     // every other case replaces an existing value (the old buffer must be released)
        const asn_oid_arc_t pre[] = {2, 999, 4000000000u, 1};
        if(OBJECT_IDENTIFIER_set_arcs(&oid, pre, 4) != 0) return "set_arcs({2 999 4000000000 1}) failed";
    }
    errno = 0;
    int rc = OBJECT_IDENTIFIER_set_arcs(&oid, v.data(), v.size());
    std::vector<uint8_t> ref = ref_oid(v);
    if(rc != 0) m = fmt("set_arcs returned %d (errno %d) for a vector with a valid first pair", rc, errno);
    else if(!oid.buf || oid.size != ref.size() || memcmp(oid.buf, ref.data(), ref.size()))
        m = fmt("set_arcs stored %s, X.690 8.19 gives %s", oid.buf ? hexs(oid.buf, oid.size).c_str() : "NULL", hexs(ref).c_str());
    if(m.empty()) { g_obs = hexs(ref); m = check_get("after set_arcs", false, &oid, v); }
    ASN_STRUCT_RESET(asn_DEF_OBJECT_IDENTIFIER, &oid);
    if(!m.empty()) return m;
    // dotted text of the same vector
    std::string text = join_arcs(v);
    Exact out(v.size() * sizeof(uint32_t));
    const char *end = 0;
    errno = 0;
    ssize_t n = OBJECT_IDENTIFIER_parse_arcs(text.c_str(), -1, (asn_oid_arc_t *)out.p, v.size(), &end);
    if(n != (ssize_t)v.size() || memcmp(out.p, v.data(), v.size() * sizeof(uint32_t)))
        return fmt("parse_arcs(\"%s\") returned %zd (errno %d) / different arcs", text.c_str(), n, errno);
    if(end != text.c_str() + text.size()) return fmt("parse_arcs(\"%s\"): end pointer at offset %td, expected %zu", text.c_str(), end - text.c_str(), text.size());
    // the single-arc primitives on a few arcs of the vector
    size_t step = v.size() > 6 ? v.size() / 3 : 1;
    for(size_t i = 2; i < v.size(); i += step) { m = check_single_arc(v[i]); if(!m.empty()) return m; }
    return "";
}

std::string check_badfirst(const std::vector<uint32_t> &v) {
    bool few = v.size() < 2;
    bool limit = !few && v[0] == 2 && v[1] > ARC_MAX - 80;      // valid in ASN.1, beyond the 32-bit first subidentifier
    if(!few && !limit && (v[0] <= 1 ? v[1] <= 39 : v[0] == 2)) return "CASE-ERROR: the first pair is valid";
    cls(few ? "bad.count<2" : limit ? "bad.2.second>max-80" : v[0] > 2 ? "bad.first>2" : "bad.second>39");
    OBJECT_IDENTIFIER_t oid; memset(&oid, 0, sizeof oid);
    const asn_oid_arc_t pre[] = {1, 3, 6, 1};
    if(OBJECT_IDENTIFIER_set_arcs(&oid, pre, 4) != 0) return "set_arcs({1 3 6 1}) failed";
    std::vector<uint8_t> before(oid.buf, oid.buf + oid.size);
    uint32_t dummy = 0;
    errno = 0;
    int rc = OBJECT_IDENTIFIER_set_arcs(&oid, v.empty() ? &dummy : v.data(), v.size());
    int e = errno;
    std::string m;
    if(limit && rc == 0) {
        std::vector<uint8_t> ref = ref_oid(v);
        if(oid.size != ref.size() || memcmp(oid.buf, ref.data(), ref.size()))
            m = fmt("set_arcs accepted {2 %u ...} and stored %s; X.690 8.19 gives %s", v[1], hexs(oid.buf, oid.size).c_str(), hexs(ref).c_str());
    } else if(rc != -1) {
        m = fmt("set_arcs returned %d, documented -1/%s", rc, few ? "EINVAL" : "ERANGE");
    } else if(e != (few ? EINVAL : ERANGE)) {
        m = fmt("set_arcs returned -1 with errno %d, documented %s", e, few ? "EINVAL" : "ERANGE");
    } else if(oid.size != before.size() || memcmp(oid.buf, before.data(), before.size())) {
        m = "a failed set_arcs changed the object";
    }
    ASN_STRUCT_RESET(asn_DEF_OBJECT_IDENTIFIER, &oid);
    return m;
}

std::string check_rel_arcs(const std::vector<uint32_t> &v) {
    cls(v.empty() ? "rel.len.0" : v.size() < 3 ? "rel.len.1-2" : v.size() <= 8 ? "rel.len.3-8" : "rel.len.9+");
    RELATIVE_OID_t oid; memset(&oid, 0, sizeof oid);
    uint32_t dummy = 7;
    std::string m;
    if(v.size() & 1) {
        const asn_oid_arc_t pre[] = {999, 4000000000u};
        if(RELATIVE_OID_set_arcs(&oid, pre, 2) != 0) return "RELATIVE_OID_set_arcs({999 4000000000}) failed";
    }
    errno = 0;
    int rc = RELATIVE_OID_set_arcs(&oid, v.empty() ? &dummy : v.data(), v.size());
    std::vector<uint8_t> ref = ref_rel(v);
    if(rc != 0) m = fmt("RELATIVE_OID_set_arcs returned %d (errno %d)", rc, errno);
    else if(!oid.buf || oid.size != ref.size() || (ref.size() && memcmp(oid.buf, ref.data(), ref.size())))
        m = fmt("RELATIVE_OID_set_arcs stored %s, X.690 8.20 gives %s", oid.buf ? hexs(oid.buf, oid.size).c_str() : "NULL", hexs(ref).c_str());
    if(m.empty()) { g_obs = hexs(ref); m = check_get("after RELATIVE_OID_set_arcs", true, &oid, v); }
    ASN_STRUCT_RESET(asn_DEF_RELATIVE_OID, &oid);
    return m;
}

// get_arcs on foreign contents octets
std::string check_octets(bool rel, const std::vector<uint8_t> &b, bool &nontrivial) {
    RefDec r = ref_decode(b);
    Exact buf(b.data(), b.size());
    OBJECT_IDENTIFIER_t oid; memset(&oid, 0, sizeof oid);
    oid.buf = buf.p; oid.size = b.size();
    std::vector<uint32_t> want;
    bool must_fail = false;
    const char *why = "";
    if(r.cut) { must_fail = true; why = "the last subidentifier is cut (continuation bit on the final octet)"; cls("oct.cut"); }
    else if(r.overflow) { must_fail = true; why = "a subidentifier exceeds 2^32-1 (header: -1/ERANGE, out of array cell type range)"; cls("oct.overflow"); }
    else if(!rel && r.sub.empty()) { must_fail = true; why = "no first subidentifier"; cls("oct.empty"); }
    if(!must_fail) {
        for(size_t i = 0; i < r.sub.size(); i++) {
            uint32_t x = (uint32_t)r.sub[i];
            if(!rel && i == 0) {
                if(x >= 80) { want.push_back(2); want.push_back(x - 80); }
                else { want.push_back(x / 40); want.push_back(x % 40); }
            } else want.push_back(x);
        }
        cls(r.padded ? "oct.padded" : "oct.minimal");
    }
    nontrivial = nt_arcs(want) || must_fail || r.padded;
    const uint32_t SENT = 0xDEADBEEFu;
    size_t cap = b.size() + 3;
    std::vector<size_t> slots = {cap, 0, 1, 2};
    if(!must_fail && !want.empty()) { slots.push_back(want.size()); slots.push_back(want.size() - 1); }
    for(size_t k : slots) {
        Exact out(k * sizeof(uint32_t));
        uint32_t *o = (uint32_t *)out.p;
        for(size_t i = 0; i < k; i++) o[i] = SENT;
        errno = 0;
        ssize_t n = rel ? RELATIVE_OID_get_arcs(&oid, o, k) : OBJECT_IDENTIFIER_get_arcs(&oid, o, k);
        int e = errno;
        if(k == cap) {
            g_obs = n < 0 ? fmt("-1/errno %d", e) : fmt("%zd arcs", n);
            if(n >= 0) { std::vector<uint32_t> got(o, o + std::min((size_t)n, k)); g_obs += " " + join_arcs(got); }
        }
        if(must_fail) {
            if(n != -1) {
                std::vector<uint32_t> got(o, o + std::min((size_t)(n < 0 ? 0 : n), k));
                return fmt("get_arcs(slots=%zu) returned %zd (%s) although %s", k, n, join_arcs(got).c_str(), why);
            }
            if(k == cap) cls(fmt("oct.fail.errno.%d", e));
            continue;
        }
        if(n == -1 && r.padded) { if(k == cap) cls("oct.padded.rejected"); continue; }   // non-minimal form may be refused
        if(n != (ssize_t)want.size())
            return fmt("get_arcs(slots=%zu) returned %zd (errno %d), the octets hold %zu arcs (%s)", k, n, e, want.size(), join_arcs(want).c_str());
        for(size_t i = 0; i < k; i++) {
            uint32_t w = i < want.size() ? want[i] : SENT;
            if(o[i] != w) return fmt("get_arcs(slots=%zu) slot %zu holds %u, expected %s%u (arcs %s)", k, i, o[i], i < want.size() ? "" : "the untouched sentinel ", w, join_arcs(want).c_str());
        }
        if(k == cap && r.padded) cls("oct.padded.accepted");
    }
    // the primitive on the first subidentifier
    if(!b.empty()) {
        asn_oid_arc_t val = SENT;
        errno = 0;
        ssize_t rd = OBJECT_IDENTIFIER_get_single_arc(buf.p, b.size(), &val);
        size_t flen = 0; while(flen < b.size() && (b[flen] & 0x80)) flen++;
        bool fcut = flen == b.size();
        RefDec r1 = ref_decode(std::vector<uint8_t>(b.begin(), b.begin() + (fcut ? b.size() : flen + 1)));
        if(fcut || r1.overflow) {
            if(rd != -1) return fmt("get_single_arc returned %zd value %u for a %s first subidentifier", rd, val, fcut ? "cut" : "too large");
        } else if(rd == -1 && r1.padded) {
        } else if(rd != (ssize_t)(flen + 1) || val != (uint32_t)r1.sub[0]) {
            return fmt("get_single_arc returned %zd value %u, expected %zu value %u", rd, val, flen + 1, (uint32_t)r1.sub[0]);
        }
    }
    return "";
}

std::string check_text(const std::vector<std::string> &toks, const std::vector<uint8_t> &pre, const std::vector<uint8_t> &suf,
                       int lenmode, bool &nontrivial) {
    std::string text(pre.begin(), pre.end());
    std::vector<uint32_t> want; bool big = false;
    for(size_t i = 0; i < toks.size(); i++) {
        if(i) text += '.';
        text += toks[i];
        u128 x = 0;
        for(char c : toks[i]) { if(c < '0' || c > '9') return "CASE-ERROR: token"; if(x < ((u128)1 << 100)) x = x * 10 + (unsigned)(c - '0'); }
        if(toks[i].empty()) return "CASE-ERROR: empty token";
        if(x > ARC_MAX) big = true;
        want.push_back((uint32_t)x);
    }
    for(uint8_t c : pre) if(c != 0x20 && c != 0x09 && c != 0x0a && c != 0x0d) return "CASE-ERROR: prefix is not white space";
    for(uint8_t c : suf) if(c != 0x20 && c != 0x09 && c != 0x0a && c != 0x0d) return "CASE-ERROR: suffix is not white space";
    text.append(suf.begin(), suf.end());
    nontrivial = big || nt_arcs(want);
    cls(big ? "text.arc>2^32-1" : (pre.empty() && suf.empty()) ? "text.plain" : "text.whitespace");
    cls(lenmode ? "text.explicit-length" : "text.strlen");
    Exact buf(text.size() + (lenmode ? 0 : 1));
    memcpy(buf.p, text.data(), text.size());
    if(!lenmode) buf.p[text.size()] = 0;
    const char *tp = (const char *)buf.p;
    const uint32_t SENT = 0xDEADBEEFu;
    size_t n = want.size();
    std::vector<size_t> slots = {n, n + 1, 0};
    if(n > 1) slots.push_back(n - 1);
    for(size_t k : slots) {
        Exact out(k * sizeof(uint32_t));
        uint32_t *o = (uint32_t *)out.p;
        for(size_t i = 0; i < k; i++) o[i] = SENT;
        const char *end = (const char *)-1;
        errno = 0;
        ssize_t r = OBJECT_IDENTIFIER_parse_arcs(tp, lenmode ? (ssize_t)text.size() : -1, k ? o : 0, k, &end);
        int e = errno;
        if(k == n) g_obs = fmt("%zd", r);
        if(end < tp || end > tp + text.size()) return fmt("parse_arcs(slots=%zu): end pointer outside the text (offset %td of %zu)", k, end - tp, text.size());
        if(big) {
            if(r != -1) return fmt("parse_arcs(slots=%zu) returned %zd for a text with an arc above 2^32-1 (header: no arc can exceed UINT32_MAX)", k, r);
            continue;
        }
        if(r != (ssize_t)n) return fmt("parse_arcs(slots=%zu) returned %zd (errno %d), the text holds %zu arcs", k, r, e, n);
        if(end != tp + text.size()) return fmt("parse_arcs(slots=%zu): end pointer at offset %td, expected the end %zu", k, end - tp, text.size());
        for(size_t i = 0; i < k; i++) {
            uint32_t w = i < n ? want[i] : SENT;
            if(o[i] != w) return fmt("parse_arcs(slots=%zu) slot %zu holds %u, expected %s%u", k, i, o[i], i < n ? "" : "the untouched sentinel ", w);
        }
    }
    return "";
}

// ---- time
bool shape_gt(const std::string &text, const std::string &e14, std::string &frac) {
    if(text.size() < 15 || text.compare(0, 14, e14) != 0 || text.back() != 'Z') return false;
    std::string mid = text.substr(14, text.size() - 15);
    frac.clear();
    if(mid.empty()) return true;
    if(mid[0] != '.' || mid.size() < 2 || mid.size() > 10) return false;
    for(size_t i = 1; i < mid.size(); i++) if(mid[i] < '0' || mid[i] > '9') return false;
    frac = mid.substr(1);
    return true;
}

std::string check_time(int64_t t, int fv, int fd, bool &nontrivial) {
    if(t < T_MIN || t > T_MAX) return "CASE-ERROR: t outside year 1..9999";
    const time_t tt = (time_t)t;
    const Civil c = civil_from_time(t);
    nontrivial = c.y != 1970;
    struct tm lt, g;
    memset(&lt, 0, sizeof lt); memset(&g, 0, sizeof g);
    if(!localtime_r(&tt, &lt) || !gmtime_r(&tt, &g)) { g_assume["libc.localtime-failed"]++; return "ASSUME"; }
    struct tm g2 = g;
    if(!tm_is(g, c) || timegm(&g2) != tt) { g_assume["libc.gmtime-inexact"]++; return "ASSUME"; }
    if(!tm_is(lt, civil_from_time(t + lt.tm_gmtoff))) { g_assume["libc.localtime-inconsistent-gmtoff"]++; return "ASSUME"; }
    const bool contract = fd >= 0 && fd <= 9 && fv >= 0 && (int64_t)fv < POW10[fd];
    const bool hasfrac = contract && fv > 0 && fd > 0;
    cls(c.y < 1000 ? "year.1-999" : c.y < 1900 ? "year.1000-1899" : c.y < 1970 ? "year.1900-1969" : c.y == 1970 ? "year.1970"
        : c.y < 2038 ? "year.1971-2037" : c.y < 2100 ? "year.2038-2099" : "year.2100-9999");
    cls(t < 0 ? "t.negative" : t > 0x7FFFFFFFLL ? "t.>2^31" : "t.0..2^31");
    cls(!contract ? "frac.out-of-contract" : hasfrac ? fmt("frac.digits.%d", fd) : "frac.none");
    cls(lt.tm_isdst > 0 ? "local.dst" : "local.std");
    if(lt.tm_gmtoff % 3600) cls(lt.tm_gmtoff % 1800 ? "offset.odd-minutes" : "offset.half-hour");
    if(c.mo == 2 && c.d == 29) cls("leap-day");

    const std::string e14 = fmt("%04" PRId64 "%02u%02u%02u%02u%02u", c.y, c.mo, c.d, c.h, c.mi, c.s);
    std::string m;
    GeneralizedTime_t *gt = 0, *gt2 = 0;
    UTCTime_t *ut = 0;
    do {
        errno = 0;
        gt = asn_time2GT_frac(0, &lt, fv, fd, 1);
        if(!gt || !gt->buf) { m = fmt("asn_time2GT_frac(localtime_r(t), %d, %d, force_gmt=1) returned NULL, errno %d", fv, fd, errno); break; }
        const std::string text((const char *)gt->buf, gt->size);
        g_obs = text;
        std::string frac;
        if(!shape_gt(text, e14, frac)) { m = fmt("asn_time2GT_frac(.., %d, %d, 1) gave \"%s\", expected %s[.f]Z (UTC civil time of t)", fv, fd, text.c_str(), e14.c_str()); break; }
        if(contract) {
            if(!hasfrac && !frac.empty()) { m = fmt("fraction %d/10^%d is zero but the text is \"%s\"", fv, fd, text.c_str()); break; }
            if(hasfrac) {
                if(frac.empty()) { m = fmt("fraction %d/10^%d is missing from \"%s\"", fv, fd, text.c_str()); break; }
                uint64_t F = strtoull(frac.c_str(), 0, 10);
                if((u128)F * (u128)POW10[fd] != (u128)fv * (u128)POW10[frac.size()]) { m = fmt("\"%s\" does not carry the fraction %d/10^%d", text.c_str(), fv, fd); break; }
                if(frac.back() == '0') cls("frac.trailing-zero-kept");
            }
        }
        if(fv == 0 && fd == 0) {
            gt2 = asn_time2GT(0, &lt, 1);
            if(!gt2 || std::string((const char *)gt2->buf, gt2->size) != text) { m = "asn_time2GT and asn_time2GT_frac(0,0) disagree"; break; }
        } else {
            gt2 = asn_time2GT(0, &g, 0);    // something to be replaced below
            if(!gt2) { m = "asn_time2GT(gmtime_r(t), 0) returned NULL"; break; }
        }
        // a struct tm that already is GMT (tm_gmtoff == 0) must give the same text; reuses gt2 (old buffer is released)
        GeneralizedTime_t *r2 = asn_time2GT_frac(gt2, &g, fv, fd, 1);
        if(r2 != gt2 || std::string((const char *)gt2->buf, gt2->size) != text) {
            m = fmt("asn_time2GT_frac(gmtime_r(t)) gave \"%s\", from localtime_r(t) \"%s\"", r2 ? std::string((const char *)r2->buf, r2->size).c_str() : "NULL", text.c_str());
            if(r2 && r2 != gt2) ASN_STRUCT_FREE(asn_DEF_GeneralizedTime, r2);
            break;
        }
        // back
        for(int as_gmt = 0; as_gmt <= 1; as_gmt++) {
            errno = 0;
            time_t r = asn_GT2time(gt, 0, as_gmt);
            if(r != tt) { m = fmt("asn_GT2time(\"%s\", NULL, %d) returned %lld (errno %d), expected %lld", text.c_str(), as_gmt, (long long)r, errno, (long long)t); break; }
            if(t == -1) cls(fmt("t=-1.errno.%d", errno));
            // 1969-12-31T23:59:59Z: the result -1 is also the documented error value and the implementation takes the
            // error path (errno EINVAL, tm not filled); the statement only speaks about the returned value
            if(t == -1) continue;
            struct tm o; memset(&o, 0x5A, sizeof o);
            r = asn_GT2time(gt, &o, as_gmt);
            if(r != tt) { m = fmt("asn_GT2time(\"%s\", &tm, %d) returned %lld, expected %lld", text.c_str(), as_gmt, (long long)r, (long long)t); break; }
            if(as_gmt ? !tm_is(o, c) : !(tm_is(o, civil_from_time(t + lt.tm_gmtoff)) && o.tm_gmtoff == lt.tm_gmtoff && o.tm_isdst == lt.tm_isdst)) {
                m = fmt("asn_GT2time(\"%s\", &tm, as_gmt=%d) filled tm with %s, expected %s", text.c_str(), as_gmt, tm_str(o).c_str(), tm_str(as_gmt ? g : lt).c_str());
                break;
            }
        }
        if(!m.empty()) break;
        int bv = -7, bd = -7;
        time_t r = asn_GT2time_frac(gt, &bv, &bd, 0, 1);
        if(t == -1) { bv = frac.empty() ? 0 : (int)strtoull(frac.c_str(), 0, 10); bd = (int)frac.size(); }   // error path, see above
        if(r != tt) { m = fmt("asn_GT2time_frac(\"%s\") returned %lld, expected %lld", text.c_str(), (long long)r, (long long)t); break; }
        if(bd != (int)frac.size() || bd < 0 || bd > 9 || (int64_t)bv != (frac.empty() ? 0 : (int64_t)strtoull(frac.c_str(), 0, 10))) {
            m = fmt("asn_GT2time_frac(\"%s\") returned fraction %d/10^%d", text.c_str(), bv, bd); break;
        }
        if(contract && t != -1) {
            int pv = -7;
            r = asn_GT2time_prec(gt, &pv, fd, 0, 1);
            if(r != tt || pv != (fd > 0 ? fv : 0)) { m = fmt("asn_GT2time_prec(\"%s\", digits=%d) returned %lld fraction %d, expected %lld fraction %d", text.c_str(), fd, (long long)r, pv, (long long)t, fd > 0 ? fv : 0); break; }
        }
        // UTCTime
        g_count["time.ut"]++;
        errno = 0;
        ut = asn_time2UT(0, &lt, 1);
        if(!ut || !ut->buf) { m = fmt("asn_time2UT(localtime_r(t), 1) returned NULL, errno %d", errno); break; }
        const std::string utext((const char *)ut->buf, ut->size);
        g_obs += " " + utext;
        if(utext != e14.substr(2) + "Z") { m = fmt("asn_time2UT gave \"%s\", expected %sZ", utext.c_str(), e14.substr(2).c_str()); break; }
        // the implementation's window: first year digit above '5' is 19xx, otherwise 20xx (UTCTime.c, asn_UT2time)
        const bool inwin = c.y >= 1960 && c.y <= 2059;
        cls(inwin ? "ut.in-window" : "ut.outside-window");
        for(int as_gmt = 0; as_gmt <= 1; as_gmt++) {
            struct tm o; memset(&o, 0x5A, sizeof o);
            errno = 0;
            time_t u0 = asn_UT2time(ut, 0, as_gmt);
            time_t u1 = asn_UT2time(ut, &o, as_gmt);
            if(!inwin) continue;            // outside the window only "does not crash"
            if(t == -1) { if(u0 != tt || u1 != tt) { m = fmt("asn_UT2time(\"%s\") returned %lld / %lld, expected -1", utext.c_str(), (long long)u0, (long long)u1); break; } continue; }
            if(u0 != tt || u1 != tt) { m = fmt("asn_UT2time(\"%s\", as_gmt=%d) returned %lld / %lld, expected %lld", utext.c_str(), as_gmt, (long long)u0, (long long)u1, (long long)t); break; }
            if(as_gmt ? !tm_is(o, c) : !(tm_is(o, civil_from_time(t + lt.tm_gmtoff)) && o.tm_gmtoff == lt.tm_gmtoff)) {
                m = fmt("asn_UT2time(\"%s\", &tm, as_gmt=%d) filled tm with %s, expected %s", utext.c_str(), as_gmt, tm_str(o).c_str(), tm_str(as_gmt ? g : lt).c_str());
                break;
            }
        }
    } while(0);
    if(gt) ASN_STRUCT_FREE(asn_DEF_GeneralizedTime, gt);
    if(gt2) ASN_STRUCT_FREE(asn_DEF_GeneralizedTime, gt2);
    if(ut) ASN_STRUCT_FREE(asn_DEF_UTCTime, ut);
    return m;
}

// ------------------------------------------------------------------ the single entry point of every case
std::string exec_case(const std::string &line) {
    snprintf(g_cur, sizeof g_cur, "%s", line.c_str());
    g_obs.clear();
    std::vector<std::string> a = split(line, ' ');
    const std::string &kind = a[0];
    std::string m;
    bool nontrivial = false;
    std::vector<uint32_t> v;
    std::vector<uint8_t> b;
    if(kind == "oid.arcs" && a.size() == 2 && parse_arcs_arg(a[1], v)) {
        m = check_oid_arcs(v); nontrivial = nt_arcs(v);
    } else if(kind == "oid.badfirst" && a.size() == 2 && parse_arcs_arg(a[1], v)) {
        m = check_badfirst(v); nontrivial = nt_arcs(v);
    } else if(kind == "rel.arcs" && a.size() == 2 && parse_arcs_arg(a[1], v)) {
        m = check_rel_arcs(v); nontrivial = nt_arcs(v);
    } else if((kind == "oid.octets" || kind == "rel.octets") && a.size() == 2 && unhex(a[1], b)) {
        m = check_octets(kind[0] == 'r', b, nontrivial);
    } else if(kind == "oid.text" && a.size() == 5) {
        std::vector<uint8_t> pre, suf;
        if(!unhex(a[2], pre) || !unhex(a[3], suf)) return "CASE-ERROR: white space hex";
        m = check_text(split(a[1], '.'), pre, suf, atoi(a[4].c_str()), nontrivial);
    } else if(kind == "time" && a.size() == 4) {
        m = check_time(strtoll(a[1].c_str(), 0, 10), atoi(a[2].c_str()), atoi(a[3].c_str()), nontrivial);
        if(m == "ASSUME") return "";
    } else {
        return "CASE-ERROR: cannot parse the case line";
    }
    if(m.compare(0, 10, "CASE-ERROR") == 0) return m;
    uint64_t n = ++g_count[kind];
    g_eval++;
    note_case(line, nontrivial);
    if(nontrivial) g_count[kind + ".nontrivial"]++;
    if(m.empty() && (n & (n - 1)) == 0 && (n == 1 || n >= 64) && g_samples.size() < 64)   // 1st, 64th, 128th, ... case of each kind
        g_samples.push_back(line + " => " + g_obs);
    return m;
}

// ------------------------------------------------------------------ generators
// rapidcheck supplies (and shrinks) a vector of 64-bit words; a case is derived from the words.  A word that shrinks
// to 0 selects the simplest alternative and the smallest value, so rapidcheck's shrinking of the words shrinks the case.
// (One Gen per structural choice costs ~4 us per pick under ASan; the word vector costs ~2 us per word.)
rc::Gen<std::vector<uint64_t>> genWords(size_t k) {
    return rc::gen::container<std::vector<uint64_t>>(k, rc::gen::resize(rc::kNominalSize, rc::gen::arbitrary<uint64_t>()));
}
struct Ent {
    const std::vector<uint64_t> &w; size_t i;
    explicit Ent(const std::vector<uint64_t> &w_) : w(w_), i(0) {}
    uint64_t next() { return i < w.size() ? w[i++] : 0; }
    uint64_t below(uint64_t n) { return next() % n; }
};

const std::vector<uint32_t> ARC_BOUNDS = {0, 1, 127, 128, 16383, 16384, (1u << 21) - 1, 1u << 21, (1u << 28) - 1, 1u << 28, ARC_MAX};

uint32_t arc_of(uint64_t w) {
    const unsigned sel = (unsigned)(w >> 59);                  // 0..31
    const uint32_t lo = (uint32_t)w;
    const uint32_t mid = (uint32_t)((w >> 32) & 0x7FFFFFF);
    if(sel < 6) return lo % 400;
    if(sel < 14) return ARC_BOUNDS[mid % ARC_BOUNDS.size()];
    if(sel < 18) return ARC_BOUNDS[mid % ARC_BOUNDS.size()] + (lo % 5) - 2;        // neighbours, wraps around 0 / 2^32-1
    if(sel < 24) return lo;
    const unsigned bits = mid % 33;                             // uniform in the bit length
    return bits == 0 ? 0u : (uint32_t)((1ull << (bits - 1)) | (lo & ((1ull << (bits - 1)) - 1)));
}
const std::vector<uint32_t> SECOND2 = {0, 1, 39, 40, 47, 48, 49, 127, 128, 16383 - 80, 16384 - 80, 16385 - 80, (1u << 21) - 81, (1u << 21) - 80,
    (1u << 28) - 81, (1u << 28) - 80, 0x7FFFFFFFu - 80, 0x80000000u - 80, 0x80000000u, ARC_MAX - 83, ARC_MAX - 82, ARC_MAX - 81, ARC_MAX - 80};
uint32_t second_of(uint32_t first, uint64_t w) {
    if(first < 2) return (uint32_t)(w % 40);
    const unsigned sel = (unsigned)(w >> 61);                  // 0..7
    const uint32_t lo = (uint32_t)w;
    if(sel < 1) return lo % 200;
    if(sel < 4) return SECOND2[(w >> 32) % SECOND2.size()];
    if(sel < 6) return (uint32_t)((uint64_t)lo % ((uint64_t)ARC_MAX - 80 + 1));
    if(sel < 7) return ARC_MAX - 80 - lo % 2000;                // 40*2+b close to 2^32
    return lo % 40000;
}
std::vector<uint32_t> oidvec_of(Ent &e) {
    size_t n = 2 + e.below(19);
    uint32_t a = (uint32_t)e.below(3);
    std::vector<uint32_t> v = {a, second_of(a, e.next())};
    while(v.size() < n) v.push_back(arc_of(e.next()));
    return v;
}
std::vector<uint32_t> badfirst_of(Ent &e) {
    unsigned k = (unsigned)e.below(6);
    std::vector<uint32_t> v;
    uint64_t w1 = e.next(), w2 = e.next();
    if(k == 0) { if(w1 & 1) v.push_back(arc_of(w2)); return v; }
    uint32_t x = arc_of(w1), y = arc_of(w2);
    if(k == 1) v = {(uint32_t)(w1 >> 40) % 2, y < 40 ? y + 40 : y};
    else if(k == 2) v = {x < 3 ? x + 3 : x, y};
    else if(k == 3) v = {2, ARC_MAX - (uint32_t)(w2 % 80)};
    else if(k == 4) v = {(uint32_t)(w1 % 2), 40 + (uint32_t)(w2 % 260)};
    else v = {3 + (uint32_t)(w1 % 297), (uint32_t)(w2 % 40)};
    size_t n = e.below(6);
    while(n--) v.push_back(arc_of(e.next()));
    return v;
}
// contents octets: 0..8 subidentifiers; each minimal / 0x80-padded / above 2^32-1 / (last one) cut
std::vector<uint8_t> octets_of(Ent &e, bool allow_overflow) {
    size_t n = e.below(9);
    std::vector<uint8_t> out;
    for(size_t i = 0; i < n; i++) {
        uint64_t wk = e.next(), wv = e.next();
        unsigned sel = (unsigned)(wk >> 60);                    // 0..15: 0-8 minimal, 9-11 padded, 12-14 overflow, 15 cut
        u128 val = arc_of(wv);
        if(i == 0 && (wk & 3) == 0) val = (uint32_t)wv % 200;    // small first subidentifier: all three roots
        int pad = 0;
        bool cut = false;
        if(sel >= 9 && sel <= 11) pad = 1 + (int)((wk >> 8) % 3);
        else if(sel >= 12 && sel <= 14) {
            if(allow_overflow) {
                unsigned w = (unsigned)((wk >> 8) % 5);
                uint64_t r = wv & 0xFFFFFFFFull;
                if(w == 0) val = ((u128)1 << 32) + (r & 0xff);
                else if(w == 1) val = ((u128)1 << 32) | r;              // the low 32 bits look like a plausible arc
                else if(w == 2) val = ((u128)((wv >> 32) | 1) << 32) | r;
                else if(w == 3) val = (u128)1 << (32 + (wk >> 16) % 60);
                else val = (((u128)1 << 35) - 1) + (r & 1);
                if(((wk >> 24) & 3) == 0) pad = 1;
            }
        } else if(sel == 15) { pad = (int)((wk >> 8) % 3); cut = i == n - 1; }
        for(int k = 0; k < pad; k++) out.push_back(0x80);
        ref_subid(val, out);
        if(cut) out.back() |= 0x80;                              // continuation bit on the final octet
    }
    return out;
}
std::string bigdec(u128 v) {
    if(!v) return "0";
    std::string s;
    while(v) { s += (char)('0' + (int)(v % 10)); v /= 10; }
    std::reverse(s.begin(), s.end());
    return s;
}
std::vector<uint8_t> ws_of(uint64_t w) {
    static const uint8_t WS[] = {0x20, 0x09, 0x0a, 0x0d};
    static const size_t LEN[] = {0, 0, 0, 0, 0, 1, 1, 1, 2, 3};
    size_t n = LEN[(w >> 32) % 10];
    std::vector<uint8_t> out;
    for(size_t i = 0; i < n; i++) out.push_back(WS[(w >> (2 * i)) & 3]);
    return out;
}
std::string text_case_of(Ent &e) {
    size_t n = 1 + e.below(24);
    uint64_t wb = e.next();
    int bigpos = (wb >> 32) % 8 == 7 ? (int)(wb % n) : -1;
    std::string toks;
    for(size_t i = 0; i < n; i++) {
        uint32_t a = arc_of(e.next());
        if(i) toks += '.';
        if((int)i == bigpos) {
            unsigned w = (unsigned)((wb >> 40) % 4);
            u128 x = w == 0 ? ((u128)1 << 32) : w == 1 ? ((u128)1 << 32) + a : w == 2 ? ((u128)1 << 64) + a : (u128)a * 10 + ((u128)5 << 32);
            toks += bigdec(x);
        } else toks += std::to_string(a);
    }
    uint64_t ww = e.next();
    return "oid.text " + toks + " " + hexs(ws_of(ww)) + " " + hexs(ws_of(ww >> 8 | ww << 56)) + " " + std::to_string((int)((ww >> 48) & 1));
}

const std::vector<std::pair<int, int>> FRACS = {{0, 0}, {5, 1}, {5, 2}, {50, 2}, {55, 2}, {1, 9}, {999999999, 9}, {123456789, 9}, {100000000, 9},
    {120, 3}, {999, 3}, {1, 3}, {0, 5}, {7, 0}, {500000, 6}};
std::pair<int, int> frac_of(uint64_t w) {
    const unsigned sel = (unsigned)(w >> 59);                   // 0..31
    const uint64_t lo = w & 0xFFFFFFFFFFull;
    if(sel < 10) return {0, 0};
    if(sel == 30) return {(int)(lo % 14) - 2, (int)((w >> 40) % 15) - 2};                // out of contract: digits -2..12
    if(sel == 31) return {(int)(lo % ((uint64_t)INT_MAX + 1)), (int)((w >> 40) % 10)};
    int fd = (int)((w >> 40) % 10);
    int64_t p = POW10[fd];
    unsigned k = (sel - 10) % 6;
    int64_t fv;
    if(k == 0) fv = 0;
    else if(k == 1) fv = p - 1;
    else if(k == 2) fv = p > 1 ? 1 : 0;
    else if(k == 3) { int z = (int)((w >> 48) % (unsigned)(fd + 1)); fv = (int64_t)(lo % (uint64_t)POW10[fd - z]) * POW10[z]; }   // trailing zeros
    else fv = (int64_t)(lo % (uint64_t)p);
    return {(int)fv, fd};
}
std::vector<int64_t> time_bounds() {
    std::vector<int64_t> b = {0, 1, -1, 0x7FFFFFFFLL, 0x80000000LL, -0x80000000LL, -0x80000001LL, 0xFFFFFFFFLL, 0x100000000LL, T_MIN, T_MAX,
        time_from_civil(1950, 1, 1), time_from_civil(1949, 12, 31, 23, 59, 59), time_from_civil(2049, 12, 31, 23, 59, 59), time_from_civil(2050, 1, 1),
        time_from_civil(1960, 1, 1), time_from_civil(1959, 12, 31, 23, 59, 59), time_from_civil(2059, 12, 31, 23, 59, 59), time_from_civil(2060, 1, 1),
        time_from_civil(1970, 12, 31, 23, 59, 59), time_from_civil(1971, 1, 1), time_from_civil(1969, 12, 31), time_from_civil(2000, 1, 1),
        time_from_civil(1999, 12, 31, 23, 59, 59), time_from_civil(2000, 2, 29, 12), time_from_civil(1900, 2, 28, 23, 59, 59), time_from_civil(1900, 3, 1),
        time_from_civil(2100, 2, 28, 23, 59, 59), time_from_civil(2100, 3, 1), time_from_civil(2400, 2, 29), time_from_civil(1600, 2, 29),
        time_from_civil(2024, 2, 29, 23, 59, 59), time_from_civil(4, 2, 29), time_from_civil(1000, 1, 1), time_from_civil(999, 12, 31, 23, 59, 59),
        time_from_civil(1, 12, 31, 23, 59, 59), time_from_civil(9999, 1, 1), time_from_civil(1582, 10, 15), time_from_civil(1883, 11, 18, 17),
        time_from_civil(1994, 12, 31, 10), time_from_civil(2011, 12, 30, 10),        // Kiritimati / date-line moves
        time_from_civil(2024, 3, 10, 7), time_from_civil(2024, 11, 3, 6), time_from_civil(2024, 4, 6, 15), time_from_civil(2024, 10, 5, 15, 30)};
    return b;
}
const std::vector<int64_t> T_DELTAS = {0, 1, -1, 59, 60, -60, 1800, -1800, 3599, 3600, -3600, 12600, -12600, 19800, -19800, 37800, 39600, -39600,
    50400, -50400, 86399, 86400, -86400};
int64_t t_of(uint64_t w, uint64_t aux) {
    static const std::vector<int64_t> TB = time_bounds();
    static const int64_t EDGES[] = {time_from_civil(1950, 1, 1), time_from_civil(2050, 1, 1), time_from_civil(1960, 1, 1), time_from_civil(2060, 1, 1)};
    const unsigned sel = (unsigned)(w >> 60);                   // 0..15
    const int64_t lo = (int64_t)(w & 0xFFFFFFFFFFFFull);        // 48 bits
    const bool neg = (aux >> 63) != 0;
    int64_t t;
    if(sel < 3) t = neg ? -(lo % (1LL << 31)) : lo % (1LL << 31);                              // around the epoch, shrinks towards 0
    else if(sel < 5) { unsigned bits = (unsigned)(aux % 38); int64_t mag = lo & ((1LL << bits) - 1); t = neg ? -mag : mag; }
    else if(sel < 8) t = TB[(size_t)(lo % (int64_t)TB.size())] + T_DELTAS[(size_t)(aux % T_DELTAS.size())];
    else if(sel < 10) t = time_from_civil(1960, 1, 1) + lo % (time_from_civil(2060, 1, 1) - time_from_civil(1960, 1, 1));
    else if(sel < 13) t = T_MIN + (int64_t)((((u128)w & 0xFFFFFFFFFFFFFFFull) * (u128)(aux | 1)) % (u128)(T_MAX - T_MIN + 1));
    else if(sel < 14) t = EDGES[aux % 4] + lo % 200000 - 100000;
    else t = time_from_civil(2020, 1, 1) + lo % (time_from_civil(2030, 1, 1) - time_from_civil(2020, 1, 1));
    if(t < T_MIN) t = T_MIN + (T_MIN - t) % 86400;
    if(t > T_MAX) t = T_MAX - (t - T_MAX) % 86400;
    return t;
}

// ------------------------------------------------------------------ drivers
int g_failures = 0;
void report_fail(const std::string &line, const std::string &msg) {
    g_failures++;
    std::string m = msg;
    for(char &c : m) if(c == '\n') c = ' ';
    printf("FAIL %s :: %s\n", line.c_str(), m.c_str());
    fflush(stdout);
}
void run_prop(const char *name, std::function<std::string()> make_line) {
    g_last_fail_line.clear();
    bool ok = rc::check(name, [&]() {
        std::string line = make_line();
        std::string m = exec_case(line);
        if(!m.empty()) { g_last_fail_line = line; g_last_fail_msg = m; RC_FAIL(m); }
    });
    if(!ok) report_fail(g_last_fail_line.empty() ? std::string("none - ") + name : g_last_fail_line,
                        g_last_fail_line.empty() ? "rapidcheck reported a failure without a recorded case" : g_last_fail_msg);
}
std::map<std::string, int> g_sweep_fails;
void sweep_case(const std::string &line) {
    std::string m = exec_case(line);
    if(!m.empty()) {
        std::string kind = line.substr(0, line.find(' '));
        if(g_sweep_fails[kind]++ < 3) report_fail(line, m); else g_failures++;
    }
}
struct SplitMix { uint64_t s; uint64_t next() { uint64_t z = (s += 0x9E3779B97F4A7C15ull); z = (z ^ (z >> 30)) * 0xBF58476D1CE4E5B9ull; z = (z ^ (z >> 27)) * 0x94D049BB133111EBull; return z ^ (z >> 31); } };

void random_oid(bool allow_overflow) {
    run_prop("oid.arcs", []() { auto w = *genWords(22); Ent e(w); return "oid.arcs " + join_arcs(oidvec_of(e)); });
    run_prop("oid.badfirst", []() { auto w = *genWords(9); Ent e(w); return "oid.badfirst " + join_arcs(badfirst_of(e)); });
    run_prop("rel.arcs", []() {
        auto w = *genWords(21); Ent e(w);
        size_t n = e.below(21);
        std::vector<uint32_t> v;
        while(v.size() < n) v.push_back(arc_of(e.next()));
        return "rel.arcs " + join_arcs(v);
    });
    run_prop("oid.octets", [=]() {
        auto w = *genWords(18); Ent e(w);
        bool rel = e.below(3) == 2;
        return std::string(rel ? "rel.octets " : "oid.octets ") + hexs(octets_of(e, allow_overflow));
    });
    run_prop("oid.text", []() { auto w = *genWords(27); Ent e(w); return text_case_of(e); });
}
void random_time() {
    run_prop("time", []() {
        auto w = *genWords(3);
        std::pair<int, int> f = frac_of(w[2]);
        return fmt("time %lld %d %d", (long long)t_of(w[0], w[1]), f.first, f.second);
    });
}

void sweep_oid(uint64_t seed, bool allow_overflow) {
    SplitMix sm{seed};
    const std::vector<uint32_t> &B = ARC_BOUNDS;
    // A: every first pair, alone and followed by every boundary arc
    std::vector<std::pair<uint32_t, uint32_t>> firsts;
    for(uint32_t a = 0; a < 2; a++) for(uint32_t b = 0; b < 40; b++) firsts.push_back({a, b});
    for(uint32_t b : SECOND2) firsts.push_back({2, b});
    for(uint32_t k = 0; k < 300; k++) firsts.push_back({2, k});
    for(auto &f : firsts) {
        sweep_case(fmt("oid.arcs %u.%u", f.first, f.second));
        for(uint32_t x : B) sweep_case(fmt("oid.arcs %u.%u.%u", f.first, f.second, x));
    }
    // B: the full product of the boundary set over 1..4 further arcs
    const std::pair<uint32_t, uint32_t> base[] = {{1, 3}, {2, ARC_MAX - 80}};
    for(auto &f : base) for(int k = 1; k <= 4; k++) {
        size_t total = 1; for(int i = 0; i < k; i++) total *= B.size();
        for(size_t idx = 0; idx < total; idx++) {
            std::vector<uint32_t> v = {f.first, f.second};
            size_t r = idx;
            for(int i = 0; i < k; i++) { v.push_back(B[r % B.size()]); r /= B.size(); }
            sweep_case("oid.arcs " + join_arcs(v));
            if(f.first == 1) sweep_case("rel.arcs " + join_arcs(std::vector<uint32_t>(v.begin() + 2, v.end())));
            if(f.first == 1 && k <= 3) sweep_case("oid.text " + join_arcs(std::vector<uint32_t>(v.begin() + 2, v.end())) + " - - " + std::to_string(idx & 1));
        }
    }
    // C: every length, every position, every boundary value, four fillers
    for(size_t L = 3; L <= 20; L++) for(size_t pos = 2; pos < L; pos++) for(uint32_t x : B) for(int fill = 0; fill < 4; fill++) {
        std::vector<uint32_t> v(L);
        v[0] = (uint32_t)(L % 3); v[1] = v[0] == 2 ? (fill & 1 ? ARC_MAX - 80 : 999) : (uint32_t)(L + pos) % 40;
        for(size_t i = 2; i < L; i++) v[i] = fill == 0 ? 0 : fill == 1 ? 1 : fill == 2 ? ARC_MAX : (uint32_t)sm.next();
        v[pos] = x;
        sweep_case("oid.arcs " + join_arcs(v));
        sweep_case("rel.arcs " + join_arcs(v));
        if(fill >= 2) sweep_case("oid.text " + join_arcs(v) + (fill == 2 ? " 20 0a 1" : " 0d09 2020 0"));
    }
    sweep_case("rel.arcs -");
    for(uint32_t x : B) { sweep_case(fmt("rel.arcs %u", x)); sweep_case(fmt("oid.text %u - - 0", x)); sweep_case(fmt("oid.text %u 20 20 1", x)); }
    // D: invalid first pairs
    const char *bad[] = {"-", "0", "2", "0.40", "1.40", "0.4294967295", "1.128", "3.0", "3.5.1", "4294967295.0", "40.1", "2.4294967216", "2.4294967295",
                         "2.4294967216.1", "0.40.1.2", "128.128.128"};
    for(const char *s : bad) sweep_case(std::string("oid.badfirst ") + s);
    // E: contents octets: every boundary value minimal and padded, first and later position, cut variants, overflow
    std::vector<u128> vals(B.begin(), B.end());
    if(allow_overflow) for(u128 x : {(u128)1 << 32, ((u128)1 << 32) + 1, ((u128)1 << 32) + 128, ((u128)1 << 35) - 1, (u128)1 << 35, (u128)1 << 39,
                                    ((u128)1 << 40) + 5, (u128)1 << 63, (u128)1 << 64, ((u128)1 << 70) + 3, (u128)0xFFFFFFFFFFFFFFFFull}) vals.push_back(x);
    for(int rel = 0; rel < 2; rel++) {
        const char *k = rel ? "rel.octets " : "oid.octets ";
        sweep_case(std::string(k) + "-");
        for(size_t i = 0; i < vals.size(); i++) for(int pad = 0; pad < 3; pad++) for(int posn = 0; posn < 3; posn++) for(int cut = 0; cut < 2; cut++) {
            std::vector<uint8_t> o;
            if(posn >= 1) o.push_back(0x2a);
            for(int p = 0; p < pad; p++) o.push_back(0x80);
            ref_subid(vals[i], o);
            if(cut) o.back() |= 0x80;
            if(posn == 2) { o.push_back(0x81); o.push_back(0x00); }
            if(cut && posn == 2) continue;
            sweep_case(k + hexs(o));
        }
        for(int b0 = 0; b0 < 256; b0++) { uint8_t o[2] = {(uint8_t)b0, 0x05}; sweep_case(k + hexs(o, 1)); sweep_case(k + hexs(o, 2)); }
    }
    // F: text with an arc above 2^32-1 (documented: no arc can exceed UINT32_MAX) and white-space variants
    const char *tx[] = {"4294967296", "1.4294967296.3", "1.2.4294967296", "18446744073709551616.1", "1.18446744073709551615", "1.99999999999999999999999",
                        "4294967295.4294967295", "0.0", "0", "2.999.4294967295"};
    const char *ws[] = {"-", "20", "09", "0a", "0d", "200d0a09"};
    for(const char *t : tx) for(const char *p : ws) for(const char *s : ws) for(int lm = 0; lm < 2; lm++)
        sweep_case(fmt("oid.text %s %s %s %d", t, p, s, lm));
}

void sweep_time(uint64_t seed) {
    SplitMix sm{seed};
    std::vector<int64_t> TB = time_bounds();
    auto one = [&](int64_t t, int fv, int fd) { if(t >= T_MIN && t <= T_MAX) sweep_case(fmt("time %lld %d %d", (long long)t, fv, fd)); };
    // boundaries x deltas x fractions
    for(int64_t b : TB) for(int64_t d : T_DELTAS) for(auto &f : FRACS) one(b + d, f.first, f.second);
    // every digit count with first/last/one-digit values
    for(int fd = 0; fd <= 9; fd++) for(int64_t fv : {(int64_t)0, (int64_t)1, POW10[fd] - 1, POW10[fd] / 2, POW10[fd] / 10, (int64_t)(sm.next() % POW10[fd])})
        for(int64_t t : {(int64_t)0, (int64_t)-1, (int64_t)1700000000, T_MIN, T_MAX, time_from_civil(1950, 1, 1), time_from_civil(2049, 12, 31, 23, 59, 59)})
            one(t, (int)fv, fd);
    // out-of-contract fraction arguments: no crash, the time itself still round-trips
    for(int fv : {-1, 0, 1, 10, 900, INT_MAX}) for(int fd : {-1, 0, 1, 2, 10, 11, 12}) one(86400 * 365 + 1, fv, fd);
    // every year: its first and last second, end of February, a leap day, a mid-year instant
    for(int64_t y = 1; y <= 9999; y++) {
        int k = (int)(y % FRACS.size());
        one(time_from_civil(y, 1, 1), FRACS[k].first, FRACS[k].second);
        one(time_from_civil(y, 12, 31, 23, 59, 59), 0, 0);
        one(time_from_civil(y, 2, 28, 23, 59, 59), 0, 0);
        one(time_from_civil(y, 3, 1), 0, 0);
        one(time_from_civil(y, 3, 1) - 86400 + 43200, 5, 1);            // Feb 29 in leap years, else Feb 28
        one(time_from_civil(y, 7, 1, 12, 34, 56) + (int64_t)(sm.next() % 86400), 0, 0);
    }
    // every half hour of 2023-2025 (DST switches of every zone), every hour of 1941-1943 and 1967-1971
    for(int64_t t = time_from_civil(2023, 1, 1); t < time_from_civil(2025, 1, 1); t += 1800) one(t + (int64_t)(sm.next() % 3 == 0 ? -1 : 0), 0, 0);
    for(int64_t t = time_from_civil(1941, 1, 1); t < time_from_civil(1943, 1, 1); t += 3600) one(t, 0, 0);
    for(int64_t t = time_from_civil(1967, 1, 1); t < time_from_civil(1971, 6, 1); t += 3600) one(t + 1799, 0, 0);
}

int libc_selfcheck() {
    int bad = 0;
    for(int64_t b : time_bounds()) for(int64_t d : {(int64_t)0, (int64_t)-1, (int64_t)1}) {
        int64_t t = b + d;
        if(t < T_MIN || t > T_MAX) continue;
        time_t tt = (time_t)t; struct tm g;
        if(!gmtime_r(&tt, &g) || !tm_is(g, civil_from_time(t)) || timegm(&g) != tt || time_from_civil(civil_from_time(t).y, civil_from_time(t).mo, civil_from_time(t).d,
               civil_from_time(t).h, civil_from_time(t).mi, civil_from_time(t).s) != t) { bad++; fprintf(stderr, "libc self-check: gmtime_r/timegm disagree with the civil calendar at %lld\n", (long long)t); }
    }
    return bad;
}

void dump(const std::string &ntfile) {
    for(auto &kv : g_count) printf("COUNT %s %" PRIu64 "\n", kv.first.c_str(), kv.second);
    for(auto &kv : g_class) printf("CLASS %s %" PRIu64 "\n", kv.first.c_str(), kv.second);
    for(auto &kv : g_assume) printf("ASSUME %s %" PRIu64 "\n", kv.first.c_str(), kv.second);
    const std::string tzp = g_tz.empty() ? std::string() : "TZ=" + g_tz + " ";
    for(auto &s : g_samples) printf("SAMPLE %s%s\n", tzp.c_str(), s.c_str());
    printf("EVAL %" PRIu64 "\n", g_eval);
    printf("DISTINCT %zu\n", g_seen.size());
    printf("NT %zu\n", g_nt.size());
    if(!ntfile.empty()) {
        FILE *f = fopen(ntfile.c_str(), "wb");
        if(!f) { printf("ERROR cannot write %s\n", ntfile.c_str()); return; }
        std::vector<uint64_t> v(g_nt.begin(), g_nt.end());
        std::sort(v.begin(), v.end());
        if(!v.empty() && fwrite(v.data(), sizeof(uint64_t), v.size(), f) != v.size()) printf("ERROR short write %s\n", ntfile.c_str());
        fclose(f);
    }
}

}  // namespace

int main(int argc, char **argv) {
    std::string part = "oid", mode = "random", file, ntfile;
    uint64_t seed = 20240928; long cases = 1000; int maxsize = 100;
    for(int i = 1; i < argc; i++) {
        std::string a = argv[i];
        auto val = [&]() -> std::string { if(i + 1 >= argc) { fprintf(stderr, "missing value for %s\n", a.c_str()); exit(2); } return argv[++i]; };
        if(a == "--part") part = val();
        else if(a == "--mode") mode = val();
        else if(a == "--file") file = val();
        else if(a == "--seed") seed = strtoull(val().c_str(), 0, 10);
        else if(a == "--cases") cases = atol(val().c_str());
        else if(a == "--max-size") maxsize = atoi(val().c_str());
        else if(a == "--nt-file") ntfile = val();
        else if(a == "--exclude") { for(auto &c : split(val(), ',')) if(!c.empty()) g_exclude.insert(c); }
        else if(mode == "replay" && file.empty() && a[0] != '-') file = a;
        else { fprintf(stderr, "unknown argument %s\n", a.c_str()); return 2; }
    }
    if((part != "oid" && part != "time") || (mode != "sweep" && mode != "random" && mode != "replay")) { fprintf(stderr, "bad --part/--mode\n"); return 2; }
    tzset();
    const char *tz = getenv("TZ");
    g_tz = (part == "time" || mode == "replay") && tz ? tz : "";
    setvbuf(stdout, 0, _IOLBF, 0);
    g_cur[0] = 0;
    __sanitizer_set_death_callback(death_cb);
    signal(SIGABRT, abort_handler);        // assert() inside the library
    // every run is a function of the seed: rapidcheck reads RC_PARAMS; compose it unless the caller did
    if(!getenv("RC_PARAMS")) {
        std::string p = fmt("seed=%" PRIu64 " max_success=%ld max_size=%d", seed, cases, maxsize);
        setenv("RC_PARAMS", p.c_str(), 1);
    }
    const bool allow_overflow = !g_exclude.count("oid.subid-overflow.silent-wrap");
    printf("C17 part=%s mode=%s seed=%" PRIu64 " TZ=%s RC_PARAMS=%s exclude=%zu\n", part.c_str(), mode.c_str(), seed, tz ? tz : "(unset)",
           mode == "random" ? getenv("RC_PARAMS") : "-", g_exclude.size());
    if(part == "time" || mode == "replay") {
        if(libc_selfcheck()) { printf("RESULT libc-selfcheck-failed\n"); return 3; }
    }
    if(mode == "replay") {
        FILE *f = fopen(file.c_str(), "r");
        if(!f) { fprintf(stderr, "cannot open %s\n", file.c_str()); return 2; }
        char buf[8192]; int n = 0, errs = 0;
        while(fgets(buf, sizeof buf, f)) {
            std::string line = buf;
            while(!line.empty() && (line.back() == '\n' || line.back() == '\r' || line.back() == ' ')) line.pop_back();
            if(line.empty() || line[0] == '#') continue;
            n++;
            std::string m = exec_case(line);
            if(m.compare(0, 10, "CASE-ERROR") == 0) { printf("ERROR %s :: %s\n", line.c_str(), m.c_str()); errs++; }
            else if(!m.empty()) report_fail(line, m);
            else printf("PASS %s => %s\n", line.c_str(), g_obs.c_str());
        }
        fclose(f);
        dump("");
        if(errs || !n) { printf("RESULT error\n"); return 2; }
        printf("RESULT %s\n", g_failures ? "fail" : "ok");
        return g_failures ? 1 : 0;
    }
    if(mode == "sweep") {
        if(part == "oid") sweep_oid(seed, allow_overflow); else sweep_time(seed);
    } else {
        if(part == "oid") random_oid(allow_overflow); else random_time();
    }
    if(!allow_overflow) printf("EXCLUDED known:oid.subid-overflow.silent-wrap 1\n");
    dump(ntfile);
    printf("RESULT %s\n", g_failures ? "fail" : "ok");
    return g_failures ? 1 : 0;
}
