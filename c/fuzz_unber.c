/*
 * C20: libFuzzer target over unber_stream() (asn1-tools/unber/libasn1_unber_tool.c).
 *
 * Same shape as the repository's own (compiled-out) harness asn1-tools/unber/check_unber.c:
 * the input is served through an in-memory input_stream_t.  Differences:
 *   - the first input octet selects the tool's options (pretty-printing on/off = "-p",
 *     minimalistic = "-m", single type = "-1", indentation = "-i"), so that all output paths
 *     of print_TL()/print_V() are reachable; the remaining octets are the BER stream;
 *   - the output is really formatted (vsnprintf into a small buffer) instead of being ignored,
 *     so that a format string / argument mismatch is seen by the sanitizers.
 * Oracle: no crash, no sanitizer report, no leak; plus two cheap stream invariants
 * (unber_stream() returns 0 or -1 and never reads past the end of the buffer).
 */
#include <stdio.h>
#include <stdlib.h>
#include <stdint.h>
#include <stdarg.h>
#include <string.h>
#include <sys/types.h>

#include "libasn1_unber_tool.h"

struct memory_buffer_stream {
    input_stream_t istream;
    const uint8_t *data;
    size_t size;
    size_t offset;
    size_t eof_reads;
};

static int
mbs_nextChar(input_stream_t *ibs) {
    struct memory_buffer_stream *bs = (struct memory_buffer_stream *)ibs;
    if(bs->offset < bs->size) return bs->data[bs->offset++];
    bs->eof_reads++;
    return -1;
}

static off_t
mbs_bytesRead(input_stream_t *ibs) {
    struct memory_buffer_stream *bs = (struct memory_buffer_stream *)ibs;
    return (off_t)bs->offset;
}

static size_t out_bytes;

static int
fmt_vprintf(output_stream_t *os, const char *fmt, va_list ap) {
    char buf[512];
    int ret;
    (void)os;
    ret = vsnprintf(buf, sizeof(buf), fmt, ap);
    if(ret < 0) abort(); /* the tool's format strings are all valid */
    out_bytes += (size_t)ret;
    return ret;
}

int LLVMFuzzerTestOneInput(const uint8_t *Data, size_t Size);

int
LLVMFuzzerTestOneInput(const uint8_t *Data, size_t Size) {
    struct memory_buffer_stream mbs;
    struct output_stream os;
    unsigned opt;
    int ret;

    if(Size < 1) return 0;
    opt = Data[0];
    Data++;
    Size--;

    set_pretty_printing((opt & 1) ? 0 : 1);     /* bit 0 set = "-p" */
    set_minimalistic_output((opt & 2) ? 1 : 0); /* "-m" */
    set_single_type_decoding((opt & 4) ? 1 : 0); /* "-1" */
    if(set_indent_size((opt >> 3) & 15) != 0) abort(); /* 0..15 are the documented range */
    if(set_skip_bytes(0) != 0) abort();

    memset(&mbs, 0, sizeof(mbs));
    mbs.istream.nextChar = mbs_nextChar;
    mbs.istream.bytesRead = mbs_bytesRead;
    mbs.data = Data;
    mbs.size = Size;

    os.vprintf = fmt_vprintf;
    os.vprintfError = fmt_vprintf;

    out_bytes = 0;
    ret = unber_stream("<fuzzed-input>", &mbs.istream, &os);

    if(ret != 0 && ret != -1) abort();
    if(mbs.offset > mbs.size) abort();
    /* after the first EOF the tool must stop asking for input (at most once per open frame is
     * impossible to bound cheaply; a runaway loop on EOF would be a hang, caught by -timeout) */
    return 0;
}
