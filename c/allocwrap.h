#ifndef ALLOCWRAP_H
#define ALLOCWRAP_H
#include <stddef.h>
/* Ledger over malloc/calloc/realloc/free of everything linked with -Wl,--wrap=... */
extern long aw_live;        /* live blocks */
extern long aw_allocs;      /* allocation calls since aw_arm() */
extern long aw_fail_at;     /* index (0-based, counted from aw_arm) of the allocation that fails; -1: none */
extern long aw_fired;       /* number of injected failures that happened */
extern size_t aw_cur_bytes; /* live bytes (usable size) */
extern size_t aw_peak_bytes;/* peak of aw_cur_bytes since aw_arm() */
extern size_t aw_max_req;   /* largest single request ever made (failed ones included); reset it by assignment */
void aw_arm(long fail_at);
void aw_disarm(void);
#endif
