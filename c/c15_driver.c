/*
 * C15 driver (bounded stack and heap while decoding).  Linked with the code asn1c generated for one
 * module (-pdu=all), a skeleton library built from /repo and the allocation ledger (allocwrap.c).
 * One command per line, one reply line per command.  Every decode runs in a forked child so that
 * stack exhaustion (SIGSEGV), an abort or a runaway allocation is an observation, not the end of the driver.
 *
 *   info T
 *       -> ok ssum=<sum of struct sizes over the closure of T, 64 for every non-constructed type> ntypes=<n>
 *   run T syntax ctx stk segs
 *       syntax : ber | boer | uper | xer (as the generic driver)
 *       ctx    : d        asn_decode(NULL ctx ...): the library installs ASN__DEFAULT_STACK_MAX
 *                <N>      caller-supplied asn_codec_ctx_t { .max_stack_size = N }
 *       stk    : m        main thread, stack limit inherited (8 MiB)
 *                r<KiB>   main thread after setrlimit(RLIMIT_STACK, KiB)
 *                t<KiB>   a thread whose stack (KiB, guard page below, painted) is supplied by the driver;
 *                         reports the high-water mark as su=
 *       segs   : hex*count,hex*count,...   the input is the concatenation ("-" = empty input)
 *       -> ok n=<input bytes> rc=<0|1|2> consumed= peak=<peak live heap bytes during the decode, usable sizes>
 *             maxreq=<largest single allocation request, failed ones included> allocs= live=<blocks held by the
 *             result> leak=<blocks still live after ASN_STRUCT_FREE> su=<stack bytes used or -1>
 *     (environment: C15_AS_MB = RLIMIT_AS of the child in MiB, C15_ALARM_S = alarm() of the child, default 120)
 *       -> killed sig=<signal> so=<1|0> n=<input bytes>   the child died; so=1: SIGSEGV/SIGBUS whose fault address lies
 *             in the guard page of the supplied stack (t) or within 1 MiB of the stack pointer (m, r): stack exhaustion
 */
#define _GNU_SOURCE
#include <stdio.h>
#include <stdlib.h>
#include <string.h>
#include <errno.h>
#include <stdint.h>
#include <unistd.h>
#include <signal.h>
#include <pthread.h>
#include <sys/mman.h>
#include <sys/resource.h>
#include <sys/wait.h>
#include <asn_application.h>
#include <asn_internal.h>
#include <constr_SEQUENCE.h>
#include <constr_SET.h>
#include <constr_CHOICE.h>
#include <constr_SET_OF.h>
#include <constr_SEQUENCE_OF.h>
#include <ucontext.h>
#include "allocwrap.h"

extern asn_TYPE_descriptor_t *asn_pdu_collection[];

static asn_TYPE_descriptor_t *find_type(const char *name) {
    for(size_t i = 0; asn_pdu_collection[i]; i++)
        if(strcmp(asn_pdu_collection[i]->name, name) == 0) return asn_pdu_collection[i];
    return 0;
}

static int syntax_of(const char *s, enum asn_transfer_syntax *ats) {
    if(!strcmp(s, "ber")) *ats = ATS_BER;
    else if(!strcmp(s, "boer")) *ats = ATS_BASIC_OER;
    else if(!strcmp(s, "oer")) *ats = ATS_CANONICAL_OER;
    else if(!strcmp(s, "uper")) *ats = ATS_UNALIGNED_BASIC_PER;
    else if(!strcmp(s, "xer")) *ats = ATS_BASIC_XER;
    else return -1;
    return 0;
}

static int has_dec(const asn_TYPE_descriptor_t *td, enum asn_transfer_syntax a) {
    switch(a) {
    case ATS_BER: return td->op->ber_decoder != 0;
    case ATS_UNALIGNED_BASIC_PER: return td->op->uper_decoder != 0;
    case ATS_BASIC_OER: case ATS_CANONICAL_OER: return td->op->oer_decoder != 0;
    default: return td->op->xer_decoder != 0;
    }
}

/* ------------------------------------------------------------------ descriptor walk */
static size_t struct_size_of(const asn_TYPE_descriptor_t *td) {
    if(td->op == &asn_OP_SEQUENCE) return ((const asn_SEQUENCE_specifics_t *)td->specifics)->struct_size;
    if(td->op == &asn_OP_SET) return ((const asn_SET_specifics_t *)td->specifics)->struct_size;
    if(td->op == &asn_OP_CHOICE) return ((const asn_CHOICE_specifics_t *)td->specifics)->struct_size;
    if(td->op == &asn_OP_SET_OF || td->op == &asn_OP_SEQUENCE_OF)
        return ((const asn_SET_OF_specifics_t *)td->specifics)->struct_size;
    return 64;     /* INTEGER_t, OCTET_STRING_t (with its decoding context), REAL_t, long, double ...: all <= 64 */
}
#define MAXSEEN 4096
static const asn_TYPE_descriptor_t *seen[MAXSEEN];
static size_t nseen;
static void walk(const asn_TYPE_descriptor_t *td, size_t *sum) {
    for(size_t i = 0; i < nseen; i++) if(seen[i] == td) return;
    if(nseen >= MAXSEEN) return;
    seen[nseen++] = td;
    *sum += struct_size_of(td);
    if(td->op == &asn_OP_SEQUENCE || td->op == &asn_OP_SET || td->op == &asn_OP_CHOICE
       || td->op == &asn_OP_SET_OF || td->op == &asn_OP_SEQUENCE_OF)
        for(unsigned i = 0; i < td->elements_count; i++) walk(td->elements[i].type, sum);
}

/* ------------------------------------------------------------------ input construction */
static int hexval(int c) {
    if(c >= '0' && c <= '9') return c - '0';
    if(c >= 'a' && c <= 'f') return c - 'a' + 10;
    if(c >= 'A' && c <= 'F') return c - 'A' + 10;
    return -1;
}
/* "hex*count,hex*count": returns an exact-size heap buffer */
static uint8_t *build_input(const char *spec, size_t *out_n) {
    size_t total = 0;
    for(int pass = 0; pass < 2; pass++) {
        uint8_t *buf = 0, *w = 0;
        if(pass) { buf = (uint8_t *)malloc(total ? total : 1); if(!buf) return 0; w = buf; }
        const char *p = spec;
        if(strcmp(spec, "-") == 0) p = "";
        while(*p) {
            const char *h = p;
            size_t hl = 0;
            while(hexval(p[0]) >= 0 && hexval(p[1]) >= 0) { p += 2; hl++; }
            unsigned long long cnt = 1;
            if(*p == '*') { cnt = strtoull(p + 1, (char **)&p, 10); }
            if(*p == ',') p++;
            else if(*p) return 0;
            if(!pass) total += hl * cnt;
            else {
                if(hl == 0) continue;
                uint8_t unit[4096];
                if(hl <= sizeof(unit)) {
                    for(size_t i = 0; i < hl; i++) unit[i] = (hexval(h[2 * i]) << 4) | hexval(h[2 * i + 1]);
                    for(unsigned long long k = 0; k < cnt; k++) { memcpy(w, unit, hl); w += hl; }
                } else {
                    uint8_t *first = w;
                    for(size_t i = 0; i < hl; i++) *w++ = (hexval(h[2 * i]) << 4) | hexval(h[2 * i + 1]);
                    for(unsigned long long k = 1; k < cnt; k++) { memcpy(w, first, hl); w += hl; }
                }
            }
        }
        if(pass) { *out_n = total; return buf; }
        if(total > ((size_t)1 << 28)) return 0;
    }
    return 0;
}

/* ------------------------------------------------------------------ one decode, in the child */
struct result {
    int rc; size_t consumed, peak, maxreq; long allocs, live, leak; long su; int sig, so;
};
struct job {
    const asn_TYPE_descriptor_t *td; enum asn_transfer_syntax ats; long ctxlimit;
    const uint8_t *in; size_t n; struct result *res; int in_thread;
};

static void *decode_job(void *arg) {
    struct job *j = (struct job *)arg;
    struct result *r = j->res;
    if(j->in_thread) {      /* the alternate signal stack is a per-thread attribute */
        static char talt[1 << 16];
        stack_t ss; ss.ss_sp = talt; ss.ss_size = sizeof(talt); ss.ss_flags = 0;
        sigaltstack(&ss, 0);
    }
    void *s = 0;
    asn_codec_ctx_t ctx;
    const asn_codec_ctx_t *cp = 0;
    if(j->ctxlimit >= 0) { memset(&ctx, 0, sizeof(ctx)); ctx.max_stack_size = (size_t)j->ctxlimit; cp = &ctx; }
    long live0 = aw_live;
    size_t cur0 = aw_cur_bytes;
    aw_max_req = 0;
    aw_arm(-1);
    asn_dec_rval_t rv = asn_decode(cp, j->ats, j->td, &s, j->in, j->n);
    r->peak = aw_peak_bytes - cur0;
    r->maxreq = aw_max_req;
    r->allocs = aw_allocs;
    aw_disarm();
    r->rc = (int)rv.code;
    r->consumed = rv.consumed;
    r->live = aw_live - live0;
    if(s) ASN_STRUCT_FREE(*j->td, s);
    r->leak = aw_live - live0;
    return 0;
}

#define PAINT 0xA5C3A5C3A5C3A5C3ULL

/* fatal-signal handler on an alternate stack: classify the fault, report through the pipe, die */
static int g_wfd = -1;
static char *g_guard_lo, *g_guard_hi;
static void on_fatal(int sig, siginfo_t *si, void *uc_) {
    ucontext_t *uc = (ucontext_t *)uc_;
    struct result r;
    memset(&r, 0, sizeof(r));
    r.sig = sig; r.su = -1;
    char *addr = (char *)si->si_addr;
    if(sig == SIGSEGV || sig == SIGBUS) {
        if(g_guard_lo) r.so = addr >= g_guard_lo && addr < g_guard_hi;
        else {
            char *sp = (char *)uc->uc_mcontext.gregs[REG_RSP];
            r.so = addr > sp - (1 << 20) && addr < sp + (1 << 20);
        }
    }
    ssize_t w = write(g_wfd, &r, sizeof(r));
    (void)w;
    _exit(70);
}
static void install_handlers(void) {
    static char alt[1 << 16];
    stack_t ss; ss.ss_sp = alt; ss.ss_size = sizeof(alt); ss.ss_flags = 0;
    sigaltstack(&ss, 0);
    struct sigaction sa; memset(&sa, 0, sizeof(sa));
    sa.sa_sigaction = on_fatal; sa.sa_flags = SA_SIGINFO | SA_ONSTACK | SA_RESETHAND;
    sigemptyset(&sa.sa_mask);
    sigaction(SIGSEGV, &sa, 0); sigaction(SIGBUS, &sa, 0); sigaction(SIGABRT, &sa, 0);
    sigaction(SIGFPE, &sa, 0); sigaction(SIGILL, &sa, 0); sigaction(SIGALRM, &sa, 0);
}

static void child_main(struct job *j, const char *stk, int wfd) {
    struct result res;
    memset(&res, 0, sizeof(res));
    res.su = -1;
    j->res = &res;
    g_wfd = wfd;
    install_handlers();
    { const char *al = getenv("C15_ALARM_S"); alarm(al && atoi(al) > 0 ? atoi(al) : 120); }
    const char *as = getenv("C15_AS_MB");
    if(as && atol(as) > 0) {
        struct rlimit rl; rl.rlim_cur = rl.rlim_max = (rlim_t)atol(as) << 20;
        setrlimit(RLIMIT_AS, &rl);
    }
    if(stk[0] == 'r') {
        struct rlimit rl; rl.rlim_cur = rl.rlim_max = (rlim_t)atol(stk + 1) << 10;
        if(setrlimit(RLIMIT_STACK, &rl)) _exit(97);
        decode_job(j);
    } else if(stk[0] == 't') {
        size_t sz = (size_t)atol(stk + 1) << 10, guard = 65536;
        char *base = (char *)mmap(0, sz + guard, PROT_READ | PROT_WRITE, MAP_PRIVATE | MAP_ANONYMOUS, -1, 0);
        if(base == MAP_FAILED) _exit(96);
        mprotect(base, guard, PROT_NONE);
        g_guard_lo = base; g_guard_hi = base + guard;
        uint64_t *lo = (uint64_t *)(base + guard), *hi = (uint64_t *)(base + guard + sz);
        for(uint64_t *p = lo; p < hi; p++) *p = PAINT;
        pthread_attr_t at; pthread_t th;
        pthread_attr_init(&at);
        if(pthread_attr_setstack(&at, lo, sz)) _exit(95);
        j->in_thread = 1;
        if(pthread_create(&th, &at, decode_job, j)) _exit(94);
        pthread_join(th, 0);
        uint64_t *p = lo;
        while(p < hi && *p == PAINT) p++;
        res.su = (long)((char *)hi - (char *)p);
    } else {
        decode_job(j);
    }
    ssize_t w = write(wfd, &res, sizeof(res));
    _exit(w == (ssize_t)sizeof(res) ? 0 : 93);
}

static void op_run(char **a, int n) {
    if(n < 6) { printf("err=args\n"); return; }
    asn_TYPE_descriptor_t *td = find_type(a[1]);
    enum asn_transfer_syntax ats;
    if(!td) { printf("err=notype\n"); return; }
    if(syntax_of(a[2], &ats)) { printf("err=badsyntax\n"); return; }
    if(!has_dec(td, ats)) { printf("nocodec\n"); return; }
    struct job j; memset(&j, 0, sizeof(j));
    j.td = td; j.ats = ats;
    j.ctxlimit = a[3][0] == 'd' ? -1 : atol(a[3]);
    size_t inn = 0;
    uint8_t *in = build_input(a[5], &inn);
    if(!in) { printf("err=segs\n"); return; }
    j.in = in; j.n = inn;
    int pfd[2];
    if(pipe(pfd)) { printf("err=pipe\n"); free(in); return; }
    fflush(stdout);
    pid_t pid = fork();
    if(pid < 0) { printf("err=fork\n"); free(in); close(pfd[0]); close(pfd[1]); return; }
    if(pid == 0) { close(pfd[0]); child_main(&j, a[4], pfd[1]); _exit(92); }
    close(pfd[1]);
    struct result res; memset(&res, 0, sizeof(res));
    size_t got = 0;
    while(got < sizeof(res)) {
        ssize_t r = read(pfd[0], (char *)&res + got, sizeof(res) - got);
        if(r < 0 && errno == EINTR) continue;
        if(r <= 0) break;
        got += r;
    }
    close(pfd[0]);
    int status = 0;
    while(waitpid(pid, &status, 0) < 0 && errno == EINTR) {}
    free(in);
    if(WIFSIGNALED(status)) { printf("killed sig=%d so=0 n=%zu\n", WTERMSIG(status), inn); return; }
    if(WIFEXITED(status) && WEXITSTATUS(status) == 70 && got == sizeof(res) && res.sig) {
        printf("killed sig=%d so=%d n=%zu\n", res.sig, res.so, inn);
        return;
    }
    if(!WIFEXITED(status) || WEXITSTATUS(status) != 0 || got != sizeof(res)) {
        printf("childerr status=%d n=%zu\n", WIFEXITED(status) ? WEXITSTATUS(status) : -1, inn);
        return;
    }
    printf("ok n=%zu rc=%d consumed=%zu peak=%zu maxreq=%zu allocs=%ld live=%ld leak=%ld su=%ld\n", inn, res.rc,
           res.consumed, res.peak, res.maxreq, res.allocs, res.live, res.leak, res.su);
}

static void op_info(char **a, int n) {
    if(n < 2) { printf("err=args\n"); return; }
    asn_TYPE_descriptor_t *td = find_type(a[1]);
    if(!td) { printf("err=notype\n"); return; }
    size_t sum = 0;
    nseen = 0;
    walk(td, &sum);
    printf("ok ssum=%zu ntypes=%zu top=%zu ber=%d oer=%d uper=%d xer=%d\n", sum, nseen, struct_size_of(td),
           td->op->ber_decoder != 0, td->op->oer_decoder != 0, td->op->uper_decoder != 0, td->op->xer_decoder != 0);
}

int main(void) {
    char *line = 0; size_t cap = 0; ssize_t len;
    signal(SIGPIPE, SIG_IGN);
    while((len = getline(&line, &cap, stdin)) > 0) {
        while(len > 0 && (line[len - 1] == '\n' || line[len - 1] == '\r')) line[--len] = 0;
        char *a[8]; int n = 0; char *save = 0;
        for(char *t = strtok_r(line, " ", &save); t && n < 8; t = strtok_r(0, " ", &save)) a[n++] = t;
        if(n == 0) printf("err=empty\n");
        else if(!strcmp(a[0], "run")) op_run(a, n);
        else if(!strcmp(a[0], "info")) op_info(a, n);
        else if(!strcmp(a[0], "list")) {
            printf("ok");
            for(size_t i = 0; asn_pdu_collection[i]; i++) printf(" %s", asn_pdu_collection[i]->name);
            printf("\n");
        } else if(!strcmp(a[0], "quit")) break;
        else printf("err=unknown-op\n");
        fflush(stdout);
    }
    free(line);
    return 0;
}
