/*
 * libFuzzer target, generic over the module it is linked with (asn1c -pdu=all):
 * the LAST two input bytes select the type and the transfer syntax, the rest is the encoding.
 * The semantic oracle sits inside the target (see DESIGN.md C04).
 */
#include <stdio.h>
#include <stdlib.h>
#include <string.h>
#include <stdint.h>
#include <errno.h>
#include <asn_application.h>
#include <asn_internal.h>
#include "allocwrap.h"

extern asn_TYPE_descriptor_t *asn_pdu_collection[];

static int null_cb(const void *b, size_t n, void *k) { (void)b; (void)k; (void)n; return 0; }
struct cnt { size_t n; };
static int cnt_cb(const void *b, size_t n, void *k) { (void)b; ((struct cnt *)k)->n += n; return 0; }

static void die(const char *what, const asn_TYPE_descriptor_t *td, int syn) {
    fprintf(stderr, "ORACLE VIOLATION: %s (type %s, syntax %d)\n", what, td->name, syn);
    fflush(stderr);
    __builtin_trap();
}

static const enum asn_transfer_syntax DEC[] = {ATS_BER, ATS_UNALIGNED_BASIC_PER, ATS_BASIC_OER, ATS_BASIC_XER};
static const enum asn_transfer_syntax ENC[] = {ATS_DER, ATS_CANONICAL_OER, ATS_UNALIGNED_CANONICAL_PER, ATS_BASIC_XER,
                                               ATS_CANONICAL_XER};

static int has_dec(const asn_TYPE_descriptor_t *td, enum asn_transfer_syntax a) {
    switch(a) {
    case ATS_BER: return td->op->ber_decoder != 0;
    case ATS_UNALIGNED_BASIC_PER: return td->op->uper_decoder != 0;
    case ATS_BASIC_OER: return td->op->oer_decoder != 0;
    default: return td->op->xer_decoder != 0;
    }
}
static int has_enc(const asn_TYPE_descriptor_t *td, enum asn_transfer_syntax a) {
    switch(a) {
    case ATS_DER: return td->op->der_encoder != 0;
    case ATS_CANONICAL_OER: return td->op->oer_encoder != 0;
    case ATS_UNALIGNED_CANONICAL_PER: return td->op->uper_encoder != 0;
    default: return td->op->xer_encoder != 0;
    }
}

int LLVMFuzzerTestOneInput(const uint8_t *data, size_t size) {
    static size_t ntypes;
    if(!ntypes) while(asn_pdu_collection[ntypes]) ntypes++;
    if(size < 2 || !ntypes) return 0;
    const asn_TYPE_descriptor_t *td = asn_pdu_collection[data[size - 2] % ntypes];
    int si = data[size - 1] % 4;
    enum asn_transfer_syntax ats = DEC[si];
    size -= 2;
    if(!has_dec(td, ats)) return 0;
    /* exact-size heap copy: over-reads become ASan reports */
    uint8_t *in = (uint8_t *)malloc(size ? size : 1);
    if(size) memcpy(in, data, size);
    long live0 = aw_live;
    void *s = 0;
    asn_dec_rval_t rv = asn_decode(0, ats, td, &s, in, size);
    if((int)rv.code < 0 || (int)rv.code > 2) die("return code outside {OK,WMORE,FAIL}", td, si);
    if(rv.consumed > size) die("consumed > size", td, si);
    if(s) {
        struct cnt c = {0};
        td->op->print_struct(td, s, 0, cnt_cb, &c);
        char eb[64]; size_t el = sizeof(eb);
        asn_check_constraints(td, s, eb, &el);
        for(int i = 0; i < 5; i++) {
            if(!has_enc(td, ENC[i])) continue;
            struct cnt k = {0};
            asn_enc_rval_t er = asn_encode(0, ENC[i], td, s, cnt_cb, &k);
            if(er.encoded < -1) die("encoder returned < -1", td, si);
            if(er.encoded >= 0 && (size_t)er.encoded != k.n) die("encoder size != bytes delivered", td, si);
        }
        ASN_STRUCT_FREE(*td, s);
    }
    (void)null_cb;
    if(aw_live != live0) die("allocation ledger not balanced after ASN_STRUCT_FREE", td, si);
    free(in);
    return 0;
}
