/*
 * C19 driver: N threads, each running a deterministic script of codec calls over its OWN structures
 * (type descriptors are the only thing shared): all of them concurrently R times, then every script alone;
 * every recorded result of the concurrent runs must equal the solo result.  Built with
 * -fsanitize=thread together with the generated code and the skeleton library: ThreadSanitizer is the
 * second oracle.
 *
 * The driver itself shares nothing between worker threads: scripts are parsed by the main thread before
 * the workers start, each worker writes only into its own context (results, call log), the main thread
 * reads them after pthread_join.  The only synchronisation inside a run is ONE barrier at the start (so
 * that, for the race detector, everything after it is concurrent); there are no shared counters.
 *
 * Protocol (one line in, one line out):
 *   run <nthreads> <reps> <pseed> <script>|<script>|...
 *   script := op;op;...         op := fields separated by ','
 *     d,<slot>,<type>,<syn>,<src>     decode   (src = h<hex> literal | b<reg> byte register | - empty)
 *     e,<slot>,<syn>,<reg|->          encode slot, keep the bytes in a byte register
 *     k,<slot>                        asn_check_constraints (256 byte error buffer)
 *     p,<slot>                        asn_fprint to a memory stream
 *     x,<slot>                        xer_fprint to a memory stream
 *     c,<slotA>,<slotB>               compare_struct (same descriptor), sign only
 *     f,<slot>                        ASN_STRUCT_FREE
 *     m,<regsrc>,<regdst>,<mode>,<arg> derive bytes: mode 0 truncate to arg%(n+1), 1 flip bit arg, 2 append arg&255
 *     r,<type>,<len>                  asn_random_fill + encode/check/print/free (results NOT compared: libc random())
 *   syn: 0 ber/der 1 oer 2 uper 3 xer 4 cxer
 *   runseq ...   same as run, but the "concurrent" phase runs the threads one after another (control experiment)
 *   list, quit
 */
#define _GNU_SOURCE
#include <stdio.h>
#include <stdlib.h>
#include <string.h>
#include <errno.h>
#include <stdint.h>
#include <unistd.h>
#include <pthread.h>
#include <sched.h>
#include <asn_application.h>
#include <asn_internal.h>
#include <xer_encoder.h>
#include <asn_random_fill.h>

extern asn_TYPE_descriptor_t *asn_pdu_collection[];

#define MAXT 64
#define NSLOT 4
#define NREG 4

enum { FAM_DEC = 0, FAM_ENC = 5, FAM_CHECK = 10, FAM_PRINT, FAM_XPRINT, FAM_COMPARE, FAM_FREE, FAM_RFILL, FAM_N };
static const char *fam_name[FAM_N] = {"dec.ber", "dec.oer", "dec.uper", "dec.xer", "dec.cxer", "enc.der", "enc.oer",
                                      "enc.uper", "enc.xer", "enc.cxer", "check", "print", "xer_fprint", "compare",
                                      "free", "random_fill"};

static const enum asn_transfer_syntax dec_ats[5] = {ATS_BER, ATS_CANONICAL_OER, ATS_UNALIGNED_BASIC_PER, ATS_BASIC_XER,
                                                    ATS_CANONICAL_XER};
static const enum asn_transfer_syntax enc_ats[5] = {ATS_DER, ATS_CANONICAL_OER, ATS_UNALIGNED_CANONICAL_PER,
                                                    ATS_BASIC_XER, ATS_CANONICAL_XER};

typedef struct {
    char kind;
    int slot, slot2, syn, reg, reg2, mode;
    long arg;
    asn_TYPE_descriptor_t *td;
    uint8_t *lit;       /* literal input, exact-size heap block; only read by the one thread running this script */
    size_t litn;
    int src_reg;        /* >= 0: input comes from a byte register */
} op_t;

/* what one op returned; compared bytewise between the solo run and every concurrent run */
typedef struct {
    int32_t st;         /* 0 skipped (empty slot / no codec), 1 executed */
    int32_t err;        /* errno where the API documents it (asn_encode failure), else 0 */
    int64_t a, b;       /* rc / consumed, encoded / failed type, ret / errlen ... */
    uint64_t h;         /* FNV-1a of the bytes produced */
} res_t;

typedef struct { uint8_t fam; const asn_TYPE_descriptor_t *td; } call_t;

typedef struct {
    op_t *ops;
    int nops;
} script_t;

typedef struct {
    int tid;
    const script_t *sc;
    res_t *res;
    call_t *log;
    int nlog, caplog;
    uint32_t pseed;
    int rep;
    pthread_barrier_t *bar;     /* NULL in the solo phase */
    long yields, spins;
} tctx_t;

typedef struct { uint8_t *p; size_t n, cap; int failed; } sink_t;

static uint64_t fnv(const void *buf, size_t n) {
    const uint8_t *b = (const uint8_t *)buf;
    uint64_t h = 1469598103934665603ULL;
    for(size_t i = 0; i < n; i++) { h ^= b[i]; h *= 1099511628211ULL; }
    return h;
}

static int sink_cb(const void *buf, size_t size, void *key) {
    sink_t *s = (sink_t *)key;
    if(s->n + size > s->cap) {
        size_t ncap = (s->n + size) * 2 + 64;
        uint8_t *np = (uint8_t *)realloc(s->p, ncap);
        if(!np) { s->failed = 1; return -1; }
        s->p = np;
        s->cap = ncap;
    }
    if(size) memcpy(s->p + s->n, buf, size);
    s->n += size;
    return 0;
}

static int has_codec(const asn_TYPE_descriptor_t *td, int syn, int decode) {
    switch(syn) {
    case 0: return decode ? td->op->ber_decoder != 0 : td->op->der_encoder != 0;
    case 1: return decode ? td->op->oer_decoder != 0 : td->op->oer_encoder != 0;
    case 2: return decode ? td->op->uper_decoder != 0 : td->op->uper_encoder != 0;
    default: return decode ? td->op->xer_decoder != 0 : td->op->xer_encoder != 0;
    }
}

static void logcall(tctx_t *c, int fam, const asn_TYPE_descriptor_t *td) {
    if(c->nlog < c->caplog) { c->log[c->nlog].fam = (uint8_t)fam; c->log[c->nlog].td = td; c->nlog++; }
}

static uint32_t mix(uint32_t a, uint32_t b, uint32_t c, uint32_t d) {
    uint32_t h = 2166136261u;
    h = (h ^ a) * 16777619u; h = (h ^ b) * 16777619u; h = (h ^ c) * 16777619u; h = (h ^ d) * 16777619u;
    h ^= h >> 15; h *= 2246822519u; h ^= h >> 13;
    return h;
}

/* seeded schedule perturbation between calls: a function of (pseed, repetition, thread, op index) only */
static void perturb(tctx_t *c, int opi) {
    if(!c->bar) return;
    uint32_t r = mix(c->pseed, (uint32_t)c->rep, (uint32_t)c->tid, (uint32_t)opi);
    switch(r & 7) {
    case 0: case 1: case 2: case 3: return;
    case 4: case 5: sched_yield(); c->yields++; return;
    case 6: { volatile unsigned k = 20 + ((r >> 3) & 1023); c->spins += k; while(k) k--; return; }
    default: sched_yield(); sched_yield(); sched_yield(); c->yields += 3; return;
    }
}

static void *worker(void *arg) {
    tctx_t *c = (tctx_t *)arg;
    const script_t *sc = c->sc;
    struct { asn_TYPE_descriptor_t *td; void *p; } slot[NSLOT];
    struct { uint8_t *p; size_t n; int set; } reg[NREG];
    memset(slot, 0, sizeof(slot));
    memset(reg, 0, sizeof(reg));
    if(c->bar) pthread_barrier_wait(c->bar);
    for(int i = 0; i < sc->nops; i++) {
        const op_t *o = &sc->ops[i];
        res_t *r = &c->res[i];
        memset(r, 0, sizeof(*r));
        perturb(c, i);
        switch(o->kind) {
        case 'd': {
            const uint8_t *in; size_t inn;
            uint8_t *copy = 0;
            if(slot[o->slot].p || !o->td || !has_codec(o->td, o->syn, 1)) break;
            if(o->src_reg >= 0) {
                if(!reg[o->src_reg].set) break;
                in = reg[o->src_reg].p; inn = reg[o->src_reg].n;
            } else { in = o->lit; inn = o->litn; }
            /* exact-size private copy: the decoder must not depend on what follows the input */
            copy = (uint8_t *)malloc(inn ? inn : 1);
            if(inn) memcpy(copy, in, inn);
            void *s = 0;
            logcall(c, FAM_DEC + o->syn, o->td);
            asn_dec_rval_t rv = asn_decode(0, dec_ats[o->syn], o->td, &s, copy, inn);
            free(copy);
            r->st = 1; r->a = (int)rv.code; r->b = (int64_t)rv.consumed;
            if(rv.code == RC_OK && s) { slot[o->slot].td = o->td; slot[o->slot].p = s; }
            else if(s) { logcall(c, FAM_FREE, o->td); ASN_STRUCT_FREE(*o->td, s); }
            break;
        }
        case 'e': {
            if(!slot[o->slot].p || !has_codec(slot[o->slot].td, o->syn, 0)) break;
            sink_t sk; memset(&sk, 0, sizeof(sk));
            logcall(c, FAM_ENC + o->syn, slot[o->slot].td);
            errno = 0;
            asn_enc_rval_t er = asn_encode(0, enc_ats[o->syn], slot[o->slot].td, slot[o->slot].p, sink_cb, &sk);
            r->st = 1; r->a = (int64_t)er.encoded;
            if(er.encoded < 0) {
                r->err = errno;
                r->b = er.failed_type ? (int64_t)(fnv(er.failed_type->name, strlen(er.failed_type->name)) >> 1) : -1;
            } else {
                r->b = (int64_t)sk.n;
                r->h = fnv(sk.p, sk.n);
            }
            if(o->reg >= 0 && er.encoded >= 0) {
                free(reg[o->reg].p);
                reg[o->reg].p = sk.p; reg[o->reg].n = sk.n; reg[o->reg].set = 1;
            } else free(sk.p);
            break;
        }
        case 'k': {
            if(!slot[o->slot].p) break;
            char eb[256]; size_t el = sizeof(eb);
            memset(eb, 0, sizeof(eb));
            logcall(c, FAM_CHECK, slot[o->slot].td);
            int ret = asn_check_constraints(slot[o->slot].td, slot[o->slot].p, eb, &el);
            r->st = 1; r->a = ret;
            if(ret) { r->b = (int64_t)el; r->h = fnv(eb, el < sizeof(eb) ? el : sizeof(eb)); }
            break;
        }
        case 'p': case 'x': {
            if(!slot[o->slot].p) break;
            char *mb = 0; size_t ml = 0;
            FILE *f = open_memstream(&mb, &ml);
            if(!f) break;
            int ret;
            if(o->kind == 'p') { logcall(c, FAM_PRINT, slot[o->slot].td); ret = asn_fprint(f, slot[o->slot].td, slot[o->slot].p); }
            else {
                if(!slot[o->slot].td->op->xer_encoder) { fclose(f); free(mb); break; }
                logcall(c, FAM_XPRINT, slot[o->slot].td); ret = xer_fprint(f, slot[o->slot].td, slot[o->slot].p);
            }
            fclose(f);
            r->st = 1; r->a = ret; r->b = (int64_t)ml; r->h = fnv(mb, ml);
            free(mb);
            break;
        }
        case 'c': {
            if(!slot[o->slot].p || !slot[o->slot2].p || slot[o->slot].td != slot[o->slot2].td) break;
            logcall(c, FAM_COMPARE, slot[o->slot].td);
            int ret = slot[o->slot].td->op->compare_struct(slot[o->slot].td, slot[o->slot].p, slot[o->slot2].p);
            r->st = 1; r->a = ret < 0 ? -1 : ret > 0 ? 1 : 0;
            break;
        }
        case 'f': {
            if(!slot[o->slot].p) break;
            logcall(c, FAM_FREE, slot[o->slot].td);
            ASN_STRUCT_FREE(*slot[o->slot].td, slot[o->slot].p);
            slot[o->slot].p = 0; slot[o->slot].td = 0;
            r->st = 1;
            break;
        }
        case 'm': {
            if(!reg[o->reg].set) break;
            size_t n = reg[o->reg].n;
            uint8_t *np = (uint8_t *)malloc(n + 2);
            if(n) memcpy(np, reg[o->reg].p, n);
            size_t nn = n;
            if(o->mode == 0) nn = (size_t)o->arg % (n + 1);
            else if(o->mode == 1) { if(n) np[((size_t)o->arg >> 3) % n] ^= (uint8_t)(1u << (o->arg & 7)); }
            else { np[n] = (uint8_t)(o->arg & 255); nn = n + 1; }
            free(reg[o->reg2].p);
            reg[o->reg2].p = np; reg[o->reg2].n = nn; reg[o->reg2].set = 1;
            r->st = 1; r->b = (int64_t)nn; r->h = fnv(np, nn);
            break;
        }
        case 'r': {
            if(!o->td || !o->td->op->random_fill) break;
            void *s = 0;
            logcall(c, FAM_RFILL, o->td);
            int ret = asn_random_fill(o->td, &s, (size_t)o->arg);
            r->st = 1;          /* nothing else is recorded: the values come from libc's global random() */
            if(ret == 0 && s) {
                for(int syn = 0; syn < 5; syn++) {
                    if(!has_codec(o->td, syn, 0)) continue;
                    sink_t sk; memset(&sk, 0, sizeof(sk));
                    logcall(c, FAM_ENC + syn, o->td);
                    (void)asn_encode(0, enc_ats[syn], o->td, s, sink_cb, &sk);
                    free(sk.p);
                }
                char eb[128]; size_t el = sizeof(eb);
                logcall(c, FAM_CHECK, o->td);
                (void)asn_check_constraints(o->td, s, eb, &el);
                char *mb = 0; size_t ml = 0;
                FILE *f = open_memstream(&mb, &ml);
                if(f) { logcall(c, FAM_PRINT, o->td); (void)asn_fprint(f, o->td, s); fclose(f); free(mb); }
            }
            if(s) { logcall(c, FAM_FREE, o->td); ASN_STRUCT_FREE(*o->td, s); }
            break;
        }
        default: break;
        }
    }
    for(int k = 0; k < NSLOT; k++)
        if(slot[k].p) { logcall(c, FAM_FREE, slot[k].td); ASN_STRUCT_FREE(*slot[k].td, slot[k].p); }
    for(int k = 0; k < NREG; k++) free(reg[k].p);
    return 0;
}

/* ------------------------------------------------------------------ parsing (main thread only) */
static int hexval(int ch) {
    if(ch >= '0' && ch <= '9') return ch - '0';
    if(ch >= 'a' && ch <= 'f') return ch - 'a' + 10;
    if(ch >= 'A' && ch <= 'F') return ch - 'A' + 10;
    return -1;
}

static asn_TYPE_descriptor_t *find_type(const char *name) {
    for(size_t i = 0; asn_pdu_collection[i]; i++)
        if(strcmp(asn_pdu_collection[i]->name, name) == 0) return asn_pdu_collection[i];
    return 0;
}

static int in_range(long v, long n) { return v >= 0 && v < n; }

static int parse_op(char *text, op_t *o) {
    char *f[8]; int n = 0; char *save = 0;
    for(char *t = strtok_r(text, ",", &save); t && n < 8; t = strtok_r(0, ",", &save)) f[n++] = t;
    memset(o, 0, sizeof(*o));
    o->src_reg = -1; o->reg = -1;
    if(n == 0 || strlen(f[0]) != 1) return -1;
    o->kind = f[0][0];
    switch(o->kind) {
    case 'd':
        if(n != 5) return -1;
        o->slot = atoi(f[1]); o->td = find_type(f[2]); o->syn = atoi(f[3]);
        if(!in_range(o->slot, NSLOT) || !o->td || !in_range(o->syn, 5)) return -1;
        if(f[4][0] == 'b') { o->src_reg = atoi(f[4] + 1); if(!in_range(o->src_reg, NREG)) return -1; }
        else if(f[4][0] == 'h') {
            size_t l = strlen(f[4] + 1);
            if(l & 1) return -1;
            o->litn = l / 2;
            o->lit = (uint8_t *)malloc(o->litn ? o->litn : 1);
            for(size_t i = 0; i < o->litn; i++) {
                int a = hexval(f[4][1 + 2 * i]), b = hexval(f[4][2 + 2 * i]);
                if(a < 0 || b < 0) return -1;
                o->lit[i] = (uint8_t)((a << 4) | b);
            }
        } else if(f[4][0] == '-') { o->lit = (uint8_t *)malloc(1); o->litn = 0; }
        else return -1;
        return 0;
    case 'e':
        if(n != 4) return -1;
        o->slot = atoi(f[1]); o->syn = atoi(f[2]);
        if(f[3][0] != '-') { o->reg = atoi(f[3]); if(!in_range(o->reg, NREG)) return -1; }
        return in_range(o->slot, NSLOT) && in_range(o->syn, 5) ? 0 : -1;
    case 'k': case 'p': case 'x': case 'f':
        if(n != 2) return -1;
        o->slot = atoi(f[1]);
        return in_range(o->slot, NSLOT) ? 0 : -1;
    case 'c':
        if(n != 3) return -1;
        o->slot = atoi(f[1]); o->slot2 = atoi(f[2]);
        return in_range(o->slot, NSLOT) && in_range(o->slot2, NSLOT) ? 0 : -1;
    case 'm':
        if(n != 5) return -1;
        o->reg = atoi(f[1]); o->reg2 = atoi(f[2]); o->mode = atoi(f[3]); o->arg = strtol(f[4], 0, 10);
        if(o->arg < 0) o->arg = -o->arg;
        return in_range(o->reg, NREG) && in_range(o->reg2, NREG) && in_range(o->mode, 3) ? 0 : -1;
    case 'r':
        if(n != 3) return -1;
        o->td = find_type(f[1]); o->arg = strtol(f[2], 0, 10);
        return o->td && o->arg >= 0 ? 0 : -1;
    default:
        return -1;
    }
}

static int parse_script(char *text, script_t *sc) {
    int cap = 16;
    sc->ops = (op_t *)calloc(cap, sizeof(op_t));
    sc->nops = 0;
    char *save = 0;
    for(char *t = strtok_r(text, ";", &save); t; t = strtok_r(0, ";", &save)) {
        if(sc->nops == cap) { cap *= 2; sc->ops = (op_t *)realloc(sc->ops, cap * sizeof(op_t)); }
        if(parse_op(t, &sc->ops[sc->nops])) { sc->nops++; return -1; }
        sc->nops++;
    }
    return 0;
}

static void free_script(script_t *sc) {
    for(int i = 0; i < sc->nops; i++) free(sc->ops[i].lit);
    free(sc->ops);
}

static void ctx_init(tctx_t *c, int tid, const script_t *sc, uint32_t pseed) {
    memset(c, 0, sizeof(*c));
    c->tid = tid; c->sc = sc; c->pseed = pseed;
    c->res = (res_t *)calloc(sc->nops + 1, sizeof(res_t));
    c->caplog = sc->nops * 10 + NSLOT + 4;
    c->log = (call_t *)calloc(c->caplog, sizeof(call_t));
}

static void phase(const char *what, int a, int b) {
    char buf[96];
    int n = snprintf(buf, sizeof(buf), "#phase %s %d %d\n", what, a, b);
    if(n > 0) { ssize_t w = write(2, buf, (size_t)n); (void)w; }
}

static void op_run(char **a, int n, int sequential) {
    if(n != 5) { printf("err=args\n"); return; }
    int nthr = atoi(a[1]), reps = atoi(a[2]);
    uint32_t pseed = (uint32_t)strtoul(a[3], 0, 10);
    if(nthr < 1 || nthr > MAXT || reps < 1 || reps > 10000) { printf("err=range\n"); return; }
    script_t sc[MAXT];
    int ns = 0, bad = 0;
    char *save = 0;
    memset(sc, 0, sizeof(sc));
    for(char *t = strtok_r(a[4], "|", &save); t && ns < MAXT; t = strtok_r(0, "|", &save)) {
        /* strtok_r is re-entered inside parse_script with its own save pointer: fine */
        if(parse_script(t, &sc[ns])) bad = 1;
        ns++;
    }
    if(bad || ns != nthr) {
        printf("err=parse scripts=%d\n", ns);
        for(int i = 0; i < ns; i++) free_script(&sc[i]);
        return;
    }
    tctx_t solo[MAXT], mt[MAXT];
    pthread_t th[MAXT];
    /* phase 1: all scripts concurrently, reps times.  The concurrent phase comes FIRST so that one-time
     * initialisation (a lazily built table, a cached descriptor field) is reached by several threads at once
     * in a fresh process; the results are kept and compared after phase 2. */
    long fam_calls[FAM_N]; memset(fam_calls, 0, sizeof(fam_calls));
    long total_calls = 0, yields = 0, spins = 0;
    int shared_pairs = 0, max_threads_on_pair = 0, threads_sharing = 0;
    int mism = 0, mrep = -1, mthr = -1, mop = -1;
    res_t want, got;
    memset(&want, 0, sizeof(want)); memset(&got, 0, sizeof(got));
    res_t **kept = (res_t **)calloc((size_t)reps * nthr, sizeof(res_t *));
    for(int rep = 0; rep < reps; rep++) {
        pthread_barrier_t bar;
        pthread_barrier_init(&bar, 0, (unsigned)nthr);
        for(int i = 0; i < nthr; i++) {
            ctx_init(&mt[i], i, &sc[i], pseed);
            mt[i].rep = rep; mt[i].bar = sequential ? 0 : &bar;
        }
        phase(sequential ? "seq" : "mt", rep, nthr);
        for(int i = 0; i < nthr; i++) {
            if(pthread_create(&th[i], 0, worker, &mt[i])) { printf("err=pthread_create\n"); exit(3); }
            /* runseq: the same work, one thread at a time (control experiment for crashes/mismatches) */
            if(sequential) pthread_join(th[i], 0);
        }
        if(!sequential) for(int i = 0; i < nthr; i++) pthread_join(th[i], 0);
        pthread_barrier_destroy(&bar);
        for(int i = 0; i < nthr; i++) {
            yields += mt[i].yields; spins += mt[i].spins;
            for(int k = 0; k < mt[i].nlog; k++) { fam_calls[mt[i].log[k].fam]++; total_calls++; }
            kept[rep * nthr + i] = mt[i].res;
        }
        if(rep == 0) {
            /* non-triviality, measured from the per-thread call logs: (function family, descriptor) pairs that
             * at least two different threads executed in this run */
            char sharing[MAXT]; memset(sharing, 0, sizeof(sharing));
            for(int i = 0; i < nthr; i++) for(int k = 0; k < mt[i].nlog; k++) {
                /* count each distinct pair once: only at its first occurrence in the lowest thread */
                int first = 1;
                for(int i2 = 0; i2 <= i && first; i2++) {
                    int lim = i2 == i ? k : mt[i2].nlog;
                    for(int k2 = 0; k2 < lim; k2++)
                        if(mt[i2].log[k2].fam == mt[i].log[k].fam && mt[i2].log[k2].td == mt[i].log[k].td) { first = 0; break; }
                }
                if(!first) continue;
                int nt = 1;
                for(int i2 = i + 1; i2 < nthr; i2++)
                    for(int k2 = 0; k2 < mt[i2].nlog; k2++)
                        if(mt[i2].log[k2].fam == mt[i].log[k].fam && mt[i2].log[k2].td == mt[i].log[k].td) {
                            nt++; sharing[i2] = 1; sharing[i] = 1; break;
                        }
                if(nt >= 2) { shared_pairs++; if(nt > max_threads_on_pair) max_threads_on_pair = nt; }
            }
            for(int i = 0; i < nthr; i++) threads_sharing += sharing[i];
        }
        for(int i = 0; i < nthr; i++) free(mt[i].log);
    }
    /* phase 2: every script alone (one thread at a time) */
    for(int i = 0; i < nthr; i++) {
        ctx_init(&solo[i], i, &sc[i], pseed);
        phase("solo", i, 0);
        if(pthread_create(&th[i], 0, worker, &solo[i])) { printf("err=pthread_create\n"); exit(3); }
        pthread_join(th[i], 0);
    }
    /* oracle 1: every result of every concurrent repetition equals the solo result */
    for(int rep = 0; rep < reps; rep++) for(int i = 0; i < nthr; i++) {
        res_t *mr = kept[rep * nthr + i];
        for(int k = 0; k < sc[i].nops && !mism; k++) {
            if(sc[i].ops[k].kind == 'r') continue;      /* random values: not comparable by definition */
            if(memcmp(&solo[i].res[k], &mr[k], sizeof(res_t)) != 0) {
                mism = 1; mrep = rep; mthr = i; mop = k; want = solo[i].res[k]; got = mr[k];
            }
        }
        free(mr);
    }
    free(kept);
    /* summary of what the scripts really did (solo run) */
    long skipped = 0, executed = 0, decok = 0, decfail = 0, encok = 0, encfail = 0, chkfail = 0, cmpne = 0;
    for(int i = 0; i < nthr; i++) for(int k = 0; k < sc[i].nops; k++) {
        const res_t *r = &solo[i].res[k];
        char kd = sc[i].ops[k].kind;
        if(!r->st) { skipped++; continue; }
        executed++;
        if(kd == 'd') { if(r->a == 0) decok++; else decfail++; }
        if(kd == 'e') { if(r->a >= 0) encok++; else encfail++; }
        if(kd == 'k' && r->a) chkfail++;
        if(kd == 'c' && r->a) cmpne++;
    }
    printf("ok threads=%d reps=%d mism=%d calls=%ld shared=%d maxthr=%d thrsharing=%d executed=%ld skipped=%ld decok=%ld decfail=%ld "
           "encok=%ld encfail=%ld chkfail=%ld cmpne=%ld yields=%ld spins=%ld",
           nthr, reps, mism, total_calls, shared_pairs, max_threads_on_pair, threads_sharing, executed, skipped, decok,
           decfail, encok, encfail, chkfail, cmpne, yields, spins);
    for(int f = 0; f < FAM_N; f++) if(fam_calls[f]) printf(" f.%s=%ld", fam_name[f], fam_calls[f]);
    if(mism) {
        const op_t *o = &sc[mthr].ops[mop];
        printf(" mrep=%d mthr=%d mop=%d mkind=%c mtype=%s msyn=%d want=%d:%d:%lld:%lld:%016llx got=%d:%d:%lld:%lld:%016llx",
               mrep, mthr, mop, o->kind, o->td ? o->td->name : "-", o->syn,
               want.st, want.err, (long long)want.a, (long long)want.b, (unsigned long long)want.h,
               got.st, got.err, (long long)got.a, (long long)got.b, (unsigned long long)got.h);
    }
    printf("\n");
    for(int i = 0; i < nthr; i++) { free(solo[i].res); free(solo[i].log); free_script(&sc[i]); }
}

int main(int argc, char **argv) {
    (void)argc; (void)argv;
    char *line = 0; size_t cap = 0; ssize_t len;
    while((len = getline(&line, &cap, stdin)) > 0) {
        while(len > 0 && (line[len - 1] == '\n' || line[len - 1] == '\r')) line[--len] = 0;
        char *a[8]; int n = 0; char *save = 0;
        for(char *t = strtok_r(line, " ", &save); t && n < 8; t = strtok_r(0, " ", &save)) a[n++] = t;
        if(n == 0) printf("err=empty\n");
        else if(!strcmp(a[0], "run")) op_run(a, n, 0);
        else if(!strcmp(a[0], "runseq")) op_run(a, n, 1);
        else if(!strcmp(a[0], "list")) {
            printf("ok");
            for(size_t i = 0; asn_pdu_collection[i]; i++) printf(" %s", asn_pdu_collection[i]->name);
            printf("\n");
        } else if(!strcmp(a[0], "quit")) break;
        else printf("err=unknown-op\n");
        fflush(stdout);
    }
    free(line);
    return 0;
}
