// C16 -- INTEGER and REAL helpers are exact and canonical.
//
// rapidcheck program + deterministic boundary-exhaustive sweep.  Six sub-properties:
//   i2l   asn_{long,ulong,imax,umax}2INTEGER -> minimal two's-complement octets -> asn_INTEGER2{...} (all four
//         targets: identity on the own type, "range error iff it does not fit" on the other three)
//   oct   arbitrary INTEGER octet strings of 0..10 octets (also non-minimal): asn_INTEGER2{long,ulong,imax,umax}
//         succeed with the mathematical value iff it fits the target, -1/ERANGE otherwise
//   dbl   asn_double2REAL gives the X.690 8.5 / 11.3 DER octets, asn_REAL2double returns the same bit pattern
//   str   asn_strto{l,ul,imax,umax}_lim: code / value / *end equal to a big-integer parse
//   nint  NativeInteger DER encode/BER decode (signed and unsigned) of the same values
//   nreal NativeReal DER encode/BER decode of the same doubles
// The oracle is written here in exact arithmetic (__int128, bit operations) and shares no code with the library.
//
// usage: c16 --mode sweep|random|replay [--sub all|i2l|oct|dbl|str|nint|nreal] [--seed N] [--cases N]
//            [--exclude class,class] [--fail-out file] [--bitmap-out file] [--bitmap-bits 16..30]
//            [--file replayfile] [--case "<case line>"]
// RC_PARAMS="seed=N max_success=M max_size=S" configures rapidcheck (set from --seed/--cases when absent).
// Output: one line 'C16JSON {...}' with the counters; exit 0 = held, 1 = failure, 2 = usage; a sanitizer abort
// prints 'C16CRASH <case line>' to stderr and exits with the sanitizer's exit code.
#include <rapidcheck.h>

#include <algorithm>
#include <cerrno>
#include <climits>
#include <cmath>
#include <csignal>
#include <cstdarg>
#include <cstdint>
#include <cstdio>
#include <cstdlib>
#include <cstring>
#include <fcntl.h>
#include <map>
#include <set>
#include <string>
#include <unistd.h>
#include <vector>

extern "C" {
#include <INTEGER.h>
#include <REAL.h>
#include <NativeInteger.h>
#include <NativeReal.h>
void __sanitizer_set_death_callback(void (*)(void));
}

typedef __int128 i128;
typedef unsigned __int128 u128;

static_assert(sizeof(double) == 8, "IEEE-754 binary64 expected");
static_assert(sizeof(long) == 8 && sizeof(intmax_t) == 8, "LP64 expected (the four widths are all 64 bit)");

// ------------------------------------------------------------------------------------------ small helpers
static std::string fmt(const char *f, ...) __attribute__((format(printf, 1, 2)));
static std::string fmt(const char *f, ...) {
    char b[1024];
    va_list ap;
    va_start(ap, f);
    vsnprintf(b, sizeof b, f, ap);
    va_end(ap);
    return b;
}

static std::string hexs(const uint8_t *p, size_t n) {
    if (!n) return "-";
    static const char *d = "0123456789abcdef";
    std::string s;
    s.reserve(2 * n);
    for (size_t i = 0; i < n; i++) {
        s += d[p[i] >> 4];
        s += d[p[i] & 15];
    }
    return s;
}
static std::string hexs(const std::vector<uint8_t> &v) { return hexs(v.data(), v.size()); }

static bool unhex(const std::string &s, std::vector<uint8_t> *out) {
    out->clear();
    if (s == "-") return true;
    if (s.size() % 2) return false;
    for (size_t i = 0; i < s.size(); i += 2) {
        unsigned v;
        if (sscanf(s.c_str() + i, "%2x", &v) != 1) return false;
        out->push_back((uint8_t)v);
    }
    return true;
}

static std::string dec128(i128 x) {
    if (x == 0) return "0";
    bool neg = x < 0;
    u128 u = neg ? (u128)0 - (u128)x : (u128)x;
    std::string s;
    while (u) {
        s += (char)('0' + (int)(u % 10));
        u /= 10;
    }
    if (neg) s += '-';
    std::reverse(s.begin(), s.end());
    return s;
}

static std::string printable(const uint8_t *p, size_t n) {
    std::string s = "\"";
    for (size_t i = 0; i < n; i++) {
        if (p[i] >= 0x20 && p[i] < 0x7f && p[i] != '"' && p[i] != '\\')
            s += (char)p[i];
        else
            s += fmt("\\x%02x", p[i]);
    }
    return s + "\"";
}

static uint64_t splitmix(uint64_t *s) {
    uint64_t z = (*s += 0x9e3779b97f4a7c15ull);
    z = (z ^ (z >> 30)) * 0xbf58476d1ce4e5b9ull;
    z = (z ^ (z >> 27)) * 0x94d049bb133111ebull;
    return z ^ (z >> 31);
}
static uint64_t mix(uint64_t a, uint64_t b) {
    uint64_t s = a * 0x9e3779b97f4a7c15ull + b;
    return splitmix(&s);
}
static uint64_t hash_bytes(uint64_t h, const uint8_t *p, size_t n) {
    for (size_t i = 0; i < n; i++) h = (h ^ p[i]) * 0x100000001b3ull;
    return mix(h, n);
}

static double bits2d(uint64_t b) {
    double d;
    memcpy(&d, &b, 8);
    return d;
}
static uint64_t d2bits(double d) {
    uint64_t b;
    memcpy(&b, &d, 8);
    return b;
}

// ------------------------------------------------------------------------------------------ cases
enum Sub { S_I2L, S_OCT, S_DBL, S_STR, S_NINT, S_NREAL, NSUB };
static const char *SUBNAME[NSUB] = {"i2l", "oct", "dbl", "str", "nint", "nreal"};
enum Kind { K_LONG, K_ULONG, K_IMAX, K_UMAX, NKIND };
static const char *KINDNAME[NKIND] = {"long", "ulong", "imax", "umax"};
static const char *STRFN[NKIND] = {"strtol", "strtoul", "strtoimax", "strtoumax"};

struct Case {
    int sub = 0;
    int kind = 0;                // i2l/oct-target/str: Kind; nint: 0 signed, 1 unsigned
    uint64_t bits = 0;           // i2l, nint: the value's bit pattern; dbl, nreal: IEEE bit pattern
    std::vector<uint8_t> bytes;  // oct: INTEGER contents; str: the text
};

static std::string case_line(const Case &c) {
    switch (c.sub) {
    case S_I2L: return fmt("i2l %s 0x%016llx", KINDNAME[c.kind], (unsigned long long)c.bits);
    case S_OCT: return "oct " + hexs(c.bytes);
    case S_DBL: return fmt("dbl 0x%016llx", (unsigned long long)c.bits);
    case S_STR: return fmt("str %s ", STRFN[c.kind]) + hexs(c.bytes);
    case S_NINT: return fmt("nint %s 0x%016llx", c.kind ? "u" : "s", (unsigned long long)c.bits);
    case S_NREAL: return fmt("nreal 0x%016llx", (unsigned long long)c.bits);
    }
    return "?";
}

static bool parse_case(const std::string &line, Case *c) {
    char a[32] = "", b[32] = "", d[4096] = "";
    int n = sscanf(line.c_str(), " %31s %31s %4095s", a, b, d);
    if (n < 2) return false;
    std::string sa = a, sb = b, sd = d;
    auto kind_of = [](const std::string &s, const char *const *names) {
        for (int i = 0; i < NKIND; i++)
            if (s == names[i]) return i;
        return -1;
    };
    if (sa == "i2l" && n == 3) {
        c->sub = S_I2L;
        c->kind = kind_of(sb, KINDNAME);
        c->bits = strtoull(d, 0, 16);
        return c->kind >= 0;
    }
    if (sa == "oct") {
        c->sub = S_OCT;
        return unhex(sb, &c->bytes) && c->bytes.size() <= 64;
    }
    if (sa == "dbl" || sa == "nreal") {
        c->sub = sa == "dbl" ? S_DBL : S_NREAL;
        c->bits = strtoull(b, 0, 16);
        return true;
    }
    if (sa == "str" && n == 3) {
        c->sub = S_STR;
        c->kind = kind_of(sb, STRFN);
        return c->kind >= 0 && unhex(sd, &c->bytes);
    }
    if (sa == "nint" && n == 3) {
        c->sub = S_NINT;
        c->kind = sb == "u";
        c->bits = strtoull(d, 0, 16);
        return sb == "u" || sb == "s";
    }
    return false;
}

// rapidcheck prints counterexamples through this
static void showValue(const Case &c, std::ostream &os) { os << case_line(c); }

// ------------------------------------------------------------------------------------------ bookkeeping
struct Verdict {
    bool ok = true;
    std::string label, detail;
};
static Verdict failv(const char *label, const std::string &detail) {
    Verdict v;
    v.ok = false;
    v.label = label;
    v.detail = detail;
    return v;
}

struct SubStat {
    uint64_t cases = 0, nontrivial = 0, excluded = 0;
};
static SubStat g_stat[NSUB];
static std::map<std::string, uint64_t> g_classes;
static uint64_t *class_slot(const std::string &name) { return &g_classes[name]; }
#define CLS(name)                                  \
    do {                                           \
        static uint64_t *c_ = class_slot(name);    \
        ++*c_;                                     \
    } while (0)

static std::set<std::string> g_excl;
static const char *CLS_NEG_UNSIGNED = "int2u.negative-accepted";
static const char *CLS_NO_DIGITS = "strtox.no-digits-accepted";
static bool g_ex_neg = false, g_ex_nodigits = false;

static std::vector<uint64_t> g_bitmap;
static unsigned g_bitmap_log2 = 22;
static uint64_t g_distinct = 0;
static void mark_distinct(uint64_t h) {
    if (g_bitmap.empty()) g_bitmap.assign((size_t)1 << (g_bitmap_log2 - 6), 0);
    uint64_t idx = h >> (64 - g_bitmap_log2);
    uint64_t m = (uint64_t)1 << (idx & 63);
    if (!(g_bitmap[idx >> 6] & m)) {
        g_bitmap[idx >> 6] |= m;
        g_distinct++;
    }
}

static bool g_want_summary = false;
static std::string g_summary;
static std::vector<std::string> g_samples;

struct Failure {
    std::string sub, label, line, detail;
};
static std::vector<Failure> g_failures;          // distinct (sub,label), first (sweep) / minimal (random) instance
static Failure g_lastfail;                        // last failing evaluation (rapidcheck: the shrunk one)
static bool g_have_lastfail = false;
static std::string g_fail_out;

// current case, for the sanitizer death callback (no allocation there)
static struct {
    int sub, kind;
    uint64_t bits;
    size_t len;
    uint8_t bytes[96];
    volatile int active;
} g_cur;

static void set_current(const Case &c) {
    g_cur.sub = c.sub;
    g_cur.kind = c.kind;
    g_cur.bits = c.bits;
    g_cur.len = std::min(c.bytes.size(), sizeof g_cur.bytes);
    if (g_cur.len) memcpy(g_cur.bytes, c.bytes.data(), g_cur.len);
    g_cur.active = 1;
}

static void emit_crash_line(const char *why) {
    static char buf[512];
    static const char *d = "0123456789abcdef";
    char hx[2 * sizeof g_cur.bytes + 2];
    size_t k = 0;
    for (size_t i = 0; i < g_cur.len; i++) {
        hx[k++] = d[g_cur.bytes[i] >> 4];
        hx[k++] = d[g_cur.bytes[i] & 15];
    }
    if (!k) hx[k++] = '-';
    hx[k] = 0;
    int n = 0;
    if (!g_cur.active) {
        n = snprintf(buf, sizeof buf, "C16CRASH (%s) outside of a case\n", why);
    } else {
        const char *pre = "C16CRASH ";
        switch (g_cur.sub) {
        case S_I2L: n = snprintf(buf, sizeof buf, "%si2l %s 0x%016llx\n", pre, KINDNAME[g_cur.kind & 3], (unsigned long long)g_cur.bits); break;
        case S_OCT: n = snprintf(buf, sizeof buf, "%soct %s\n", pre, hx); break;
        case S_DBL: n = snprintf(buf, sizeof buf, "%sdbl 0x%016llx\n", pre, (unsigned long long)g_cur.bits); break;
        case S_STR: n = snprintf(buf, sizeof buf, "%sstr %s %s\n", pre, STRFN[g_cur.kind & 3], hx); break;
        case S_NINT: n = snprintf(buf, sizeof buf, "%snint %s 0x%016llx\n", pre, g_cur.kind ? "u" : "s", (unsigned long long)g_cur.bits); break;
        case S_NREAL: n = snprintf(buf, sizeof buf, "%snreal 0x%016llx\n", pre, (unsigned long long)g_cur.bits); break;
        }
    }
    if (n > 0) {
        ssize_t w = write(2, buf, (size_t)n);
        (void)w;
        if (!g_fail_out.empty() && g_cur.active) {
            int fd = open(g_fail_out.c_str(), O_WRONLY | O_CREAT | O_APPEND, 0644);
            if (fd >= 0) {
                w = write(fd, "# label=crash\n", 14);
                w = write(fd, buf + 9, (size_t)n - 9);
                close(fd);
            }
        }
    }
}
static void on_death() { emit_crash_line("sanitizer"); }
static void on_abort(int) {
    emit_crash_line("abort");
    _exit(87);
}

// ------------------------------------------------------------------------------------------ reference model
struct Range {
    i128 lo, hi;
    bool uns;
};
static Range range_of(int kind) {
    switch (kind) {
    case K_LONG: return {(i128)LONG_MIN, (i128)LONG_MAX, false};
    case K_ULONG: return {0, (i128)ULONG_MAX, true};
    case K_IMAX: return {(i128)INTMAX_MIN, (i128)INTMAX_MAX, false};
    default: return {0, (i128)UINTMAX_MAX, true};
    }
}

// X.690 8.3: two's complement, fewest octets.  Found by the definition (smallest n whose range holds x), not by
// scanning octets as the library does.
static std::vector<uint8_t> ref_min_octets(i128 x) {
    int n = 1;
    for (; n < 15; n++) {
        i128 hi = (i128)(((u128)1 << (8 * n - 1)) - 1);
        i128 lo = -hi - 1;
        if (x >= lo && x <= hi) break;
    }
    std::vector<uint8_t> out((size_t)n);
    u128 u = (u128)x;
    for (int i = 0; i < n; i++) out[(size_t)(n - 1 - i)] = (uint8_t)(u >> (8 * i));
    return out;
}
static std::vector<uint8_t> ref_octets_len(i128 x, size_t n) {  // sign-extended to n octets
    std::vector<uint8_t> out(n);
    u128 u = (u128)x;
    for (size_t i = 0; i < n; i++) out[n - 1 - i] = i < 16 ? (uint8_t)(u >> (8 * i)) : (uint8_t)(x < 0 ? 0xff : 0);
    return out;
}
static i128 ref_value(const uint8_t *b, size_t n) {  // n in 1..16
    u128 u = (b[0] & 0x80) ? ~(u128)0 : 0;
    for (size_t i = 0; i < n; i++) u = (u << 8) | b[i];
    return (i128)u;
}

// X.690 8.5 + 11.3: binary encoding, base 2, F = 0, mantissa 0 or odd, fewest exponent and mantissa octets
static std::vector<uint8_t> ref_real_octets(uint64_t bits) {
    const bool sign = bits >> 63;
    const unsigned e = (unsigned)((bits >> 52) & 0x7ff);
    const uint64_t f = bits & 0xfffffffffffffull;
    if (e == 0x7ff) {
        if (f) return {0x42};           // NOT-A-NUMBER
        return {(uint8_t)(sign ? 0x41 : 0x40)};
    }
    if (e == 0 && f == 0) {
        if (sign) return {0x43};        // minus zero
        return {};                      // plus zero: no contents octets (8.5.2)
    }
    uint64_t m = e ? (f | ((uint64_t)1 << 52)) : f;
    int ex = (int)(e ? e : 1) - 1075;   // value = m * 2^ex
    while (!(m & 1)) {
        m >>= 1;
        ex++;
    }
    std::vector<uint8_t> eo = ref_min_octets((i128)ex);
    std::vector<uint8_t> out;
    if (eo.size() <= 3) {
        out.push_back((uint8_t)(0x80 | (sign ? 0x40 : 0) | (eo.size() - 1)));
    } else {
        out.push_back((uint8_t)(0x80 | (sign ? 0x40 : 0) | 3));
        out.push_back((uint8_t)eo.size());
    }
    out.insert(out.end(), eo.begin(), eo.end());
    int mo = 1;
    while (mo < 8 && (m >> (8 * mo))) mo++;
    for (int i = mo - 1; i >= 0; i--) out.push_back((uint8_t)(m >> (8 * i)));
    return out;
}

// ------------------------------------------------------------------------------------------ library access
struct IntBox {
    INTEGER_t st;
    IntBox() { memset(&st, 0, sizeof st); }
    ~IntBox() { ASN_STRUCT_RESET(asn_DEF_INTEGER, &st); }
    IntBox(const IntBox &) = delete;
};
struct RealBox {
    REAL_t st;
    RealBox() { memset(&st, 0, sizeof st); }
    ~RealBox() { ASN_STRUCT_RESET(asn_DEF_REAL, &st); }
    RealBox(const RealBox &) = delete;
};
static void box_set(ASN__PRIMITIVE_TYPE_t *st, const uint8_t *p, size_t n) {  // exact-size heap copy (ASan sees over-reads)
    st->buf = (uint8_t *)malloc(n ? n : 1);
    if (n) memcpy(st->buf, p, n);
    st->size = n;
}

static int lib_to(int kind, INTEGER_t *st, uint64_t bits) {
    switch (kind) {
    case K_LONG: return asn_long2INTEGER(st, (long)bits);
    case K_ULONG: return asn_ulong2INTEGER(st, (unsigned long)bits);
    case K_IMAX: return asn_imax2INTEGER(st, (intmax_t)bits);
    default: return asn_umax2INTEGER(st, (uintmax_t)bits);
    }
}
static const char *TO_NAME[NKIND] = {"asn_long2INTEGER", "asn_ulong2INTEGER", "asn_imax2INTEGER", "asn_umax2INTEGER"};
static const char *FROM_NAME[NKIND] = {"asn_INTEGER2long", "asn_INTEGER2ulong", "asn_INTEGER2imax", "asn_INTEGER2umax"};
static const uint64_t SENTINEL = 0x5a5a5a5a5a5a5a5aull;

static int lib_from(int kind, const INTEGER_t *st, i128 *out, int *err) {
    int rc;
    errno = 0;
    switch (kind) {
    case K_LONG: {
        long v = (long)SENTINEL;
        rc = asn_INTEGER2long(st, &v);
        *out = v;
        break;
    }
    case K_ULONG: {
        unsigned long v = SENTINEL;
        rc = asn_INTEGER2ulong(st, &v);
        *out = v;
        break;
    }
    case K_IMAX: {
        intmax_t v = (intmax_t)SENTINEL;
        rc = asn_INTEGER2imax(st, &v);
        *out = v;
        break;
    }
    default: {
        uintmax_t v = SENTINEL;
        rc = asn_INTEGER2umax(st, &v);
        *out = v;
        break;
    }
    }
    *err = errno;
    return rc;
}

// One target conversion of an INTEGER_t whose mathematical value is x.  what = text describing the source.
static Verdict check_from(int t, const INTEGER_t *st, i128 x, const std::string &what, bool *skipped) {
    const Range r = range_of(t);
    const bool fit = x >= r.lo && x <= r.hi;
    if (g_ex_neg && r.uns && x < 0) {
        *skipped = true;
        return Verdict();
    }
    i128 got;
    int err;
    int rc = lib_from(t, st, &got, &err);
    if (fit) {
        if (rc != 0)
            return failv("int.rejected-in-range", fmt("%s(%s) returned %d (errno %d) although the value %s fits", FROM_NAME[t],
                                                      what.c_str(), rc, err, dec128(x).c_str()));
        if (got != x)
            return failv("int.wrong-value", fmt("%s(%s) returned 0 with value %s, the octets mean %s", FROM_NAME[t], what.c_str(),
                                                dec128(got).c_str(), dec128(x).c_str()));
    } else {
        if (rc == 0) {
            if (r.uns && x < 0)
                return failv(CLS_NEG_UNSIGNED,
                             fmt("%s(%s) returned 0 with value %s: the octets mean the negative number %s, which does not fit "
                                 "an unsigned type (expected -1/ERANGE)",
                                 FROM_NAME[t], what.c_str(), dec128(got).c_str(), dec128(x).c_str()));
            return failv("int.accepted-out-of-range", fmt("%s(%s) returned 0 with value %s: the octets mean %s, outside %s..%s",
                                                          FROM_NAME[t], what.c_str(), dec128(got).c_str(), dec128(x).c_str(),
                                                          dec128(r.lo).c_str(), dec128(r.hi).c_str()));
        }
        if (rc != -1 || err != ERANGE)
            return failv("int.range-error-code", fmt("%s(%s): value %s is out of range, expected -1/ERANGE, got %d/errno %d",
                                                     FROM_NAME[t], what.c_str(), dec128(x).c_str(), rc, err));
    }
    return Verdict();
}

static INTEGER_t g_reuse_int;
static REAL_t g_reuse_real;

// ------------------------------------------------------------------------------------------ i2l
static Verdict eval_i2l(const Case &c) {
    const int kind = c.kind;
    const bool uns = range_of(kind).uns;
    const i128 x = uns ? (i128)c.bits : (i128)(int64_t)c.bits;
    const u128 mag = x < 0 ? (u128)0 - (u128)x : (u128)x;
    IntBox a;
    int rc = lib_to(kind, &a.st, c.bits);
    if (rc != 0) return failv("int.to-rc", fmt("%s(%s) returned %d", TO_NAME[kind], dec128(x).c_str(), rc));
    const std::vector<uint8_t> ref = ref_min_octets(x);
    if (!a.st.buf || (size_t)a.st.size != ref.size() || memcmp(a.st.buf, ref.data(), ref.size()))
        return failv("int.octets-not-minimal",
                     fmt("%s(%s) stored octets %s, the minimal two's-complement form is %s", TO_NAME[kind], dec128(x).c_str(),
                         a.st.buf ? hexs(a.st.buf, (size_t)a.st.size).c_str() : "(null)", hexs(ref).c_str()));
    bool skipped = false;
    const std::string what = fmt("%s(%s)=%s", TO_NAME[kind], dec128(x).c_str(), hexs(ref).c_str());
    for (int t = 0; t < NKIND; t++) {
        Verdict v = check_from(t, &a.st, x, what, &skipped);
        if (!v.ok) return v;
    }
    // converting into a structure that already holds a value must give the same octets (and free the old buffer)
    rc = lib_to(kind, &g_reuse_int, c.bits);
    if (rc != 0 || (size_t)g_reuse_int.size != ref.size() || memcmp(g_reuse_int.buf, ref.data(), ref.size()))
        return failv("int.reuse", fmt("%s(%s) into a used INTEGER_t gave rc=%d octets %s, expected %s", TO_NAME[kind],
                                      dec128(x).c_str(), rc, hexs(g_reuse_int.buf, (size_t)g_reuse_int.size).c_str(),
                                      hexs(ref).c_str()));
    SubStat &s = g_stat[S_I2L];
    if (skipped) s.excluded++;
    if (mag >= 128) {
        s.nontrivial++;
        mark_distinct(mix(mix(S_I2L, (uint64_t)kind), c.bits));
    }
    switch (kind) {
    case K_LONG: CLS("i2l.long"); break;
    case K_ULONG: CLS("i2l.ulong"); break;
    case K_IMAX: CLS("i2l.imax"); break;
    default: CLS("i2l.umax"); break;
    }
    if (x < 0) CLS("i2l.negative");
    if (ref.size() == 9) CLS("i2l.octets.9");
    else if (ref.size() == 8) CLS("i2l.octets.8");
    else if (ref.size() >= 3) CLS("i2l.octets.3-7");
    else CLS("i2l.octets.1-2");
    if (x == range_of(kind).lo || x == range_of(kind).hi) CLS("i2l.type-min-or-max");
    if (mag >= 2 && (((mag & (mag - 1)) == 0) || ((mag + 1) & mag) == 0 || (((mag - 1) & (mag - 2)) == 0)))
        CLS("i2l.power-of-two-neighbourhood");
    if (g_want_summary) g_summary = fmt("%s -> %s -> back on all four targets", dec128(x).c_str(), hexs(ref).c_str());
    return Verdict();
}

// ------------------------------------------------------------------------------------------ oct
static Verdict eval_oct(const Case &c) {
    const size_t n = c.bytes.size();
    IntBox a;
    box_set(&a.st, c.bytes.data(), n);
    SubStat &s = g_stat[S_OCT];
    if (n == 0) {
        // X.690 8.3.1 demands at least one octet; the API accepts an empty buffer as 0.  Nothing is asserted beyond
        // "no crash, 0/-1, and 0 means value 0".
        for (int t = 0; t < NKIND; t++) {
            i128 got;
            int err;
            int rc = lib_from(t, &a.st, &got, &err);
            if ((rc != 0 && rc != -1) || (rc == 0 && got != 0))
                return failv("int.empty", fmt("%s(empty buffer) returned %d value %s", FROM_NAME[t], rc, dec128(got).c_str()));
        }
        CLS("oct.empty");
        if (g_want_summary) g_summary = "empty contents: accepted as 0 or refused";
        return Verdict();
    }
    const i128 x = ref_value(c.bytes.data(), n);
    const u128 mag = x < 0 ? (u128)0 - (u128)x : (u128)x;
    const std::vector<uint8_t> ref = ref_min_octets(x);
    const std::string what = "octets " + hexs(c.bytes);
    bool skipped = false;
    for (int t = 0; t < NKIND; t++) {
        Verdict v = check_from(t, &a.st, x, what, &skipped);
        if (!v.ok) return v;
    }
    const Range rl = range_of(K_LONG), ru = range_of(K_ULONG);
    if (x >= rl.lo && x <= rl.hi) {  // back through the native type: re-minimised
        IntBox b;
        int rc = asn_long2INTEGER(&b.st, (long)x);
        if (rc != 0 || (size_t)b.st.size != ref.size() || memcmp(b.st.buf, ref.data(), ref.size()))
            return failv("int.octets-not-minimal", fmt("asn_long2INTEGER(%s) (value of octets %s) gave rc=%d octets %s, minimal form %s",
                                                       dec128(x).c_str(), hexs(c.bytes).c_str(), rc,
                                                       b.st.buf ? hexs(b.st.buf, (size_t)b.st.size).c_str() : "(null)", hexs(ref).c_str()));
        CLS("oct.fits.long");
    } else if (x >= ru.lo && x <= ru.hi) {
        IntBox b;
        int rc = asn_ulong2INTEGER(&b.st, (unsigned long)x);
        if (rc != 0 || (size_t)b.st.size != ref.size() || memcmp(b.st.buf, ref.data(), ref.size()))
            return failv("int.octets-not-minimal", fmt("asn_ulong2INTEGER(%s) (value of octets %s) gave rc=%d octets %s, minimal form %s",
                                                       dec128(x).c_str(), hexs(c.bytes).c_str(), rc,
                                                       b.st.buf ? hexs(b.st.buf, (size_t)b.st.size).c_str() : "(null)", hexs(ref).c_str()));
        CLS("oct.fits.ulong-only");
    } else {
        CLS("oct.fits.none");
    }
    if (skipped) s.excluded++;
    if (mag >= 128) {
        s.nontrivial++;
        mark_distinct(hash_bytes(S_OCT, c.bytes.data(), n));
    }
    if (ref.size() == n) CLS("oct.minimal");
    else CLS("oct.non-minimal");
    if (x < 0) CLS("oct.negative");
    if (n > 8) CLS("oct.len.9-10");
    else if (n == 8) CLS("oct.len.8");
    else if (n >= 3) CLS("oct.len.3-7");
    else CLS("oct.len.1-2");
    {
        const i128 just[] = {rl.hi + 1, rl.lo - 1, ru.hi + 1, -1, rl.hi + 2, rl.lo - 2, ru.hi + 2};
        for (i128 j : just)
            if (x == j) {
                CLS("oct.just-outside-a-type");
                break;
            }
        const i128 edge[] = {rl.hi, rl.lo, ru.hi, 0};
        for (i128 j : edge)
            if (x == j) {
                CLS("oct.at-a-type-bound");
                break;
            }
    }
    if (g_want_summary) g_summary = fmt("value %s (minimal form %s)", dec128(x).c_str(), hexs(ref).c_str());
    return Verdict();
}

// ------------------------------------------------------------------------------------------ dbl
static Verdict check_real_back(const REAL_t *st, uint64_t bits, const char *what) {
    double back = bits2d(SENTINEL);
    int rc = asn_REAL2double(st, &back);
    const double d = bits2d(bits);
    if (rc != 0)
        return failv("real.back-rc", fmt("asn_REAL2double(%s %s) returned %d for the encoding of bit pattern 0x%016llx (%.17g)", what,
                                         hexs(st->buf, (size_t)st->size).c_str(), rc, (unsigned long long)bits, d));
    if (std::isnan(d) ? !std::isnan(back) : d2bits(back) != bits)
        return failv("real.roundtrip", fmt("asn_REAL2double(%s %s) gave 0x%016llx (%.17g), expected 0x%016llx (%.17g)", what,
                                           hexs(st->buf, (size_t)st->size).c_str(), (unsigned long long)d2bits(back), back,
                                           (unsigned long long)bits, d));
    return Verdict();
}

static void dbl_classes(uint64_t bits, const std::vector<uint8_t> &ref, const char *pre, Sub sub) {
    const unsigned e = (unsigned)((bits >> 52) & 0x7ff);
    const uint64_t f = bits & 0xfffffffffffffull;
    const bool triv = (e == 0 && f == 0) || (e == 1023 && f == 0);
    if (!triv) {
        g_stat[sub].nontrivial++;
        mark_distinct(mix((uint64_t)sub, bits));
    }
    if (sub != S_DBL) return;
    (void)pre;
    if (e == 0x7ff) {
        if (f) CLS("dbl.nan");
        else CLS("dbl.infinity");
    } else if (e == 0) {
        if (f) CLS("dbl.subnormal");
        else CLS("dbl.zero");
    } else {
        CLS("dbl.normal");
    }
    if (bits >> 63) CLS("dbl.negative");
    if (!ref.empty() && (ref[0] & 0x80)) {
        if ((ref[0] & 3) == 0) CLS("dbl.exponent-octets.1");
        else if ((ref[0] & 3) == 1) CLS("dbl.exponent-octets.2");
        else CLS("dbl.exponent-octets.3+");
        size_t mo = ref.size() - 2 - (ref[0] & 3);
        if (mo == 1) CLS("dbl.mantissa-octets.1");
        else if (mo == 7) CLS("dbl.mantissa-octets.7");
        else CLS("dbl.mantissa-octets.2-6");
        if (e && !(f & 1)) CLS("dbl.mantissa-needs-normalising");
    }
}

static Verdict eval_dbl(const Case &c) {
    const uint64_t bits = c.bits;
    const double d = bits2d(bits);
    const std::vector<uint8_t> ref = ref_real_octets(bits);
    RealBox a;
    int rc = asn_double2REAL(&a.st, d);
    if (rc != 0) return failv("real.to-rc", fmt("asn_double2REAL(0x%016llx = %.17g) returned %d", (unsigned long long)bits, d, rc));
    if (!a.st.buf || (size_t)a.st.size != ref.size() || (ref.size() && memcmp(a.st.buf, ref.data(), ref.size())))
        return failv("real.octets-not-der", fmt("asn_double2REAL(0x%016llx = %.17g) stored octets %s, X.690 8.5/11.3 (base 2, odd "
                                                "mantissa, fewest octets) gives %s",
                                                (unsigned long long)bits, d,
                                                a.st.buf ? hexs(a.st.buf, (size_t)a.st.size).c_str() : "(null)", hexs(ref).c_str()));
    Verdict v = check_real_back(&a.st, bits, "own octets");
    if (!v.ok) return v;
    {  // the decoder alone, on the octets of the reference encoder (exact-size buffer)
        RealBox b;
        box_set(&b.st, ref.data(), ref.size());
        v = check_real_back(&b.st, bits, "reference octets");
        if (!v.ok) return v;
    }
    rc = asn_double2REAL(&g_reuse_real, d);
    if (rc != 0 || (size_t)g_reuse_real.size != ref.size() || (ref.size() && memcmp(g_reuse_real.buf, ref.data(), ref.size())))
        return failv("real.reuse", fmt("asn_double2REAL(0x%016llx) into a used REAL_t gave rc=%d octets %s, expected %s",
                                       (unsigned long long)bits, rc, hexs(g_reuse_real.buf, (size_t)g_reuse_real.size).c_str(),
                                       hexs(ref).c_str()));
    dbl_classes(bits, ref, "dbl", S_DBL);
    if (g_want_summary) g_summary = fmt("%.17g -> %s -> same bits", d, hexs(ref).c_str());
    return Verdict();
}

// ------------------------------------------------------------------------------------------ str
struct StrExpect {
    int code;           // expected asn_strtox_result_e
    bool any_error;     // any negative code is fine (unsigned parser, leading '-')
    bool anything;      // nothing asserted ("-0" for an unsigned parser)
    bool no_digits;     // no digit after the optional sign
    bool check_end;
    size_t end_off;
    i128 value;
    size_t digits;
};

static StrExpect str_model(int fn, const uint8_t *s, size_t n) {
    StrExpect e = {ASN_STRTOX_ERROR_INVAL, false, false, false, false, 0, 0, 0};
    const Range r = range_of(fn);
    if (n == 0) return e;  // "str >= *end": ERROR_INVAL
    size_t i = 0;
    bool neg = false, sign = false;
    if (s[0] == '-') {
        neg = sign = true;
        i = 1;
    } else if (s[0] == '+') {
        sign = true;
        i = 1;
    }
    size_t j = i;
    while (j < n && s[j] >= '0' && s[j] <= '9') j++;
    e.digits = j - i;
    if (neg && r.uns) {
        bool allzero = j > i;
        for (size_t p = i; p < j; p++) allzero = allzero && s[p] == '0';
        e.any_error = true;
        e.anything = allzero;  // "-0": not decided by the statement
        return e;
    }
    if (sign && i >= n) {  // "+" / "-": more data expected, the sign was consumed
        e.code = ASN_STRTOX_EXPECT_MORE;
        e.check_end = true;
        e.end_off = 1;
        return e;
    }
    if (j == i) {  // "+-", "x": not a numeral (INTEGER.h: ERROR_INVAL, 'Invalid data encountered (e.g., "+-")')
        e.no_digits = true;
        return e;
    }
    i128 v = 0;  // big-integer parse, stopped at the first digit that leaves the range (so v < 2^68)
    for (size_t p = i; p < j; p++) {
        v = v * 10 + (s[p] - '0');
        const i128 x = neg ? -v : v;
        if (x < r.lo || x > r.hi) {
            e.code = ASN_STRTOX_ERROR_RANGE;
            e.check_end = true;  // "position after the last parsed character": the digit that overflowed is not parsed
            e.end_off = p;
            return e;
        }
    }
    e.value = neg ? -v : v;
    e.check_end = true;
    if (j == n) {
        e.code = ASN_STRTOX_OK;
        e.end_off = n;
    } else {
        e.code = ASN_STRTOX_EXTRA_DATA;
        e.end_off = j;
    }
    return e;
}

static Verdict eval_str(const Case &c) {
    const int fn = c.kind;
    const size_t n = c.bytes.size();
    const StrExpect e = str_model(fn, c.bytes.data(), n);
    SubStat &s = g_stat[S_STR];
    if (e.no_digits && g_ex_nodigits) {
        s.excluded++;
        return Verdict();
    }
    char *buf = (char *)malloc(n ? n : 1);  // exact size, not NUL-terminated: reads past *end are caught by ASan
    if (n) memcpy(buf, c.bytes.data(), n);
    const char *end = buf + n;
    i128 got = 0;
    int code;
    switch (fn) {
    case K_LONG: {
        long v = (long)SENTINEL;
        code = asn_strtol_lim(buf, &end, &v);
        got = v;
        break;
    }
    case K_ULONG: {
        unsigned long v = SENTINEL;
        code = asn_strtoul_lim(buf, &end, &v);
        got = v;
        break;
    }
    case K_IMAX: {
        intmax_t v = (intmax_t)SENTINEL;
        code = asn_strtoimax_lim(buf, &end, &v);
        got = v;
        break;
    }
    default: {
        uintmax_t v = SENTINEL;
        code = asn_strtoumax_lim(buf, &end, &v);
        got = v;
        break;
    }
    }
    const ptrdiff_t off = end - buf;
    free(buf);
    const std::string call = fmt("asn_%s_lim(%s, end=+%zu)", STRFN[fn], printable(c.bytes.data(), n).c_str(), n);
    if (off < 0 || (size_t)off > n)
        return failv("strtox.end-outside", fmt("%s moved *end to offset %td, outside the buffer", call.c_str(), off));
    if (e.anything) {
        CLS("str.unsigned-minus-zero(unasserted)");
    } else if (e.any_error) {
        if (code >= 0)
            return failv("strtox.code", fmt("%s returned %d (value %s): a negative numeral is not in the range of an unsigned type",
                                            call.c_str(), code, dec128(got).c_str()));
        CLS("str.unsigned-negative");
    } else if (e.no_digits) {
        if (code >= 0)
            return failv(CLS_NO_DIGITS, fmt("%s returned %d (%s) with value %s, *end at offset %td: there is no digit, INTEGER.h "
                                            "documents ASN_STRTOX_ERROR_INVAL (-2) for invalid data such as \"+-\"",
                                            call.c_str(), code, code ? "ASN_STRTOX_EXTRA_DATA" : "ASN_STRTOX_OK",
                                            dec128(got).c_str(), off));
        if (code != ASN_STRTOX_ERROR_INVAL)
            return failv("strtox.code", fmt("%s returned %d, expected ASN_STRTOX_ERROR_INVAL (no digit)", call.c_str(), code));
        CLS("str.no-digits");
    } else {
        if (code != e.code)
            return failv("strtox.code", fmt("%s returned %d (value %s), the big-integer parse gives %d (value %s)", call.c_str(), code,
                                            code >= 0 ? dec128(got).c_str() : "not set", e.code,
                                            e.code >= 0 ? dec128(e.value).c_str() : "none"));
        if (code >= 0 && got != e.value)
            return failv("strtox.value", fmt("%s returned %d with value %s, the numeral is %s", call.c_str(), code,
                                             dec128(got).c_str(), dec128(e.value).c_str()));
        if (e.check_end && (size_t)off != e.end_off)
            return failv("strtox.end", fmt("%s returned %d and left *end at offset %td, expected offset %zu", call.c_str(), code, off,
                                           e.end_off));
        switch (e.code) {
        case ASN_STRTOX_OK: CLS("str.OK"); break;
        case ASN_STRTOX_EXTRA_DATA: CLS("str.EXTRA_DATA"); break;
        case ASN_STRTOX_ERROR_RANGE: CLS("str.ERROR_RANGE"); break;
        case ASN_STRTOX_EXPECT_MORE: CLS("str.EXPECT_MORE"); break;
        default: CLS("str.ERROR_INVAL"); break;
        }
        if (e.code >= 0) {
            const Range r = range_of(fn);
            if (e.value == r.lo || e.value == r.hi) CLS("str.at-type-bound");
        }
    }
    switch (fn) {
    case K_LONG: CLS("str.strtol"); break;
    case K_ULONG: CLS("str.strtoul"); break;
    case K_IMAX: CLS("str.strtoimax"); break;
    default: CLS("str.strtoumax"); break;
    }
    if (e.digits >= 19) CLS("str.digits>=19");
    if (n && (c.bytes[0] == '+' || c.bytes[0] == '-')) CLS("str.signed-text");
    const u128 mag = e.value < 0 ? (u128)0 - (u128)e.value : (u128)e.value;
    if (mag >= 128 || e.code != ASN_STRTOX_OK) {
        s.nontrivial++;
        mark_distinct(hash_bytes(mix(S_STR, (uint64_t)fn), c.bytes.data(), n));
    }
    if (g_want_summary) g_summary = fmt("code %d value %s end +%td", code, code >= 0 ? dec128(got).c_str() : "-", off);
    return Verdict();
}

// ------------------------------------------------------------------------------------------ nint / nreal
static asn_INTEGER_specifics_t g_uns_specs;
static asn_TYPE_descriptor_t g_td_unsigned;
static void init_native() {
    memset(&g_uns_specs, 0, sizeof g_uns_specs);
    g_uns_specs.field_width = sizeof(unsigned long);
    g_uns_specs.field_unsigned = 1;
    g_td_unsigned = asn_DEF_NativeInteger;
    g_td_unsigned.specifics = &g_uns_specs;
}

static Verdict eval_nint(const Case &c) {
    const bool uns = c.kind != 0;
    const asn_TYPE_descriptor_t *td = uns ? &g_td_unsigned : &asn_DEF_NativeInteger;
    const i128 x = uns ? (i128)c.bits : (i128)(int64_t)c.bits;
    const u128 mag = x < 0 ? (u128)0 - (u128)x : (u128)x;
    const std::vector<uint8_t> ref = ref_min_octets(x);
    unsigned long val = (unsigned long)c.bits;
    uint8_t buf[32];
    asn_enc_rval_t er = der_encode_to_buffer(td, &val, buf, sizeof buf);
    const char *nm = uns ? "NativeInteger(unsigned)" : "NativeInteger";
    if (er.encoded != (ssize_t)(2 + ref.size()) || buf[0] != 0x02 || buf[1] != ref.size() || memcmp(buf + 2, ref.data(), ref.size()))
        return failv("nint.der", fmt("der_encode(%s %s) gave %zd octets %s, expected 02 %02zx %s", nm, dec128(x).c_str(), er.encoded,
                                     er.encoded > 0 ? hexs(buf, (size_t)er.encoded).c_str() : "-", ref.size(), hexs(ref).c_str()));
    unsigned long back = SENTINEL;
    void *p = &back;
    uint8_t *heap = (uint8_t *)malloc((size_t)er.encoded);
    memcpy(heap, buf, (size_t)er.encoded);
    asn_dec_rval_t dr = ber_decode(0, td, &p, heap, (size_t)er.encoded);
    free(heap);
    if (dr.code != RC_OK || dr.consumed != (size_t)er.encoded || back != val)
        return failv("nint.roundtrip", fmt("ber_decode(%s, %s) gave code %d consumed %zu value 0x%lx, expected 0x%lx", nm,
                                           hexs(buf, (size_t)er.encoded).c_str(), (int)dr.code, dr.consumed, back, val));
    if (mag >= 128) {
        g_stat[S_NINT].nontrivial++;
        mark_distinct(mix(mix(S_NINT, (uint64_t)uns), c.bits));
    }
    if (uns) CLS("nint.unsigned");
    else CLS("nint.signed");
    if (g_want_summary) g_summary = fmt("%s -> 02 %02zx %s -> same", dec128(x).c_str(), ref.size(), hexs(ref).c_str());
    return Verdict();
}

static Verdict eval_nreal(const Case &c) {
    const std::vector<uint8_t> ref = ref_real_octets(c.bits);
    double d = bits2d(c.bits);
    uint8_t buf[32];
    asn_enc_rval_t er = der_encode_to_buffer(&asn_DEF_NativeReal, &d, buf, sizeof buf);
    if (er.encoded != (ssize_t)(2 + ref.size()) || buf[0] != 0x09 || buf[1] != ref.size() ||
        (ref.size() && memcmp(buf + 2, ref.data(), ref.size())))
        return failv("nreal.der", fmt("der_encode(NativeReal 0x%016llx = %.17g) gave %zd octets %s, expected 09 %02zx %s",
                                      (unsigned long long)c.bits, d, er.encoded, er.encoded > 0 ? hexs(buf, (size_t)er.encoded).c_str() : "-",
                                      ref.size(), hexs(ref).c_str()));
    double back = bits2d(SENTINEL);
    void *p = &back;
    uint8_t *heap = (uint8_t *)malloc((size_t)er.encoded);
    memcpy(heap, buf, (size_t)er.encoded);
    asn_dec_rval_t dr = ber_decode(0, &asn_DEF_NativeReal, &p, heap, (size_t)er.encoded);
    free(heap);
    if (dr.code != RC_OK || dr.consumed != (size_t)er.encoded || (std::isnan(d) ? !std::isnan(back) : d2bits(back) != c.bits))
        return failv("nreal.roundtrip", fmt("ber_decode(NativeReal, %s) gave code %d consumed %zu bits 0x%016llx, expected 0x%016llx",
                                            hexs(buf, (size_t)er.encoded).c_str(), (int)dr.code, dr.consumed,
                                            (unsigned long long)d2bits(back), (unsigned long long)c.bits));
    dbl_classes(c.bits, ref, "nreal", S_NREAL);
    CLS("nreal.cases");
    if (g_want_summary) g_summary = fmt("%.17g -> 09 %02zx %s -> same bits", d, ref.size(), hexs(ref).c_str());
    return Verdict();
}

// ------------------------------------------------------------------------------------------ one evaluation
static uint64_t g_sample_every = 0;

static Verdict evaluate(const Case &c) {
    set_current(c);
    SubStat &s = g_stat[c.sub];
    s.cases++;
    g_want_summary = g_samples.size() < 40 && (s.cases <= 2 || (g_sample_every && s.cases % g_sample_every == 0));
    Verdict v;
    switch (c.sub) {
    case S_I2L: v = eval_i2l(c); break;
    case S_OCT: v = eval_oct(c); break;
    case S_DBL: v = eval_dbl(c); break;
    case S_STR: v = eval_str(c); break;
    case S_NINT: v = eval_nint(c); break;
    default: v = eval_nreal(c); break;
    }
    g_cur.active = 0;
    if (v.ok) {
        if (g_want_summary && !g_summary.empty()) {
            std::string l = case_line(c);
            if (c.sub == S_STR) l += " " + printable(c.bytes.data(), c.bytes.size());
            g_samples.push_back(l + " : " + g_summary);
        }
        g_summary.clear();
    } else {
        g_lastfail = {SUBNAME[c.sub], v.label, case_line(c), v.detail};
        g_have_lastfail = true;
    }
    return v;
}

static void record_failure(const Failure &f) {
    for (const Failure &g : g_failures)
        if (g.sub == f.sub && g.label == f.label) return;
    if (g_failures.size() >= 40) return;
    g_failures.push_back(f);
    if (!g_fail_out.empty()) {
        FILE *fp = fopen(g_fail_out.c_str(), "a");
        if (fp) {
            fprintf(fp, "# label=%s detail=%s\n%s\n", f.label.c_str(), f.detail.c_str(), f.line.c_str());
            fclose(fp);
        }
    }
}

// ------------------------------------------------------------------------------------------ sweep
static void sweep_eval(const Case &c) {
    Verdict v = evaluate(c);
    if (!v.ok) record_failure(g_lastfail);
}

// 0, +-1, +-2^k, +-2^k+-1 for every k < bits, plus a dense band around zero
static std::vector<i128> boundary_values(int maxbit) {
    std::vector<i128> v;
    for (int k = 0; k <= maxbit; k++) {
        const i128 p = (i128)((u128)1 << k);
        for (int d = -2; d <= 2; d++) {
            v.push_back(p + d);
            v.push_back(-p + d);
        }
    }
    std::sort(v.begin(), v.end());
    v.erase(std::unique(v.begin(), v.end()), v.end());
    return v;
}

static void sweep_ints(Sub sub) {
    const std::vector<i128> bv = boundary_values(64);
    const int nk = sub == S_I2L ? NKIND : 2;
    for (int k = 0; k < nk; k++) {
        const Range r = sub == S_I2L ? range_of(k) : range_of(k ? K_ULONG : K_LONG);
        Case c;
        c.sub = sub;
        c.kind = k;
        std::vector<i128> vals = bv;
        for (int d = 0; d <= 3; d++) {
            vals.push_back(r.lo + d);
            vals.push_back(r.hi - d);
        }
        for (i128 x : vals)
            if (x >= r.lo && x <= r.hi) {
                c.bits = (uint64_t)x;
                sweep_eval(c);
            }
        const int band = sub == S_I2L ? 70000 : 33000;
        for (int x = -band; x <= band; x++)  // every 1- and 2-octet value, the 2/3-octet borders
            if ((i128)x >= r.lo) {
                c.bits = (uint64_t)(int64_t)x;
                sweep_eval(c);
            }
    }
}

static void sweep_oct() {
    Case c;
    c.sub = S_OCT;
    sweep_eval(c);  // empty
    for (int a = 0; a < 256; a++) {
        c.bytes = {(uint8_t)a};
        sweep_eval(c);
    }
    for (int a = 0; a < 65536; a++) {
        c.bytes = {(uint8_t)(a >> 8), (uint8_t)a};
        sweep_eval(c);
    }
    // every boundary value in every length from its minimal form up to 10 octets (sign-extended = non-minimal)
    for (i128 x : boundary_values(79)) {
        const size_t m = ref_min_octets(x).size();
        for (size_t n = m; n <= 10; n++) {
            c.bytes = ref_octets_len(x, n);
            sweep_eval(c);
        }
    }
    // the leading-octet patterns the trimming code looks at: {00,ff,7f,80,01,fe}^3 followed by 0..7 octets of 00/ff/55
    static const uint8_t lead[] = {0x00, 0xff, 0x7f, 0x80, 0x01, 0xfe};
    static const uint8_t fill[] = {0x00, 0xff, 0x55};
    for (uint8_t a : lead)
        for (uint8_t b : lead)
            for (uint8_t d : lead)
                for (uint8_t f : fill)
                    for (size_t tail = 0; tail <= 7; tail++) {
                        c.bytes = {a, b, d};
                        c.bytes.insert(c.bytes.end(), tail, f);
                        sweep_eval(c);
                    }
}

static std::vector<uint64_t> sweep_mantissas(uint64_t *rng, int nrandom) {
    const uint64_t ones = 0xfffffffffffffull;
    std::vector<uint64_t> m = {0, 1, ones};
    for (int p = 0; p < 52; p++) {
        m.push_back((uint64_t)1 << p);            // a single bit at every position
        m.push_back(ones ^ ((uint64_t)1 << p));   // a single hole at every position
        m.push_back(ones >> p << p);              // p trailing zeros below a run of ones
    }
    for (int i = 0; i < nrandom; i++) m.push_back(splitmix(rng) & ones);
    return m;
}

static void sweep_doubles(Sub sub, uint64_t seed) {
    uint64_t rng = seed ^ 0xc16c16;
    Case c;
    c.sub = sub;
    const int nrandom = sub == S_DBL ? 4 : 2;
    for (unsigned e = 0; e < 2048; e++) {
        const std::vector<uint64_t> ms = sweep_mantissas(&rng, nrandom);  // fresh random mantissas per exponent
        for (size_t i = 0; i < ms.size(); i++) {
            if (sub == S_NREAL && i >= 3 && (i - 3) % 3 == 2 && i < 3 + 156) continue;  // codec path: skip one family
            for (uint64_t s = 0; s < 2; s++) {
                c.bits = (s << 63) | ((uint64_t)e << 52) | ms[i];
                sweep_eval(c);
            }
        }
    }
    for (int i = -2000; i <= 2000; i++) {  // small integers and their halves, tenths
        c.bits = d2bits((double)i);
        sweep_eval(c);
        c.bits = d2bits(i / 2.0);
        sweep_eval(c);
        c.bits = d2bits(i / 10.0);
        sweep_eval(c);
    }
    double p10 = 1;
    for (int i = 0; i <= 308; i++, p10 *= 10) {
        c.bits = d2bits(p10);
        sweep_eval(c);
        c.bits = d2bits(-1 / p10);
        sweep_eval(c);
    }
}

static std::string udec(u128 v) { return dec128((i128)v); }  // v < 2^127 here

static void sweep_str() {
    const u128 p63 = (u128)1 << 63, p64 = (u128)1 << 64;
    std::vector<u128> B = {0, 10, 100, 127, 128, 255, 256, 32767, 32768, 65535, 65536,
                           ((u128)1 << 31) - 1, (u128)1 << 31, ((u128)1 << 32) - 1, (u128)1 << 32,
                           (u128)LONG_MAX / 10, (u128)ULONG_MAX / 10, (u128)LONG_MAX / 100, (u128)ULONG_MAX / 100,
                           (u128)LONG_MAX, p63, (u128)ULONG_MAX, p64, p63 * 10, p64 * 10, p63 * 100, p64 * 100,
                           (u128)LONG_MAX * 10 + 7, (u128)ULONG_MAX * 10 + 5};
    u128 p10 = 1;
    for (int i = 0; i <= 24; i++, p10 *= 10)
        if (i >= 17) B.push_back(p10);
    std::vector<std::string> numerals;
    for (u128 b : B)
        for (int d = -12; d <= 12; d++) {
            if (d < 0 && b < (u128)(-d)) continue;
            numerals.push_back(udec(b + (u128)(i128)d));
        }
    numerals.push_back("99999999999999999999");
    numerals.push_back("999999999999999999999999999999999999999999");
    numerals.push_back("9223372036854775807000000000000000000000");
    numerals.push_back("18446744073709551615000000000000000000000");
    numerals.push_back("");  // no digits at all
    std::sort(numerals.begin(), numerals.end());
    numerals.erase(std::unique(numerals.begin(), numerals.end()), numerals.end());
    static const char *signs[] = {"", "+", "-"};
    static const int zeros[] = {0, 1, 2, 21};
    const std::vector<std::string> tails = {"", " ", "x", "<", "-", "+", ".5", "e1", std::string("\0", 1), "\xff", "/", ":", " 1"};
    Case c;
    c.sub = S_STR;
    for (int fn = 0; fn < NKIND; fn++) {  // the short texts first: the first failure of a kind is the one reported
        c.kind = fn;
        for (const char *t : {"", "+", "-", "+-", "-+", "x", "++1", "--1", "+ 1", " 1", "0x10", "-x", "+x", "1-", "1+", "- 1"}) {
            c.bytes.assign(t, t + strlen(t));
            sweep_eval(c);
        }
    }
    for (int fn = 0; fn < NKIND; fn++) {
        c.kind = fn;
        for (const char *sg : signs)
            for (int z : zeros)
                for (const std::string &num : numerals)
                    for (const std::string &t : tails) {
                        std::string s = std::string(sg) + std::string((size_t)z, '0') + num + t;
                        c.bytes.assign(s.begin(), s.end());
                        sweep_eval(c);
                        if (t.empty() && s.size() >= 2) {  // the same text with *end before the last one / two characters
                            c.bytes.pop_back();
                            sweep_eval(c);
                            if (c.bytes.size() > 17) {
                                c.bytes.pop_back();
                                sweep_eval(c);
                            }
                        }
                    }
    }
}

static void run_sweep(int sub, uint64_t seed) {
    if (sub == S_I2L || sub < 0) sweep_ints(S_I2L);
    if (sub == S_OCT || sub < 0) sweep_oct();
    if (sub == S_DBL || sub < 0) sweep_doubles(S_DBL, seed);
    if (sub == S_STR || sub < 0) sweep_str();
    if (sub == S_NINT || sub < 0) sweep_ints(S_NINT);
    if (sub == S_NREAL || sub < 0) sweep_doubles(S_NREAL, seed);
}

// ------------------------------------------------------------------------------------------ generators
namespace G {
using namespace rc;

// inRange / arbitrary collapse towards 0 at small sizes: pin the size
template <typename T> static Gen<T> full(Gen<T> g) { return gen::resize(kNominalSize, std::move(g)); }

static Gen<uint8_t> octet() {
    return gen::oneOf(gen::element<uint8_t>(0x00, 0xff, 0x80, 0x7f, 0x01, 0xfe), full(gen::arbitrary<uint8_t>()));
}

static Gen<uint64_t> u64() {
    return gen::oneOf(
        full(gen::arbitrary<uint64_t>()),
        gen::arbitrary<uint64_t>(),  // size-scaled: small magnitudes
        gen::apply(
            [](int k, int delta, bool neg) {
                uint64_t v = ((uint64_t)1 << k) + (uint64_t)(int64_t)delta;
                return neg ? (uint64_t)0 - v : v;
            },
            full(gen::inRange(0, 64)), full(gen::inRange(-3, 4)), gen::arbitrary<bool>()),
        gen::apply([](int v, bool neg) { return (uint64_t)(int64_t)(neg ? -v : v); }, full(gen::inRange<int>(0, 70001)),
                   gen::arbitrary<bool>()),
        gen::map(gen::container<std::vector<uint8_t>>(8, octet()), [](const std::vector<uint8_t> &b) {
            uint64_t v = 0;
            for (uint8_t x : b) v = (v << 8) | x;
            return v;
        }));
}

static Gen<Case> i2l() {
    return gen::apply(
        [](int kind, uint64_t bits) {
            Case c;
            c.sub = S_I2L;
            c.kind = kind;
            c.bits = bits;
            return c;
        },
        full(gen::inRange(0, (int)NKIND)), u64());
}

static Gen<Case> nint() {
    return gen::apply(
        [](bool uns, uint64_t bits) {
            Case c;
            c.sub = S_NINT;
            c.kind = uns;
            c.bits = bits;
            return c;
        },
        gen::arbitrary<bool>(), u64());
}

static Gen<std::vector<uint8_t>> octets() {
    return gen::oneOf(
        // any octets, any length 0..10
        gen::mapcat(full(gen::inRange<size_t>(0, 11)),
                    [](size_t n) { return gen::container<std::vector<uint8_t>>(n, octet()); }),
        // a run of redundant 00 / ff octets in front of arbitrary octets
        gen::apply(
            [](bool ff, size_t pad, std::vector<uint8_t> rest) {
                if (rest.size() + pad > 10) pad = 10 - rest.size();
                rest.insert(rest.begin(), pad, (uint8_t)(ff ? 0xff : 0x00));
                return rest;
            },
            gen::arbitrary<bool>(), full(gen::inRange<size_t>(1, 10)),
            gen::mapcat(full(gen::inRange<size_t>(0, 9)),
                        [](size_t n) { return gen::container<std::vector<uint8_t>>(n, octet()); })),
        // a value next to a type bound (+-2^63, 2^64, 0), sign-extended by 0..n octets
        gen::apply(
            [](int which, int delta, size_t pad) {
                i128 b;
                switch (which) {
                case 0: b = (i128)LONG_MAX; break;
                case 1: b = (i128)LONG_MIN; break;
                case 2: b = (i128)ULONG_MAX; break;
                case 3: b = 0; break;
                case 4: b = (i128)((u128)1 << 71); break;
                default: b = -(i128)((u128)1 << 71); break;
                }
                const i128 x = b + delta;
                size_t n = ref_min_octets(x).size() + pad;
                if (n > 10) n = 10;
                return ref_octets_len(x, n);
            },
            full(gen::inRange(0, 6)), full(gen::inRange(-4, 5)), full(gen::inRange<size_t>(0, 4))),
        // +-2^k + delta over the whole 80-bit span
        gen::apply(
            [](int k, int delta, bool neg, size_t pad) {
                i128 x = (i128)((u128)1 << k) + delta;
                if (neg) x = -x;
                size_t n = ref_min_octets(x).size() + pad;
                if (n > 10) n = 10;
                return ref_octets_len(x, n);
            },
            full(gen::inRange(0, 79)), full(gen::inRange(-2, 3)), gen::arbitrary<bool>(), full(gen::inRange<size_t>(0, 4))));
}

static Gen<Case> oct() {
    return gen::map(octets(), [](std::vector<uint8_t> b) {
        Case c;
        c.sub = S_OCT;
        c.bytes = std::move(b);
        return c;
    });
}

static Gen<uint64_t> mantissa() {
    constexpr uint64_t ones = 0xfffffffffffffull;
    return gen::oneOf(
        gen::map(full(gen::arbitrary<uint64_t>()), [](uint64_t v) { return v & ones; }),
        gen::map(gen::arbitrary<uint64_t>(), [](uint64_t v) { return v & ones; }),  // low bits only
        gen::apply([](uint64_t v, int sh) { return (v << sh) & ones; }, gen::arbitrary<uint64_t>(),
                   full(gen::inRange(0, 52))),  // few significant bits at any height: trailing zeros to normalise away
        gen::apply([](int a, int b, int c) { return ((uint64_t)1 << a) | ((uint64_t)1 << b) | ((uint64_t)1 << c); },
                   full(gen::inRange(0, 52)), full(gen::inRange(0, 52)), full(gen::inRange(0, 52))),
        gen::apply([](int a) { return ones >> a << a; }, full(gen::inRange(0, 52))), gen::element<uint64_t>(0, 1, ones));
}

static Gen<uint64_t> dblbits() {
    return gen::oneOf(
        full(gen::arbitrary<uint64_t>()),
        gen::apply([](bool s, int e, uint64_t m) { return ((uint64_t)s << 63) | ((uint64_t)e << 52) | m; }, gen::arbitrary<bool>(),
                   gen::oneOf(full(gen::inRange(0, 2048)),
                              gen::element(0, 1, 2, 51, 52, 53, 895, 896, 1022, 1023, 1024, 1075, 1076, 2045, 2046, 2047)),
                   mantissa()),
        // values people write: small integers, binary and decimal fractions
        gen::apply([](int i, int sh, bool neg) { return d2bits(std::ldexp((double)(neg ? -i : i), -sh)); },
                   full(gen::inRange(0, 100001)), full(gen::inRange(0, 12)), gen::arbitrary<bool>()),
        gen::apply([](int i, int p, bool neg, bool inv) { return d2bits((double)(neg ? -i : i) * std::pow(10.0, inv ? -p : p)); },
                   full(gen::inRange(0, 10000)), full(gen::inRange(0, 31)), gen::arbitrary<bool>(), gen::arbitrary<bool>()));
}

static Gen<Case> dbl(Sub sub) {
    return gen::map(dblbits(), [sub](uint64_t b) {
        Case c;
        c.sub = sub;
        c.bits = b;
        return c;
    });
}

static Gen<std::string> numeral() {
    static const u128 p63 = (u128)1 << 63, p64 = (u128)1 << 64;
    static const std::vector<u128> B = {0, 128, 32768, (u128)1 << 31, (u128)1 << 32, (u128)LONG_MAX / 10, (u128)ULONG_MAX / 10,
                                        (u128)LONG_MAX, p63, (u128)ULONG_MAX, p64, p63 * 10, p64 * 10, (u128)LONG_MAX + 1};
    return gen::oneOf(
        gen::apply(
            [](size_t i, int d) {
                u128 b = B[i];
                if (d < 0 && b < (u128)(-d)) return udec(b);
                return udec(b + (u128)(i128)d);
            },
            full(gen::inRange<size_t>(0, B.size())), full(gen::inRange(-15, 16))),
        // boundary with one digit changed / appended / dropped
        gen::apply(
            [](size_t i, size_t pos, int digit, int op) {
                std::string s = udec(B[i]);
                pos %= s.size();
                if (op == 0) s[pos] = (char)('0' + digit);
                else if (op == 1) s.insert(s.begin() + (ptrdiff_t)pos, (char)('0' + digit));
                else if (s.size() > 1) s.erase(s.begin() + (ptrdiff_t)pos);
                return s;
            },
            full(gen::inRange<size_t>(5, B.size())), full(gen::inRange<size_t>(0, 24)), full(gen::inRange(0, 10)),
            full(gen::inRange(0, 3))),
        gen::mapcat(full(gen::inRange<size_t>(0, 26)),
                    [](size_t n) { return gen::container<std::string>(n, full(gen::inRange<char>('0', '9' + 1))); }),
        gen::map(gen::arbitrary<uint64_t>(), [](uint64_t v) { return udec(v); }),
        gen::map(full(gen::arbitrary<uint64_t>()), [](uint64_t v) { return udec(v); }));
}

static Gen<Case> str() {
    return gen::apply(
        [](int fn, int sign, size_t zeros, std::string num, std::string tail, size_t cut) {
            std::string s = sign == 1 ? "+" : sign == 2 ? "-" : "";
            s += std::string(zeros, '0') + num + tail;
            if (cut > s.size()) cut = s.size();
            s.resize(s.size() - cut);
            Case c;
            c.sub = S_STR;
            c.kind = fn;
            c.bytes.assign(s.begin(), s.end());
            return c;
        },
        full(gen::inRange(0, (int)NKIND)), full(gen::inRange(0, 3)),
        gen::weightedOneOf<size_t>({{6, gen::just<size_t>(0)}, {2, full(gen::inRange<size_t>(1, 4))}, {1, full(gen::inRange<size_t>(4, 30))}}),
        numeral(),
        gen::weightedOneOf<std::string>(
            {{5, gen::just(std::string())},
             {3, gen::element(std::string(" "), std::string("x"), std::string("<"), std::string("-"), std::string("+"),
                              std::string(".5"), std::string("e9"), std::string("\0", 1), std::string("\xff"), std::string("/"),
                              std::string(":"), std::string("</INTEGER>"))},
             {1, gen::mapcat(full(gen::inRange<size_t>(1, 4)), [](size_t n) {
                  return gen::container<std::string>(n, gen::oneOf(full(gen::arbitrary<char>()), gen::element('0', '9', '+', '-', ' ')));
              })}}),
        gen::weightedOneOf<size_t>({{8, gen::just<size_t>(0)}, {1, full(gen::inRange<size_t>(1, 3))}}));
}
}  // namespace G

static bool run_random_sub(int sub) {
    const rc::Gen<Case> g = sub == S_I2L   ? G::i2l()
                            : sub == S_OCT ? G::oct()
                            : sub == S_DBL ? G::dbl(S_DBL)
                            : sub == S_STR ? G::str()
                            : sub == S_NINT ? G::nint()
                                            : G::dbl(S_NREAL);
    g_have_lastfail = false;
    const bool ok = rc::check(std::string("C16.") + SUBNAME[sub], [&g]() {
        const Case c = *g;
        const Verdict v = evaluate(c);
        if (!v.ok) RC_FAIL(v.label + ": " + v.detail + "  [" + case_line(c) + "]");
    });
    if (!ok) {
        if (g_have_lastfail) {
            record_failure(g_lastfail);  // the last failing evaluation is the shrunk one
        } else {
            record_failure({SUBNAME[sub], "rapidcheck.gave-up", "-", "rc::check returned false without a failing case"});
        }
    }
    return ok;
}

// ------------------------------------------------------------------------------------------ output
static std::string jstr(const std::string &s) {
    std::string o = "\"";
    for (unsigned char ch : s) {
        if (ch == '"' || ch == '\\') {
            o += '\\';
            o += (char)ch;
        } else if (ch < 0x20 || ch >= 0x7f) {
            o += fmt("\\u%04x", ch);
        } else {
            o += (char)ch;
        }
    }
    return o + "\"";
}

static void print_json(const char *mode, uint64_t seed, bool ok) {
    std::string j = "{";
    j += "\"mode\":" + jstr(mode) + fmt(",\"seed\":%llu,\"ok\":%s", (unsigned long long)seed, ok ? "true" : "false");
    j += ",\"subs\":{";
    bool first = true;
    for (int s = 0; s < NSUB; s++) {
        if (!g_stat[s].cases) continue;
        j += fmt("%s\"%s\":{\"cases\":%llu,\"nontrivial\":%llu,\"excluded\":%llu}", first ? "" : ",", SUBNAME[s],
                 (unsigned long long)g_stat[s].cases, (unsigned long long)g_stat[s].nontrivial, (unsigned long long)g_stat[s].excluded);
        first = false;
    }
    j += fmt("},\"distinct_nontrivial\":%llu,\"bitmap_bits\":%u", (unsigned long long)g_distinct, g_bitmap_log2);
    j += ",\"classes\":{";
    first = true;
    for (const auto &kv : g_classes) {
        if (!kv.second) continue;
        j += (first ? "" : ",") + jstr(kv.first) + fmt(":%llu", (unsigned long long)kv.second);
        first = false;
    }
    j += "},\"samples\":[";
    for (size_t i = 0; i < g_samples.size(); i++) j += (i ? "," : "") + jstr(g_samples[i]);
    j += "],\"failures\":[";
    for (size_t i = 0; i < g_failures.size(); i++) {
        const Failure &f = g_failures[i];
        j += std::string(i ? "," : "") + "{\"sub\":" + jstr(f.sub) + ",\"label\":" + jstr(f.label) + ",\"case\":" + jstr(f.line) +
             ",\"detail\":" + jstr(f.detail) + "}";
    }
    j += "]}";
    printf("C16JSON %s\n", j.c_str());
    fflush(stdout);
}

static int usage() {
    fprintf(stderr, "usage: c16 --mode sweep|random|replay [--sub all|i2l|oct|dbl|str|nint|nreal] [--seed N] [--cases N]\n"
                    "           [--exclude class,..] [--fail-out file] [--bitmap-out file] [--bitmap-bits n]\n"
                    "           [--file replayfile] [--case 'case line']\n");
    return 2;
}

int main(int argc, char **argv) {
    std::string mode, subname = "all", file, one_case, bitmap_out;
    uint64_t seed = 20240928, cases = 10000;
    for (int i = 1; i < argc; i++) {
        std::string a = argv[i];
        auto next = [&]() -> std::string { return i + 1 < argc ? argv[++i] : ""; };
        if (a == "--mode") mode = next();
        else if (a == "--sub") subname = next();
        else if (a == "--seed") seed = strtoull(next().c_str(), 0, 0);
        else if (a == "--cases") cases = strtoull(next().c_str(), 0, 0);
        else if (a == "--fail-out") g_fail_out = next();
        else if (a == "--bitmap-out") bitmap_out = next();
        else if (a == "--bitmap-bits") g_bitmap_log2 = (unsigned)atoi(next().c_str());
        else if (a == "--file") file = next();
        else if (a == "--case") one_case = next();
        else if (a == "--exclude") {
            std::string l = next(), t;
            for (char ch : l + ",") {
                if (ch == ',') {
                    if (!t.empty()) g_excl.insert(t);
                    t.clear();
                } else {
                    t += ch;
                }
            }
        } else if (a == "replay" || a == "sweep" || a == "random") {
            mode = a;
            if (a == "replay" && i + 1 < argc && argv[i + 1][0] != '-') file = argv[++i];
        } else {
            return usage();
        }
    }
    if (g_bitmap_log2 < 16 || g_bitmap_log2 > 30) return usage();
    int sub = -1;
    for (int s = 0; s < NSUB; s++)
        if (subname == SUBNAME[s]) sub = s;
    if (sub < 0 && subname != "all") return usage();
    g_ex_neg = g_excl.count(CLS_NEG_UNSIGNED) > 0;
    g_ex_nodigits = g_excl.count(CLS_NO_DIGITS) > 0;
    for (const std::string &e : g_excl)
        if (e != CLS_NEG_UNSIGNED && e != CLS_NO_DIGITS) {
            fprintf(stderr, "c16: unknown class to exclude: %s\n", e.c_str());
            return 2;
        }

    __sanitizer_set_death_callback(on_death);
    signal(SIGABRT, on_abort);
    init_native();
    memset(&g_reuse_int, 0, sizeof g_reuse_int);
    memset(&g_reuse_real, 0, sizeof g_reuse_real);

    bool ok = true;
    if (mode == "sweep") {
        g_sample_every = 40009;
        run_sweep(sub, seed);
        ok = g_failures.empty();
    } else if (mode == "random") {
        if (!getenv("RC_PARAMS")) {
            static char env[128];
            snprintf(env, sizeof env, "RC_PARAMS=seed=%llu max_success=%llu max_size=100", (unsigned long long)seed,
                     (unsigned long long)cases);
            putenv(env);
        }
        g_sample_every = std::max<uint64_t>(cases / 4, 1) | 1;
        for (int s = 0; s < NSUB; s++)
            if (sub < 0 || sub == s) ok = run_random_sub(s) && ok;
    } else if (mode == "replay") {
        std::vector<std::string> lines;
        if (!one_case.empty()) lines.push_back(one_case);
        if (!file.empty()) {
            FILE *fp = fopen(file.c_str(), "r");
            if (!fp) {
                fprintf(stderr, "c16: cannot open %s\n", file.c_str());
                return 2;
            }
            std::string all;
            char b[4096];
            size_t n;
            while ((n = fread(b, 1, sizeof b, fp)) > 0) all.append(b, n);
            fclose(fp);
            size_t p = all.find_first_not_of(" \t\r\n");
            if (p != std::string::npos && all[p] == '{') {  // the JSON replay file written by the runner: "line": "<case>"
                size_t k = all.find("\"line\"");
                size_t q1 = k == std::string::npos ? k : all.find('"', all.find(':', k));
                size_t q2 = q1 == std::string::npos ? q1 : all.find('"', q1 + 1);
                if (q2 == std::string::npos) {
                    fprintf(stderr, "c16: no \"line\" in %s\n", file.c_str());
                    return 2;
                }
                lines.push_back(all.substr(q1 + 1, q2 - q1 - 1));
            } else {
                size_t s0 = 0;
                while (s0 < all.size()) {
                    size_t e0 = all.find('\n', s0);
                    if (e0 == std::string::npos) e0 = all.size();
                    std::string l = all.substr(s0, e0 - s0);
                    if (!l.empty() && l[0] != '#') lines.push_back(l);
                    s0 = e0 + 1;
                }
            }
        }
        if (lines.empty()) return usage();
        for (const std::string &l : lines) {
            Case c;
            if (!parse_case(l, &c)) {
                fprintf(stderr, "c16: cannot parse case line: %s\n", l.c_str());
                return 2;
            }
            g_sample_every = 1;
            Verdict v = evaluate(c);
            if (!v.ok) {
                record_failure(g_lastfail);
                printf("C16 replay FAIL %s : %s: %s\n", l.c_str(), v.label.c_str(), v.detail.c_str());
                ok = false;
            } else {
                printf("C16 replay pass %s\n", l.c_str());
            }
        }
    } else {
        return usage();
    }

    ASN_STRUCT_RESET(asn_DEF_INTEGER, &g_reuse_int);
    ASN_STRUCT_RESET(asn_DEF_REAL, &g_reuse_real);
    if (!bitmap_out.empty() && !g_bitmap.empty()) {
        FILE *fp = fopen(bitmap_out.c_str(), "wb");
        if (fp) {
            fwrite(g_bitmap.data(), 8, g_bitmap.size(), fp);
            fclose(fp);
        }
    }
    print_json(mode.c_str(), seed, ok);
    return ok ? 0 : 1;
}
