/*
 * C10: internal consistency of the type descriptors asn1c generated.
 *
 * Linked *instead of* converter-example.c with exactly the files asn1c emitted.  Walks every
 * descriptor reachable from asn_pdu_collection[] and checks the invariants the runtime relies on
 * (each one is read off the code that consumes the table, named in the comment next to it).
 * Prints one line per broken invariant ("BAD <type>: <text>") and a summary "SELFCHECK types=N bad=M".
 *
 * Which constructed/primitive families are present is told by -DSC_HAVE_<header stem> so that the
 * program links against exactly the emitted file set.
 */
#include <stdio.h>
#include <string.h>
#include <stdlib.h>
#include <asn_application.h>
#include <asn_internal.h>
#ifdef SC_HAVE_constr_SEQUENCE
#include <constr_SEQUENCE.h>
#endif
#ifdef SC_HAVE_constr_SET
#include <constr_SET.h>
#endif
#ifdef SC_HAVE_constr_CHOICE
#include <constr_CHOICE.h>
#endif
#ifdef SC_HAVE_constr_SET_OF
#include <constr_SET_OF.h>
#endif
#ifdef SC_HAVE_constr_SEQUENCE_OF
#include <constr_SEQUENCE_OF.h>
#endif
#ifdef SC_HAVE_INTEGER
#include <INTEGER.h>
#endif
#ifdef SC_HAVE_NativeInteger
#include <NativeInteger.h>
#endif
#ifdef SC_HAVE_NativeEnumerated
#include <NativeEnumerated.h>
#endif
#ifdef SC_HAVE_ENUMERATED
#include <ENUMERATED.h>
#endif

extern asn_TYPE_descriptor_t *asn_pdu_collection[];

static int bad_count;
static const asn_TYPE_descriptor_t *seen[65536];
static size_t seen_n;

#define BAD(td, ...) do { bad_count++; printf("BAD %s: ", (td)->name ? (td)->name : "?"); \
        printf(__VA_ARGS__); printf("\n"); } while(0)

static int t2e_order(const asn_TYPE_tag2member_t *a, const asn_TYPE_tag2member_t *b) {
    /* constr_SEQUENCE.c:_t2e_cmp / constr_SET.c / constr_CHOICE.c:_search4tag order: class, then value */
    int ac = BER_TAG_CLASS(a->el_tag), bc = BER_TAG_CLASS(b->el_tag);
    if(ac != bc) return ac < bc ? -1 : 1;
    ber_tlv_tag_t av = BER_TAG_VALUE(a->el_tag), bv = BER_TAG_VALUE(b->el_tag);
    if(av != bv) return av < bv ? -1 : 1;
    return 0;
}

/* tag2el tables are searched with bsearch(): they must be sorted; toff_first/toff_last delimit the run of equal tags */
static void check_tag2el(const asn_TYPE_descriptor_t *td, const char *what, const asn_TYPE_tag2member_t *t, unsigned n,
                         int runs) {
    if(n && !t) { BAD(td, "%s: count %u with a null table", what, n); return; }
    for(unsigned i = 0; i < n; i++) {
        if(t[i].el_no >= td->elements_count)
            BAD(td, "%s[%u].el_no=%u >= elements_count=%u", what, i, t[i].el_no, td->elements_count);
        if(i && t2e_order(&t[i - 1], &t[i]) > 0)
            BAD(td, "%s not sorted at %u", what, i);
        if(runs) {
            unsigned f = i, l = i;
            while(f > 0 && t2e_order(&t[f - 1], &t[i]) == 0) f--;
            while(l + 1 < n && t2e_order(&t[l + 1], &t[i]) == 0) l++;
            if(t[i].toff_first != (int)f - (int)i || t[i].toff_last != (int)l - (int)i)
                BAD(td, "%s[%u] toff_first/last=%d/%d, the run of this tag is %d/%d", what, i, t[i].toff_first,
                    t[i].toff_last, (int)f - (int)i, (int)l - (int)i);
        }
    }
}

/* every member with a definite outermost tag must be reachable through the table under that tag */
static void check_tag2el_complete(const asn_TYPE_descriptor_t *td, const char *what, const asn_TYPE_tag2member_t *t,
                                  unsigned n) {
    for(unsigned e = 0; e < td->elements_count; e++) {
        ber_tlv_tag_t tag = td->elements[e].tag;
        if(tag == (ber_tlv_tag_t)-1) continue;   /* untagged CHOICE / ANY: listed under the alternatives' tags */
        if(td->elements[e].flags & (ATF_OPEN_TYPE | ATF_ANY_TYPE)) continue;
        int found = 0;
        for(unsigned i = 0; i < n; i++)
            if(t[i].el_no == e && BER_TAGS_EQUAL(t[i].el_tag, tag)) found = 1;
        if(!found) BAD(td, "%s has no entry for member %u (%s)", what, e, td->elements[e].name ? td->elements[e].name : "");
    }
}

static void check_members(const asn_TYPE_descriptor_t *td, unsigned struct_size, int named) {
    if(td->elements_count && !td->elements) { BAD(td, "elements_count=%u with null elements", td->elements_count); return; }
    for(unsigned i = 0; i < td->elements_count; i++) {
        const asn_TYPE_member_t *m = &td->elements[i];
        if(!m->type) { BAD(td, "member %u has no type", i); continue; }
        if(named && (!m->name || !*m->name)) BAD(td, "member %u has no name", i);
        if(struct_size) {
            unsigned need = (m->flags & ATF_POINTER) ? (unsigned)sizeof(void *) : 1;
            if(m->memb_offset + need > struct_size)
                BAD(td, "member %u offset %u outside the structure of %u bytes", i, m->memb_offset, struct_size);
        }
        /* `optional` counts the omittable members starting here (constr_SEQUENCE.c uses edx + optional as a window) */
        if(m->optional) {
            if(i + m->optional > td->elements_count)
                BAD(td, "member %u: optional=%u runs past the last member", i, m->optional);
            else
                for(unsigned j = 1; j < m->optional; j++)
                    if(td->elements[i + j].optional + j < m->optional)
                        BAD(td, "member %u: optional=%u but member %u has optional=%u", i, m->optional, i + j,
                            td->elements[i + j].optional);
        }
        if(m->tag_mode < -1 || m->tag_mode > 1) BAD(td, "member %u tag_mode=%d", i, m->tag_mode);
    }
}

#if defined(SC_HAVE_INTEGER)
static void check_intspec(const asn_TYPE_descriptor_t *td) {
    const asn_INTEGER_specifics_t *s = (const asn_INTEGER_specifics_t *)td->specifics;
    if(!s) return;
    if(s->map_count < 0) { BAD(td, "map_count=%d", s->map_count); return; }
    if(s->map_count && (!s->value2enum || !s->enum2value)) { BAD(td, "enumeration maps missing"); return; }
    char *hit = (char *)calloc(s->map_count ? s->map_count : 1, 1);
    for(int i = 0; i < s->map_count; i++) {
        const asn_INTEGER_enum_map_t *e = &s->value2enum[i];
        if(!e->enum_name || strlen(e->enum_name) != e->enum_len)
            BAD(td, "value2enum[%d]: enum_len does not match the name", i);
        /* INTEGER.c:INTEGER_map_value2enum does bsearch() by nat_value */
        if(i && s->value2enum[i - 1].nat_value >= e->nat_value)
            BAD(td, "value2enum not strictly sorted by value at %d", i);
        /* INTEGER.c:INTEGER_map_enum2value does bsearch() over names through enum2value */
        unsigned k = s->enum2value[i];
        if(k >= (unsigned)s->map_count) { BAD(td, "enum2value[%d]=%u out of range", i, k); continue; }
        if(hit[k]) BAD(td, "enum2value is not a permutation (index %u twice)", k);
        hit[k] = 1;
        if(i) {
            unsigned p = s->enum2value[i - 1];
            if(p < (unsigned)s->map_count && s->value2enum[p].enum_name && s->value2enum[k].enum_name
               && strcmp(s->value2enum[p].enum_name, s->value2enum[k].enum_name) >= 0)
                BAD(td, "enum2value not sorted by name at %d", i);
        }
    }
    free(hit);
    if(s->field_unsigned != 0 && s->field_unsigned != 1) BAD(td, "field_unsigned=%d", s->field_unsigned);
#ifndef ASN_DISABLE_PER_SUPPORT
    /* a constrained whole number is sent in range_bits bits: the range must fit and need them all */
    const asn_per_constraints_t *pc = td->encoding_constraints.per_constraints;
    if(pc && (pc->value.flags & APC_CONSTRAINED) && !s->map_count) {
        const asn_per_constraint_t *c = &pc->value;
        int ok_order = s->field_unsigned ? ((unsigned long)c->lower_bound <= (unsigned long)c->upper_bound)
                                         : (c->lower_bound <= c->upper_bound);
        if(ok_order && c->range_bits >= 0 && c->range_bits <= 62) {
            unsigned long span = (unsigned long)c->upper_bound - (unsigned long)c->lower_bound;   /* values - 1 */
            if((span >> c->range_bits) != 0)
                BAD(td, "PER value range %ld..%ld does not fit range_bits=%d", c->lower_bound, c->upper_bound, c->range_bits);
            if(c->range_bits > 0 && (span >> (c->range_bits - 1)) == 0)
                BAD(td, "PER value range %ld..%ld needs fewer than range_bits=%d", c->lower_bound, c->upper_bound,
                    c->range_bits);
        }
    }
#endif
}
#endif

static void check_oer(const asn_TYPE_descriptor_t *td, const asn_oer_constraints_t *oc, const char *where) {
#ifndef ASN_DISABLE_OER_SUPPORT
    if(!oc) return;
    unsigned w = oc->value.width;
    if(!(w == 0 || w == 1 || w == 2 || w == 4 || w == 8)) BAD(td, "%s OER width %u", where, w);
    if(oc->value.positive > 1) BAD(td, "%s OER positive=%u", where, oc->value.positive);
    if(oc->size < -1) BAD(td, "%s OER size %ld", where, (long)oc->size);
#else
    (void)td; (void)oc; (void)where;
#endif
}

static void walk(const asn_TYPE_descriptor_t *td) {
    for(size_t i = 0; i < seen_n; i++) if(seen[i] == td) return;
    if(seen_n == sizeof(seen) / sizeof(seen[0])) return;
    seen[seen_n++] = td;

    if(!td->name) BAD(td, "no name");
    if(!td->xml_tag) BAD(td, "no xml_tag");
    if(!td->op) { BAD(td, "no operations table"); return; }
    if(!td->op->free_struct || !td->op->print_struct || !td->op->compare_struct)
        BAD(td, "free/print/compare operation missing");
    /* ber_check_tags() walks tags[0..tags_count); der encoders walk all_tags */
    if(td->tags_count && !td->tags) BAD(td, "tags_count=%u with null tags", td->tags_count);
    if(td->all_tags_count && !td->all_tags) BAD(td, "all_tags_count=%u with null all_tags", td->all_tags_count);
    if(td->tags_count > td->all_tags_count) BAD(td, "tags_count=%u > all_tags_count=%u", td->tags_count, td->all_tags_count);
    if(td->tags_count && td->all_tags_count && td->tags && td->all_tags && !BER_TAGS_EQUAL(td->tags[0], td->all_tags[0]))
        BAD(td, "outermost tag differs between tags[] and all_tags[]");
    check_oer(td, td->encoding_constraints.oer_constraints, "type");
    for(unsigned i = 0; td->elements && i < td->elements_count; i++)
        check_oer(td, td->elements[i].encoding_constraints.oer_constraints, "member");

#ifdef SC_HAVE_constr_SEQUENCE
    if(td->op == &asn_OP_SEQUENCE) {
        const asn_SEQUENCE_specifics_t *s = (const asn_SEQUENCE_specifics_t *)td->specifics;
        if(!s) { BAD(td, "no specifics"); return; }
        if(s->ctx_offset + sizeof(asn_struct_ctx_t) > s->struct_size) BAD(td, "ctx_offset outside the structure");
        check_members(td, s->struct_size, 1);
        check_tag2el(td, "tag2el", s->tag2el, s->tag2el_count, 1);
        if(s->tag2el) check_tag2el_complete(td, "tag2el", s->tag2el, s->tag2el_count);
        if(s->first_extension < -1 || s->first_extension > (int)td->elements_count)
            BAD(td, "first_extension=%d with %u members", s->first_extension, td->elements_count);
        if((s->roms_count + s->aoms_count) && !s->oms) BAD(td, "oms missing");
        /* constr_SEQUENCE_oer.c / SEQUENCE_decode_uper: one preamble bit per oms entry, in order */
        for(unsigned i = 0; s->oms && i < s->roms_count + s->aoms_count; i++) {
            int e = s->oms[i];
            if(e < 0 || (unsigned)e >= td->elements_count) { BAD(td, "oms[%u]=%d out of range", i, e); continue; }
            if(!td->elements[e].optional) BAD(td, "oms[%u]=%d names a mandatory member", i, e);
            if(i && i != s->roms_count && s->oms[i - 1] >= e) BAD(td, "oms not increasing at %u", i);
            if(i >= s->roms_count && (s->first_extension < 0 || e < s->first_extension))
                BAD(td, "oms[%u]=%d listed as an addition but lies before first_extension=%d", i, e, s->first_extension);
        }
#ifndef ASN_DISABLE_PER_SUPPORT
        if(s->oms || !td->elements_count) {
            /* every omittable member needs its presence bit */
            unsigned omittable = 0;
            for(unsigned e = 0; e < td->elements_count; e++) if(td->elements[e].optional) omittable++;
            if(s->oms && omittable != s->roms_count + s->aoms_count)
                BAD(td, "%u omittable members but %u+%u oms entries", omittable, s->roms_count, s->aoms_count);
        }
#endif
    }
#endif
#ifdef SC_HAVE_constr_SET
    if(td->op == &asn_OP_SET) {
        const asn_SET_specifics_t *s = (const asn_SET_specifics_t *)td->specifics;
        if(!s) { BAD(td, "no specifics"); return; }
        if(s->ctx_offset + sizeof(asn_struct_ctx_t) > s->struct_size) BAD(td, "ctx_offset outside the structure");
        if(s->pres_offset + (td->elements_count + 7) / 8 > s->struct_size) BAD(td, "presence map outside the structure");
        check_members(td, s->struct_size, 1);
        check_tag2el(td, "tag2el", s->tag2el, s->tag2el_count, 0);
        if(s->tag2el) check_tag2el_complete(td, "tag2el", s->tag2el, s->tag2el_count);
        /* tag2el_cxer is walked in table order by SET_encode_xer (canonical order), never searched: only the indices matter */
        for(unsigned i = 0; s->tag2el_cxer && i < s->tag2el_cxer_count; i++)
            if(s->tag2el_cxer[i].el_no >= td->elements_count)
                BAD(td, "tag2el_cxer[%u].el_no=%u >= elements_count=%u", i, s->tag2el_cxer[i].el_no, td->elements_count);
        /* constr_SET.c: (pres & ntohl(map[i])) == ntohl(map[i]); bit 7-(e%8) of byte e/8 is member e */
        if(td->elements_count && !s->_mandatory_elements) BAD(td, "mandatory map missing");
        else for(unsigned e = 0; e < td->elements_count; e++) {
            const uint8_t *mm = (const uint8_t *)s->_mandatory_elements;
            int must = (mm[e / 8] >> (7 - (e % 8))) & 1;
            if(must != !td->elements[e].optional)
                BAD(td, "mandatory map says %d for member %u whose optional=%u", must, e, td->elements[e].optional);
        }
    }
#endif
#ifdef SC_HAVE_constr_CHOICE
    if(td->op == &asn_OP_CHOICE) {
        const asn_CHOICE_specifics_t *s = (const asn_CHOICE_specifics_t *)td->specifics;
        if(!s) { BAD(td, "no specifics"); return; }
        if(s->ctx_offset + sizeof(asn_struct_ctx_t) > s->struct_size) BAD(td, "ctx_offset outside the structure");
        if(s->pres_offset + s->pres_size > s->struct_size) BAD(td, "presence field outside the structure");
        if(!(s->pres_size == 1 || s->pres_size == 2 || s->pres_size == 4 || s->pres_size == 8))
            BAD(td, "pres_size=%u", s->pres_size);
        check_members(td, s->struct_size, 1);
        check_tag2el(td, "tag2el", s->tag2el, s->tag2el_count, 0);
        if(s->tag2el) check_tag2el_complete(td, "tag2el", s->tag2el, s->tag2el_count);
        if(s->ext_start < -1 || s->ext_start > (int)td->elements_count) BAD(td, "ext_start=%d", s->ext_start);
        if((s->to_canonical_order != 0) != (s->from_canonical_order != 0)) BAD(td, "only one canonical-order map");
        if(s->to_canonical_order && s->from_canonical_order)
            for(unsigned i = 0; i < td->elements_count; i++) {
                unsigned c = s->to_canonical_order[i];
                if(c >= td->elements_count) { BAD(td, "to_canonical_order[%u]=%u", i, c); continue; }
                if(s->from_canonical_order[c] != i) BAD(td, "canonical-order maps are not inverse at %u", i);
            }
    }
#endif
#ifdef SC_HAVE_constr_SET_OF
    if(td->op == &asn_OP_SET_OF
#ifdef SC_HAVE_constr_SEQUENCE_OF
       || td->op == &asn_OP_SEQUENCE_OF
#endif
       ) {
        const asn_SET_OF_specifics_t *s = (const asn_SET_OF_specifics_t *)td->specifics;
        if(!s) { BAD(td, "no specifics"); return; }
        if(td->elements_count != 1) BAD(td, "a collection with %u element descriptions", td->elements_count);
        if(s->ctx_offset + sizeof(asn_struct_ctx_t) > s->struct_size) BAD(td, "ctx_offset outside the structure");
        check_members(td, 0, 0);
    }
#endif
#if defined(SC_HAVE_INTEGER)
    if(0
#ifdef SC_HAVE_NativeInteger
       || td->op == &asn_OP_NativeInteger
#endif
#ifdef SC_HAVE_NativeEnumerated
       || td->op == &asn_OP_NativeEnumerated
#endif
#ifdef SC_HAVE_ENUMERATED
       || td->op == &asn_OP_ENUMERATED
#endif
       || td->op == &asn_OP_INTEGER)
        check_intspec(td);
#endif
    for(unsigned i = 0; td->elements && i < td->elements_count; i++)
        if(td->elements[i].type) walk(td->elements[i].type);
}

int main(void) {
    size_t n = 0;
    for(asn_TYPE_descriptor_t **p = asn_pdu_collection; *p; p++, n++) walk(*p);
    printf("SELFCHECK pdus=%zu types=%zu bad=%d\n", n, seen_n, bad_count);
    return bad_count ? 3 : 0;
}
