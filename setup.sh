#!/bin/sh
# Offline setup: build the compiler and the skeleton libraries from /repo's working tree and run the
# reference-codec self tests.  Everything lands in /verif/build (git-ignored).
cd "$(dirname "$0")" || exit 2
export PYTHONPATH="$PWD${PYTHONPATH:+:$PYTHONPATH}"
python3-vt -m vf.build asan plain || exit 1
python3-vt -m vf.ref_selftest || exit 1
echo "setup ok"
